import Afkak.Monitor.C12
import AfkakProofs.Crc.Table
import AfkakProofs.Crc.Burst
import AfkakProofs.Crc.Message
import AfkakProofs.Crc.LinDecoders
import AfkakProofs.Crc.SetCost
import AfkakProofs.Crc.Truncate
import AfkakProofs.Crc.CorruptSet
import AfkakProofs.Crc.Grow
import AfkakProofs.Crc.CrcField
import AfkakProofs.Crc.FetchTotal
import AfkakProofs.Crc.Agree
import AfkakProofs.Crc.AgreeResp
import AfkakProofs.Crc.AgreeResp2
import AfkakProofs.Crc.Alloc
import AfkakProofs.Crc.Wrapped
import AfkakProofs.Crc.Refetch
import AfkakProofs.Crc.AnyPosition
import AfkakProofs.Crc.RefetchDelivery
import AfkakProofs.Crc.RefetchStep
import AfkakProofs.Crc.BurstBytes
import AfkakProofs.Crc.CorruptSetAny
import AfkakProofs.Crc.TruncRefetch
import AfkakProofs.Crc.RefetchParked
import AfkakProofs.Crc.RefetchAtMax
import AfkakProofs.Crc.MsbFirstWitness
import AfkakProps.Open.C12
/-!
# C12 — corrupted or truncated message data is never delivered; decoding is linear
Property theorems only; helper lemmas live in `AfkakProofs/Crc/`.

Bit order.  "Burst of span ≤ 32" means: the set bits of the error pattern lie within 32
consecutive bits of the byte string read in the order CRC-32 consumes it — byte by byte, least
significant bit of each byte first (`Afkak.Crc32.bitsOf`, `Afkak.Monitor.C12.burstWithin`).
Every alteration confined to four consecutive bytes is such a burst, whatever the bit order
(`C12_window_bytes` states that on bytes).  With the OTHER numbering (most significant bit of each
byte first) a non-byte-aligned window of 32 bits is up to 40 bits wide in CRC order and detection is
not guaranteed: `C12_burst_msb_first_counterexample`.
-/
namespace Afkak.Props.C12
open Afkak.Crc32 Afkak.WireCost Afkak.C12 Afkak.Monitor.C12

/-! ## (a) corruption -/

/-- The byte-table CRC the decoder model runs (zlib's algorithm) is the bit-serial LFSR. -/
theorem C12_crc_table (data : List UInt8) : crc32 data = crcSpec data :=
  crc32_eq_crcSpec data

/-- Two bit strings that differ only inside one window of at most 32 consecutive bits have
    different CRC-32s — every prefix, every suffix, every length. -/
theorem C12_burst_bits (pre w w' post : List Bool) (hl : w.length = w'.length)
    (h32 : w.length ≤ 32) (hne : w ≠ w') :
    crcBits (pre ++ w ++ post) ≠ crcBits (pre ++ w' ++ post) :=
  crcBits_window pre w w' post hl h32 hne

/-- Byte strings: XOR-ing a non-zero error pattern of span ≤ 32 bits changes the CRC-32. -/
theorem C12_burst_crc (data e : List UInt8) (k : Nat) (hl : e.length = data.length)
    (hnz : nonzero e = true) (hw : burstWithin e k 32 = true) :
    crc32 (xorBytes data e) ≠ crc32 data :=
  crc32_burst data e k hl hnz hw

/-- **Burst detection, all message lengths.**  A message whose stored CRC matches, altered by any
    non-zero burst of span ≤ 32 bits inside its checksummed region (everything after the four CRC
    bytes: magic..value), is rejected by `_decode_message` with `ChecksumError` before anything is
    interpreted: nothing is yielded, for every nested-set decoder, gunzip function and offset. -/
theorem C12_burst (inner : List UInt8 → SetOut) (gz : Gz) (off : Int) (msg e : List UInt8) (k : Nat)
    (hcrc : crcOk msg = true) (hb : isBurst msg.length e k = true) :
    decodeMessage inner gz (some (xorBytes msg e)) off
      = .out [] (some .checksum) (1 + (msg.length - 4)) 0 :=
  decodeMessage_burst inner gz off msg e k hcrc hb

/-- An alteration confined to the four stored CRC bytes (any non-zero pattern) is rejected as well:
    the checksummed region is unchanged, the stored word is not. -/
theorem C12_crc_field_error (inner : List UInt8 → SetOut) (gz : Gz) (off : Int) (msg e : List UInt8)
    (hcrc : crcOk msg = true) (hel : e.length = msg.length)
    (hf : nonzero (e.take 4) = true) (hz : (e.drop 4).all (fun b => b == 0) = true) :
    decodeMessage inner gz (some (xorBytes msg e)) off
      = .out [] (some .checksum) (1 + (msg.length - 4)) 0 :=
  decodeMessage_crc_field inner gz off msg e hcrc hel hf hz

/-- The same inside a message set: with plain messages `before` the altered one and anything after
    it, iteration yields exactly `before`, then raises `ChecksumError`. -/
theorem C12_burst_in_set (gz : Gz) (depth : Nat) (before : List (Int × Msg)) (off : Int)
    (msg e : List UInt8) (k : Nat) (tail : List UInt8)
    (hpl : ∀ om ∈ before, plainEntry om = true) (ho : int64 off = true)
    (hlen : msg.length < 2147483648)
    (hcrc : crcOk msg = true) (hb : isBurst msg.length e k = true) :
    let bad := xorBytes msg e
    let data := encodeSet before ++ (toBESigned 8 off ++ toBESigned 4 bad.length ++ bad) ++ tail
    (decodeSet gz depth data).msgs = before ∧ (decodeSet gz depth data).err = some Err.checksum :=
  decodeSet_corrupt gz depth before off msg e k tail hpl ho hlen hcrc hb

/-- The same when the entries before the altered message may be gzip wrappers of either format
    (payload decompressing to a set of plain messages): exactly what they contain is yielded,
    then `ChecksumError`. -/
theorem C12_burst_in_set_wrapped (gz : Gz) (depth : Nat) (before : List SetEntry) (off : Int)
    (msg e : List UInt8) (k : Nat) (tail : List UInt8)
    (hwf : ∀ s ∈ before, s.WellFormed gz) (ho : int64 off = true)
    (hlen : msg.length < 2147483648)
    (hcrc : crcOk msg = true) (hb : isBurst msg.length e k = true) :
    let bad := xorBytes msg e
    let data := encodeEntries before ++ (toBESigned 8 off ++ toBESigned 4 bad.length ++ bad) ++ tail
    (decodeSet gz (depth + 1) data).msgs = before.flatMap SetEntry.yields ∧
    (decodeSet gz (depth + 1) data).err = some Err.checksum :=
  decodeSet_corrupt_entries gz depth before off msg e k tail hwf ho hlen hcrc hb

/-- The model's outcome satisfies the monitor that is evaluated on the real decoder's outcome. -/
theorem C12_burst_monitor (gz : Gz) (depth : Nat) (before : List (Int × Msg)) (off : Int)
    (msg e : List UInt8) (k : Nat) (tail : List UInt8)
    (hpl : ∀ om ∈ before, plainEntry om = true) (ho : int64 off = true)
    (hlen : msg.length < 2147483648) :
    let bad := xorBytes msg e
    let data := encodeSet before ++ (toBESigned 8 off ++ toBESigned 4 bad.length ++ bad) ++ tail
    burstOk msg e k before (decodeSet gz depth data).msgs (decodeSet gz depth data).err = true := by
  intro bad data
  unfold burstOk
  by_cases h : (crcOk msg && isBurst msg.length e k) = true
  · simp only [Bool.and_eq_true] at h
    obtain ⟨h1, h2⟩ := decodeSet_corrupt gz depth before off msg e k tail hpl ho hlen h.1 h.2
    simp only [bad, data] at h1 h2 ⊢
    rw [h1, h2]; simp [h.1, h.2]
  · simp only [Bool.not_eq_true] at h
    simp [h]

/-- A burst placed anywhere in the message — here straddling the stored CRC field and the first
    checksummed bytes — is NOT always detected: this 27-byte v1 message and this error pattern (set
    bits within bits 20..51) pass the CRC check and the altered attributes/timestamp are yielded. -/
theorem C12_burst_any_position_counterexample : ¬ Open.C12_burst_any_position := by
  intro h
  let msg : List UInt8 := [0x49, 0x95, 0xe6, 0x5e, 0x01, 0x00, 0, 0, 0, 0, 0, 0, 0, 0,
    0xff, 0xff, 0xff, 0xff, 0, 0, 0, 5, 0, 0, 0, 0, 0]
  let e : List UInt8 := [0x00, 0x00, 0x70, 0x6f, 0x00, 0x1c, 0x0f, 0, 0, 0, 0, 0, 0, 0,
    0, 0, 0, 0, 0, 0, 0, 0, 0, 0, 0, 0, 0]
  obtain ⟨c, hc⟩ := h (fun _ => ⟨[], none, 0, 0⟩) (fun _ => .error "") 0 msg e 20
    (by decide +kernel) (by decide) (by decide) (by decide +kernel)
  have : (match decodeMessage (fun _ => ⟨[], none, 0, 0⟩) (fun _ => .error "") (some (xorBytes msg e)) 0 with
      | .out [] (some .checksum) _ _ => true
      | _ => false) = false := by decide +kernel
  rw [hc] at this
  cases this

/-- **The part of `C12_burst_any_position` that holds — stated exactly.**  A non-zero burst of span
    ≤ 32 bits (the FULL 32, any window position `k` counted over the whole message, any message
    length) is detected whenever it does not straddle the boundary between the stored CRC word and
    the checksummed bytes: it leaves bytes 0..3 alone (then it is a burst of the checksummed region,
    `C12_burst`) or it leaves everything after them alone (`C12_crc_field_error`).  The excluded
    situation — the window covers the last `32 - t` bits of the stored word and the first `t` bits of
    the magic byte.. with set bits on both sides — is the one of the counterexample above. -/
theorem C12_burst_any_position_partial (inner : List UInt8 → SetOut) (gz : Gz) (off : Int)
    (msg e : List UInt8) (k : Nat)
    (hcrc : crcOk msg = true) (hel : e.length = msg.length) (hnz : nonzero e = true)
    (hw : burstWithin e k 32 = true)
    (hns : ((e.take 4).all (fun b => b == 0) || (e.drop 4).all (fun b => b == 0)) = true) :
    ∃ c, decodeMessage inner gz (some (xorBytes msg e)) off = .out [] (some .checksum) c 0 :=
  ⟨_, decodeMessage_burst_nonstraddling inner gz off msg e k hcrc hel hnz hw hns⟩

/-- non-vacuity: a full 32-bit burst (bits 83..114: 0x08 in byte 10 .. 0x04 in byte 14) in the
    checksummed region of the 27-byte message of the counterexample satisfies every hypothesis,
    and so does a 32-bit alteration of the stored word alone. -/
example :
    let msg : List UInt8 := [0x49, 0x95, 0xe6, 0x5e, 0x01, 0x00, 0, 0, 0, 0, 0, 0, 0, 0,
      0xff, 0xff, 0xff, 0xff, 0, 0, 0, 5, 0, 0, 0, 0, 0]
    let e : List UInt8 := [0, 0, 0, 0, 0, 0, 0, 0, 0, 0, 0x08, 0x5a, 0xa5, 0x3c, 0x04,
      0, 0, 0, 0, 0, 0, 0, 0, 0, 0, 0, 0]
    let e' : List UInt8 := [0x01, 0x22, 0x33, 0x80, 0, 0, 0, 0, 0, 0, 0, 0, 0, 0, 0,
      0, 0, 0, 0, 0, 0, 0, 0, 0, 0, 0, 0]
    crcOk msg = true ∧ e.length = msg.length ∧ nonzero e = true ∧ burstWithin e 83 32 = true ∧
    burstWithin e 84 31 = false ∧
    ((e.take 4).all (fun b => b == 0) || (e.drop 4).all (fun b => b == 0)) = true ∧
    e'.length = msg.length ∧ nonzero e' = true ∧ burstWithin e' 0 32 = true ∧
    ((e'.take 4).all (fun b => b == 0) || (e'.drop 4).all (fun b => b == 0)) = true := by
  decide +kernel

/-- **The bit order matters.**  With bits numbered MOST significant bit of each byte first, a burst of
    span ≤ 32 that is not byte-aligned is NOT always detected: the error pattern `05 8f f4 6a 70` on
    the five value bytes of this 27-byte v1 message has its set bits within 31 consecutive bits in
    that numbering (bits 181..211 of the message; 39 apart in CRC bit order, so outside the class of
    `C12_burst`: no window of 32 bits in CRC order holds them), leaves the CRC-32 of the checksummed
    region unchanged, and `_decode_message` yields the altered value for every nested-set decoder,
    gunzip function and offset.  (Replayed on the real `KafkaCodec._decode_message`: same outcome.) -/
theorem C12_burst_msb_first_counterexample :
    let m : Msg := { magic := 1, attrs := 0, key := none, value := some [0, 0, 0, 0, 0], ts := some 0 }
    let m' : Msg := { magic := 1, attrs := 0, key := none, value := some [0x05, 0x8f, 0xf4, 0x6a, 0x70], ts := some 0 }
    let e : List UInt8 := [0, 0, 0, 0, 0, 0, 0, 0, 0, 0, 0, 0, 0, 0, 0, 0, 0, 0, 0, 0, 0, 0,
      0x05, 0x8f, 0xf4, 0x6a, 0x70]
    crcOk (encodeMessage m) = true ∧ e.length = (encodeMessage m).length ∧
    (e.take 4).all (fun b => b == 0) = true ∧ nonzero e = true ∧
    burstWithinMsb e 181 31 = true ∧
    (∀ k, burstWithin (e.drop 4) k 32 = false) ∧
    crc32 ((xorBytes (encodeMessage m) e).drop 4) = crc32 ((encodeMessage m).drop 4) ∧
    ∀ (inner : List UInt8 → SetOut) (gz : Gz) (off : Int),
      ∃ c, decodeMessage inner gz (some (xorBytes (encodeMessage m) e)) off = .out [(off, m')] none c 0 :=
  msb_first_witness

/-- **Four consecutive bytes, CRC level — no bit order involved.**  Two byte strings that differ only
    inside one window of at most four consecutive bytes have different CRC-32s: every prefix, every
    suffix, every length. -/
theorem C12_window_crc (pre w w' post : List UInt8) (hl : w.length = w'.length) (h4 : w.length ≤ 4)
    (hne : w ≠ w') : crc32 (pre ++ w ++ post) ≠ crc32 (pre ++ w' ++ post) :=
  crc32_window_bytes pre w w' post hl h4 hne

/-- **Four consecutive bytes, message level.**  `msg` carries a matching CRC; `msg'` has the same
    length, is a different byte string, and agrees with `msg` outside the byte window `[i, i+n)`,
    `n ≤ 4` — ANY alteration of those bytes, any message length, any window position in the
    checksummed region (`4 ≤ i`: magic, attributes, timestamp, key, value and their length fields) or
    in the stored CRC word (`i + n ≤ 4`).  `_decode_message` rejects `msg'` with `ChecksumError` and
    yields nothing.  The only windows excluded are those containing both byte 3 and byte 4. -/
theorem C12_window_bytes (inner : List UInt8 → SetOut) (gz : Gz) (off : Int) (msg msg' : List UInt8)
    (i n : Nat) (hcrc : crcOk msg = true) (hl : msg'.length = msg.length) (hne : msg' ≠ msg) (hn : n ≤ 4)
    (hpre : msg'.take i = msg.take i) (hpost : msg'.drop (i + n) = msg.drop (i + n))
    (hns : 4 ≤ i ∨ i + n ≤ 4) :
    decodeMessage inner gz (some msg') off = .out [] (some .checksum) (1 + (msg.length - 4)) 0 :=
  decodeMessage_window_bytes inner gz off msg msg' i n hcrc hl hne hn hpre hpost hns

/-- non-vacuity: the 27-byte message of the examples below with its key-length field (bytes 14..17,
    `ff ff ff ff` = null key) overwritten by `00 00 00 01`, and with its stored CRC overwritten -/
example :
    let msg : List UInt8 := [0x49, 0x95, 0xe6, 0x5e, 0x01, 0x00, 0, 0, 0, 0, 0, 0, 0, 0,
      0xff, 0xff, 0xff, 0xff, 0, 0, 0, 5, 0, 0, 0, 0, 0]
    let msg' : List UInt8 := [0x49, 0x95, 0xe6, 0x5e, 0x01, 0x00, 0, 0, 0, 0, 0, 0, 0, 0,
      0, 0, 0, 1, 0, 0, 0, 5, 0, 0, 0, 0, 0]
    let msg'' : List UInt8 := [0, 0, 0, 0, 0x01, 0x00, 0, 0, 0, 0, 0, 0, 0, 0,
      0xff, 0xff, 0xff, 0xff, 0, 0, 0, 5, 0, 0, 0, 0, 0]
    crcOk msg = true ∧ msg'.length = msg.length ∧ msg' ≠ msg ∧
    msg'.take 14 = msg.take 14 ∧ msg'.drop (14 + 4) = msg.drop (14 + 4) ∧
    msg''.length = msg.length ∧ msg'' ≠ msg ∧ msg''.take 0 = msg.take 0 ∧
    msg''.drop (0 + 4) = msg.drop (0 + 4) := by
  decide +kernel

/-- **Every message-level detection result, inside a message set.**  Entries `before` the altered
    message may be plain messages or gzip wrappers of either format (`SetEntry.WellFormed`); the
    altered message is `msg ⊕ e` for a non-zero burst `e` of span ≤ 32 bits ANYWHERE in the message
    that does not straddle the CRC-word/data boundary (the hypotheses of
    `C12_burst_any_position_partial`: bursts of the checksummed region AND alterations of the stored
    CRC word).  Iteration yields exactly what `before` contains, then raises `ChecksumError`,
    whatever follows. -/
theorem C12_burst_nonstraddling_in_set (gz : Gz) (depth : Nat) (before : List SetEntry) (off : Int)
    (msg e : List UInt8) (k : Nat) (tail : List UInt8)
    (hwf : ∀ s ∈ before, s.WellFormed gz) (ho : int64 off = true) (hlen : msg.length < 2147483648)
    (hcrc : crcOk msg = true) (hel : e.length = msg.length) (hnz : nonzero e = true)
    (hw : burstWithin e k 32 = true)
    (hns : ((e.take 4).all (fun b => b == 0) || (e.drop 4).all (fun b => b == 0)) = true) :
    let bad := xorBytes msg e
    let data := encodeEntries before ++ (toBESigned 8 off ++ toBESigned 4 bad.length ++ bad) ++ tail
    (decodeSet gz (depth + 1) data).msgs = before.flatMap SetEntry.yields ∧
    (decodeSet gz (depth + 1) data).err = some Err.checksum :=
  decodeSet_rejected_entries gz depth before off (xorBytes msg e) _ tail hwf ho
    (by rw [xorBytes_length _ _ hel]; exact hlen)
    (fun inner => decodeMessage_burst_nonstraddling inner gz off msg e k hcrc hel hnz hw hns)

/-- The same for a message that differs from the original inside a window of at most four
    consecutive bytes (hypotheses of `C12_window_bytes`). -/
theorem C12_window_in_set (gz : Gz) (depth : Nat) (before : List SetEntry) (off : Int)
    (msg msg' : List UInt8) (i n : Nat) (tail : List UInt8)
    (hwf : ∀ s ∈ before, s.WellFormed gz) (ho : int64 off = true) (hlen : msg.length < 2147483648)
    (hcrc : crcOk msg = true) (hl : msg'.length = msg.length) (hne : msg' ≠ msg) (hn : n ≤ 4)
    (hpre : msg'.take i = msg.take i) (hpost : msg'.drop (i + n) = msg.drop (i + n))
    (hns : 4 ≤ i ∨ i + n ≤ 4) :
    let data := encodeEntries before ++ (toBESigned 8 off ++ toBESigned 4 msg'.length ++ msg') ++ tail
    (decodeSet gz (depth + 1) data).msgs = before.flatMap SetEntry.yields ∧
    (decodeSet gz (depth + 1) data).err = some Err.checksum :=
  decodeSet_rejected_entries gz depth before off msg' _ tail hwf ho (by rw [hl]; exact hlen)
    (fun inner => decodeMessage_window_bytes inner gz off msg msg' i n hcrc hl hne hn hpre hpost hns)

/-! ## (b) truncation -/

/-- **Truncation.**  Iterating the first `c` bytes of an encoded set of plain messages yields
    exactly the messages whose entries are complete, then ends normally; when `0 < c` and not even
    one entry is complete it yields nothing and raises `ConsumerFetchSizeTooSmall`; `c = 0` gives
    `[]`. -/
theorem C12_truncate (gz : Gz) (depth : Nat) (ms : List (Int × Msg)) (c : Nat)
    (hpl : ∀ om ∈ ms, plainEntry om = true) (hc : c ≤ (encodeSet ms).length) :
    (decodeSet gz depth ((encodeSet ms).take c)).msgs
        = ms.take (completeCount (ms.map entryLen) c) ∧
    (decodeSet gz depth ((encodeSet ms).take c)).err
        = (if 0 < completeCount (ms.map entryLen) c ∨ c = 0 then none
           else some Err.fetchSizeTooSmall) :=
  decodeSet_truncate gz depth ms c hpl hc

/-- **Truncation, sets with gzip wrappers.**  Entries are plain messages or gzip wrappers of either
    message format whose payload the decompressor turns into the encoding of a set of plain
    messages (the `gunzip ∘ gzip` hypothesis, per payload: `SetEntry.WellFormed`).  Iterating the
    first `c` bytes yields exactly what the complete entries contain — inner messages with their
    stored offsets under a format-0 wrapper, re-based on the wrapper's offset under a format-1
    wrapper — and ends normally when the cut is on an entry boundary or something was yielded,
    with `ConsumerFetchSizeTooSmall` otherwise.  (With plain entries only this is `C12_truncate`;
    an empty wrapper is a complete entry that yields nothing, hence the wording.) -/
theorem C12_truncate_wrapped (gz : Gz) (depth : Nat) (es : List SetEntry) (c : Nat)
    (hwf : ∀ e ∈ es, e.WellFormed gz) (hc : c ≤ (encodeEntries es).length) :
    let n := completeCount (es.map SetEntry.len) c
    let ys := (es.take n).flatMap SetEntry.yields
    (decodeSet gz (depth + 1) ((encodeEntries es).take c)).msgs = ys ∧
    (decodeSet gz (depth + 1) ((encodeEntries es).take c)).err
      = (if !ys.isEmpty || decide (c = ((es.take n).map SetEntry.len).sum) then none
         else some Err.fetchSizeTooSmall) :=
  decodeSet_truncate_entries gz depth es c hwf hc

/-- … and satisfies the monitor `truncOkG` evaluated on the real decoder for sets with wrappers. -/
theorem C12_truncate_wrapped_monitor (gz : Gz) (depth : Nat) (es : List SetEntry) (c : Nat)
    (hwf : ∀ e ∈ es, e.WellFormed gz) (hc : c ≤ (encodeEntries es).length) :
    truncOkG (es.map SetEntry.len) (es.map SetEntry.yields) c
      (decodeSet gz (depth + 1) ((encodeEntries es).take c)).msgs
      (decodeSet gz (depth + 1) ((encodeEntries es).take c)).err = true := by
  obtain ⟨h1, h2⟩ := decodeSet_truncate_entries gz depth es c hwf hc
  unfold truncOkG
  have hflat : ∀ n, ((es.map SetEntry.yields).take n).flatten = (es.take n).flatMap SetEntry.yields := by
    intro n; simp [List.flatMap_def, List.map_take]
  have hlens : ∀ n, (es.map SetEntry.len).take n = (es.take n).map SetEntry.len := by
    intro n; simp [List.map_take]
  simp only [hflat, hlens]
  rw [h1, h2]
  generalize (es.take (completeCount (es.map SetEntry.len) c)).flatMap SetEntry.yields = ys
  generalize ((es.take (completeCount (es.map SetEntry.len) c)).map SetEntry.len).sum = t
  cases ys <;> by_cases hct : c = t <;> simp [hct]

/-- The model's outcome satisfies the truncation monitor evaluated on the real decoder. -/
theorem C12_truncate_monitor (gz : Gz) (depth : Nat) (ms : List (Int × Msg)) (c : Nat)
    (hpl : ∀ om ∈ ms, plainEntry om = true) (hc : c ≤ (encodeSet ms).length) :
    truncOk (ms.map entryLen) ms c (decodeSet gz depth ((encodeSet ms).take c)).msgs
      (decodeSet gz depth ((encodeSet ms).take c)).err = true :=
  decodeSet_truncOk gz depth ms c hpl hc

/-- An untruncated set of plain messages decodes to exactly those messages, ending normally. -/
theorem C12_msgset_roundtrip (gz : Gz) (depth : Nat) (ms : List (Int × Msg))
    (hpl : ∀ om ∈ ms, plainEntry om = true) :
    (decodeSet gz depth (encodeSet ms)).msgs = ms ∧ (decodeSet gz depth (encodeSet ms)).err = none :=
  decodeSet_roundtrip gz depth ms hpl

/-- A plain message decodes to itself (what "the complete messages" are). -/
theorem C12_message_roundtrip (inner : List UInt8 → SetOut) (gz : Gz) (off : Int) (m : Msg)
    (hp : plainMsg m = true) :
    ∃ k, decodeMessage inner gz (some (encodeMessage m)) off = .out [(off, m)] none k 0 :=
  decodeMessage_roundtrip inner gz off m hp

/-- After a too-small answer the consumer enlarges the buffer strictly, never beyond the maximum,
    gives up exactly when it is already at the maximum, and repeated too-small answers reach every
    size the maximum allows.  (That the fetch offset is untouched is C14's `never_skips`: the growth
    is a function of `(buffer_size, max_buffer_size)` only.) -/
theorem C12_grow (b : Nat) (max : Option Nat) (hb : 1 ≤ b) :
    (grow b max = none ↔ ∃ m, max = some m ∧ m ≤ b) ∧
    (∀ b', grow b max = some b' → b < b' ∧ ∀ m, max = some m → b' ≤ m) ∧
    (∀ m size, max = some m → b ≤ m → size ≤ m →
      ∃ steps b', growN (some m) steps b = some b' ∧ size ≤ b' ∧ b' ≤ m) := by
  refine ⟨grow_none_iff b max, ?_, ?_⟩
  · intro b' h
    refine ⟨grow_gt b max b' hb h, ?_⟩
    intro m hm; subst hm; exact grow_le_max b m b' h
  · intro m size _ hbm hs
    exact growN_reaches m size hs (size - b) b rfl hb hbm

/-- The growth function of this package is the consumer model's `Afkak.Consumer.grow` (the one the
    C14 theorems are about): both are built from the literals of the same handler. -/
theorem C12_grow_is_consumer_grow (b : Nat) (max : Option Nat) :
    grow b max = Afkak.Consumer.grow b max :=
  grow_eq_consumer b max

/-- **The consumer MODEL's reaction to a too-small answer satisfies `refetchOk`** — the monitor the
    harness evaluates on the real `Consumer`: a running consumer with no block in progress that
    receives a reply with no complete message and the fetch-size-too-small ending keeps its fetch
    offset and sets its buffer to `grow buffer max` (at the maximum: keeps both and fails `start`).
    The other half of `refetchOk` (complete messages were delivered: the next fetch starts after
    the last of them with the same buffer) is `C12_refetch_after_delivery_model` / `_step` below;
    the statement `Open.C12_refetch_after_delivery` itself quantifies over arbitrary `inner` and is
    false as written (`C12_refetch_after_delivery_counterexample`), so it stays open. -/
theorem C12_refetch_model (cfg : Afkak.Consumer.Cfg) (inner : Afkak.Consumer.Ops) (k : Nat)
    (s : Afkak.Consumer.St) (hr : s.startD = .pending) (hb : s.msgBlock = false)
    (offs : List Int) (c : Nat) (hc : 0 < c) :
    refetchOk offs 0 s.fetchOffset
      (Afkak.Consumer.handleFetchResponse cfg inner k { msgs := [], tail := .small } s).fetchOffset
      s.bufferSize cfg.bufMax c
      (match Afkak.Consumer.grow s.bufferSize cfg.bufMax with
        | some _ => some (Afkak.Consumer.handleFetchResponse cfg inner k { msgs := [], tail := .small } s).bufferSize
        | none => none) = true :=
  consumer_refetchOk cfg inner k s hr hb offs c hc

/-- **The other half of `refetchOk`, on the consumer model as it runs** (`stepCore` hands
    `handleFetchResponse` the re-entrant API `opsN cfg cfg.depth`): a running consumer with no block
    in progress receives a reply that ends normally and holds complete messages with ascending
    offsets from its fetch position on.  Whatever the processor does with them — including
    re-entrant `stop()`, `commit()`, `shutdown()` at any nesting depth `n` — afterwards the fetch
    position is right after the last of them and the buffer size is unchanged: the cut message is
    fetched again with the same buffer, nothing is skipped.  This is the statement of
    `Open.C12_refetch_after_delivery` with `inner := opsN cfg n` (and two hypotheses fewer). -/
theorem C12_refetch_after_delivery_model (cfg : Afkak.Consumer.Cfg) (n k : Nat) (s : Afkak.Consumer.St)
    (m : Afkak.Consumer.Msg) (ms : List Afkak.Consumer.Msg)
    (hr : s.startD = .pending) (hb : s.msgBlock = false)
    (hp : ((m :: ms).map (·.off)).Pairwise (· < ·)) (hf : s.fetchOffset ≤ m.off) :
    let s' := Afkak.Consumer.handleFetchResponse cfg (Afkak.Consumer.opsN cfg n) k { msgs := m :: ms, tail := .done } s
    refetchOk ((m :: ms).map (·.off)) (ms.length + 1) s.fetchOffset s'.fetchOffset s.bufferSize cfg.bufMax 1
      (some s'.bufferSize) = true :=
  consumer_refetch_after_delivery_opsN cfg n k s m ms hr hb hp hf

/-- The same for EVERY re-entrant API whose four entry points leave `fetch_offset` and `buffer_size`
    alone while no request is outstanding (`OpsK`; `opsN_k` below shows the model's own API at every
    depth is one).  This is the part of `Open.C12_refetch_after_delivery` that holds. -/
theorem C12_refetch_after_delivery_partial (cfg : Afkak.Consumer.Cfg) (inner : Afkak.Consumer.Ops)
    (hin : OpsK inner) (k : Nat) (s : Afkak.Consumer.St)
    (m : Afkak.Consumer.Msg) (ms : List Afkak.Consumer.Msg)
    (hr : s.startD = .pending) (hb : s.msgBlock = false)
    (hp : ((m :: ms).map (·.off)).Pairwise (· < ·)) (hf : s.fetchOffset ≤ m.off) :
    let s' := Afkak.Consumer.handleFetchResponse cfg inner k { msgs := m :: ms, tail := .done } s
    refetchOk ((m :: ms).map (·.off)) (ms.length + 1) s.fetchOffset s'.fetchOffset s.bufferSize cfg.bufMax 1
      (some s'.bufferSize) = true :=
  consumer_refetch_after_delivery cfg inner hin k s m ms hr hb hp hf

/-- non-vacuity of the hypothesis `OpsK`: the API the model runs with satisfies it at every depth -/
example (cfg : Afkak.Consumer.Cfg) (n : Nat) : OpsK (Afkak.Consumer.opsN cfg n) := opsN_k cfg n

/-- **The same on the model's transition function — no `inner` to choose.**  `step` (the function `run`
    folds over the event list) hands `handleFetchResponse` the model's own API `opsN cfg cfg.depth`.
    For EVERY state `s` (so every state `run cfg script evs` reaches) that is not crashed, has this
    fetch request outstanding, is running and has no block in progress: the event "fetch reply `k`
    with complete messages `m :: ms` (ascending from the fetch position), normal end" leaves the fetch
    position right after the last message and the buffer size unchanged — whatever the processor
    script in `s` does (re-entrant `stop`/`commit`/`shutdown`).  This is
    `Open.C12_refetch_after_delivery` with the quantifier over `inner` replaced by the one API the model
    can run; the hypotheses `stopping = false`, `shuttingDown = false` are not needed. -/
theorem C12_refetch_after_delivery_step (cfg : Afkak.Consumer.Cfg) (k : Nat) (s : Afkak.Consumer.St)
    (m : Afkak.Consumer.Msg) (ms : List Afkak.Consumer.Msg)
    (hc : s.crashed = false)
    (hq : (s.requestD == .pending k .fetch false || s.requestD == .pending k .fetch true) = true)
    (hr : s.startD = .pending) (hb : s.msgBlock = false)
    (hp : ((m :: ms).map (·.off)).Pairwise (· < ·)) (hf : s.fetchOffset ≤ m.off) :
    let s' := Afkak.Consumer.step cfg s (.fetchOk k { msgs := m :: ms, tail := .done })
    refetchOk ((m :: ms).map (·.off)) (ms.length + 1) s.fetchOffset s'.fetchOffset s.bufferSize cfg.bufMax 1
      (some s'.bufferSize) = true :=
  consumer_refetch_after_delivery_step cfg k s m ms hc hq hr hb hp hf

/-- non-vacuity: the state reached by `start(5)` enables the event and meets every hypothesis, with a
    processor script that re-enters `stop()` -/
example :
    let cfg : Afkak.Consumer.Cfg := { group := false, autoN := 0, autoS := 0, bufInit := 10, bufMax := none, retryInit := 1, retryMax := 1, maxAttempts := 0, reset := none }
    let s := Afkak.Consumer.run cfg [{ acts := [.stop], res := .ok }] [.start 5]
    s.crashed = false ∧
    (s.requestD == .pending 0 .fetch false || s.requestD == .pending 0 .fetch true) = true ∧
    s.startD = .pending ∧ s.msgBlock = false ∧ s.fetchOffset ≤ 5 := by
  decide +kernel

/-- The too-small half (`C12_refetch_model`) on `step` as well: same states, reply with no complete
    message and the fetch-size-too-small ending — same fetch position, buffer `grow buffer max`. -/
theorem C12_refetch_model_step (cfg : Afkak.Consumer.Cfg) (k : Nat) (s : Afkak.Consumer.St)
    (hc : s.crashed = false)
    (hq : (s.requestD == .pending k .fetch false || s.requestD == .pending k .fetch true) = true)
    (hr : s.startD = .pending) (hb : s.msgBlock = false) (offs : List Int) (c : Nat) (hc0 : 0 < c) :
    refetchOk offs 0 s.fetchOffset
      (Afkak.Consumer.step cfg s (.fetchOk k { msgs := [], tail := .small })).fetchOffset
      s.bufferSize cfg.bufMax c
      (match Afkak.Consumer.grow s.bufferSize cfg.bufMax with
        | some _ => some (Afkak.Consumer.step cfg s (.fetchOk k { msgs := [], tail := .small })).bufferSize
        | none => none) = true :=
  consumer_refetchOk_step cfg k s hc hq hr hb offs c hc0

/-- **The at-maximum case, stated explicitly** (in `C12_refetch_model`, `C12_refetch_model_step` and
    `C12_truncate_then_refetch` the argument `newB = none` makes `refetchOk` check the fetch position
    only).  A running consumer with no block in progress whose buffer cannot grow (`grow = none`: it is
    at `max_buffer_size`) receives a reply with no complete message and the fetch-size-too-small
    ending.  On `step`: the `start()` Deferred is errbacked with `ConsumerFetchSizeTooSmall`
    (`startD` becomes `called`, the observation `startFired (err tooSmall)` is in the trace), buffer
    size and fetch position are unchanged, the request is cleared, and NO refetch is scheduled (the
    retry call is what it was and no retry timer is set by this step).  The same fields for
    `handleFetchResponse` with an arbitrary re-entrant API (second part). -/
theorem C12_refetch_at_maximum (cfg : Afkak.Consumer.Cfg) (k : Nat) (s : Afkak.Consumer.St)
    (hr : s.startD = .pending) (hb : s.msgBlock = false)
    (hg : Afkak.Consumer.grow s.bufferSize cfg.bufMax = none) :
    (s.crashed = false →
      (s.requestD == .pending k .fetch false || s.requestD == .pending k .fetch true) = true →
      let s' := Afkak.Consumer.step cfg s (.fetchOk k { msgs := [], tail := .small })
      s'.startD = .called ∧ s'.bufferSize = s.bufferSize ∧ s'.fetchOffset = s.fetchOffset ∧
      s'.retryCall = s.retryCall ∧ s'.requestD = .none ∧
      .ob (.startFired (.err .tooSmall)) ∈ s'.out ∧
      (∀ d, .ob (.setTimer .retry d) ∈ s'.out → .ob (.setTimer .retry d) ∈ s.out)) ∧
    (∀ inner : Afkak.Consumer.Ops,
      let s' := Afkak.Consumer.handleFetchResponse cfg inner k { msgs := [], tail := .small } s
      s'.startD = .called ∧ s'.bufferSize = s.bufferSize ∧ s'.fetchOffset = s.fetchOffset ∧
      s'.retryCall = s.retryCall ∧ s'.requestD = .none ∧
      s'.out = .ob (.startFired (.err .tooSmall)) :: s.out) :=
  ⟨fun hc hq => consumer_refetch_at_maximum_step cfg k s hc hq hr hb hg,
   fun inner => consumer_refetch_at_maximum cfg inner k s hr hb hg⟩

/-- non-vacuity of `grow = none`: a consumer whose buffer is at its maximum -/
example : Afkak.Consumer.grow 10 (some 10) = none := by decide

/-- **A reply that arrives while the previous block is still being processed** is parked behind
    `_msg_block_d`: at that moment nothing is delivered and fetch position and buffer are untouched
    (first part).  When the block finishes (`finishFull`, the `_msg_block_d` callback) the parked
    reply is handled: for a reply that ended normally with complete messages ascending from the fetch
    position, the position ends right after the last of them with the same buffer — `refetchOk` —
    whatever the processor does, for the model's API at every depth `n` (second part). -/
theorem C12_refetch_after_delivery_parked (cfg : Afkak.Consumer.Cfg) (n k : Nat) (s : Afkak.Consumer.St)
    (m : Afkak.Consumer.Msg) (ms : List Afkak.Consumer.Msg)
    (hr : (s.startD == .none) = false) (hb : s.msgBlock = true)
    (hp : ((m :: ms).map (·.off)).Pairwise (· < ·)) :
    let r : Afkak.Consumer.Reply := { msgs := m :: ms, tail := .done }
    let s1 := Afkak.Consumer.handleFetchResponse cfg (Afkak.Consumer.opsN cfg n) k r s
    (s1.fetchOffset = s.fetchOffset ∧ s1.bufferSize = s.bufferSize ∧ s1.parked = some r ∧
      s1.msgBlock = true ∧ s1.startD = s.startD) ∧
    (∀ t : Afkak.Consumer.St, t.msgBlock = true → t.parked = some r → (t.startD == .none) = false →
      t.fetchOffset ≤ m.off →
      let t' := Afkak.Consumer.finishFull cfg (Afkak.Consumer.opsN cfg n) t
      refetchOk ((m :: ms).map (·.off)) (ms.length + 1) t.fetchOffset t'.fetchOffset t.bufferSize cfg.bufMax 1
        (some t'.bufferSize) = true) := by
  intro r s1
  refine ⟨?_, ?_⟩
  · have hs1 : s1 = { s with retryDelay := cfg.retryInit, attempts := 1, parked := some r, requestD := .parked k } := by
      show Afkak.Consumer.handleFetchResponse cfg _ k r s = _
      unfold Afkak.Consumer.handleFetchResponse
      simp [hr, hb]
    rw [hs1]
    exact ⟨rfl, rfl, rfl, hb, rfl⟩
  · intro t h1 h2 h3 h4
    exact consumer_refetch_after_delivery_parked cfg _ (opsN_k cfg n) t m ms h1 h2 h3 hp h4

/-- **C12's second sentence, end to end across the decoder model and the consumer model.**  The first
    `c` bytes of an encoded set of plain messages with ascending offsets (from the consumer's fetch
    position on) are iterated by the decoder model; its outcome — the messages yielded and whether it
    ended normally or with `ConsumerFetchSizeTooSmall` (`replyOf`) — is the fetch reply handed to the
    consumer model's transition function in any state that has the fetch outstanding, is running and
    has no block in progress.  Then BOTH monitors hold, with the same number `n` of complete messages
    computed from the entry lengths: the decoder yielded exactly the `n` complete messages
    (`truncOk`), and the consumer's next fetch starts right after the last of them with the same
    buffer — or, when `n = 0 < c`, at the same offset with the buffer enlarged as `grow` says, failing
    `start` only at the maximum (`refetchOk`): nothing is skipped, whatever the processor does. -/
theorem C12_truncate_then_refetch (gz : Gz) (depth : Nat) (pid : Int × Msg → Nat)
    (other : Err → Afkak.Consumer.ErrKind × Nat) (cfg : Afkak.Consumer.Cfg) (k : Nat)
    (s : Afkak.Consumer.St) (ms : List (Int × Msg)) (c : Nat)
    (hpl : ∀ om ∈ ms, plainEntry om = true) (hc : c ≤ (encodeSet ms).length)
    (hasc : (ms.map (·.1)).Pairwise (· < ·)) (hfo : ∀ om, ms.head? = some om → s.fetchOffset ≤ om.1)
    (hcr : s.crashed = false)
    (hq : (s.requestD == .pending k .fetch false || s.requestD == .pending k .fetch true) = true)
    (hr : s.startD = .pending) (hb : s.msgBlock = false) :
    let out := decodeSet gz depth ((encodeSet ms).take c)
    let s' := Afkak.Consumer.step cfg s (.fetchOk k (replyOf pid other out))
    let n := completeCount (ms.map entryLen) c
    truncOk (ms.map entryLen) ms c out.msgs out.err = true ∧
    refetchOk (ms.map (·.1)) n s.fetchOffset s'.fetchOffset s.bufferSize cfg.bufMax c
      (if n = 0 ∧ 0 < c ∧ Afkak.Consumer.grow s.bufferSize cfg.bufMax = none then none
       else some s'.bufferSize) = true :=
  truncate_then_refetch gz depth pid other cfg k s ms c hpl hc hasc hfo hcr hq hr hb

/-- non-vacuity: two plain messages at offsets 7 and 8 (ascending, from the position `start(7)` sets);
    the state after `start(7)` meets the state hypotheses (see the example after
    `C12_refetch_after_delivery_step` for `crashed`/`startD`/`msgBlock`) -/
example :
    let ms : List (Int × Msg) :=
      [(7, { magic := 0, attrs := 0, key := some [1, 2], value := some [3], ts := none }),
       (8, { magic := 1, attrs := 8, key := none, value := some [], ts := some 1700000000000 })]
    let cfg : Afkak.Consumer.Cfg := { group := false, autoN := 0, autoS := 0, bufInit := 10, bufMax := some 10, retryInit := 1, retryMax := 1, maxAttempts := 0, reset := none }
    let s := Afkak.Consumer.run cfg [] [.start 7]
    (∀ om ∈ ms, plainEntry om = true) ∧ (ms.map (·.1)).Pairwise (· < ·) ∧
    (∀ om, ms.head? = some om → s.fetchOffset ≤ om.1) ∧ s.crashed = false ∧
    (s.requestD == .pending 0 .fetch false || s.requestD == .pending 0 .fetch true) = true ∧
    s.startD = .pending ∧ s.msgBlock = false := by
  refine ⟨by decide +kernel, by decide, ?_, by decide +kernel, by decide +kernel, by decide +kernel, by decide +kernel⟩
  intro om h
  simp only [List.head?_cons, Option.some.injEq] at h
  subst h
  decide +kernel

/-- As stated — for an ARBITRARY `inner : Ops` — `Open.C12_refetch_after_delivery` is false: `Ops` is
    any four functions on states, e.g. a `stop` that rewinds the fetch position.  That is not afkak's
    API (nothing reachable from `stop()`/`commit()`/`shutdown()` assigns `_fetch_offset` or
    `buffer_size` while `_request_d` is clear: `opsN_k`), so this is a too-strong statement, not a
    defect: processor script `[stop]`, reply `[offset 0]`, position afterwards -7 instead of 1. -/
theorem C12_refetch_after_delivery_counterexample : ¬ Open.C12_refetch_after_delivery := by
  intro h
  have := h { group := false, autoN := 0, autoS := 0, bufInit := 10, bufMax := none, retryInit := 1,
              retryMax := 1, maxAttempts := 0, reset := none }
    { stop := fun s => { s with fetchOffset := -7 }, stopCore := fun s => s, commit := fun s => s,
      shutdown := fun s => s } 0
    { startD := .pending, retryDelay := 1, bufferSize := 10, script := [{ acts := [.stop], res := .ok }] }
    { off := 0, pid := 0 } [] rfl rfl rfl rfl (by simp) (by decide)
  revert this
  decide +kernel

/-- Without a maximum the buffer is multiplied by the source's factor for the current size
    (`c12GrowFactorSmall` up to `c12GrowThreshold`, `c12GrowFactor` above), which is at least 2. -/
theorem C12_grow_factors (b : Nat) :
    grow b none = some (b * growFactor b) ∧ 2 ≤ growFactor b :=
  ⟨grow_unbounded b, growFactor_ge_two b⟩

/-! ## (c) linear cost, for EVERY byte string -/

/-- Each primitive reader is one unit of cost and, on success, leaves the cursor inside the buffer
    and not before where it started (no backward moves: finding F15 is fixed). -/
theorem C12_linear_readers :
    Lin 0 1 readShortBytes ∧ Lin 0 1 readIntString ∧ Lin 0 0 readShortAscii ∧ Lin 0 0 readShortText ∧
    (∀ fmt, fmtSize fmt ≠ some 0 → Lin 0 1 (relativeUnpack fmt)) ∧
    (∀ ch n, Lin 1 0 (relativeUnpackN ch n)) :=
  ⟨lin_readShortBytes, lin_readIntString, lin_readShortAscii, lin_readShortText,
    lin_relativeUnpack, lin_relativeUnpackN⟩

theorem C12_linear_api_versions (bs : List UInt8) :
    (run decodeApiVersions bs).cost ≤ 2 * bs.length + 1 := lin_run lin_decodeApiVersions bs
theorem C12_linear_produce (v : Int) (bs : List UInt8) :
    (run (decodeProduce v) bs).cost ≤ 2 * bs.length + 1 := lin_run (lin_decodeProduce v) bs
theorem C12_linear_fetch (v : Int) (bs : List UInt8) :
    (run (decodeFetch v) bs).cost ≤ 2 * bs.length + 1 := lin_run (lin_decodeFetch v) bs
theorem C12_linear_offset (bs : List UInt8) :
    (run decodeOffset bs).cost ≤ 2 * bs.length + 1 := lin_run lin_decodeOffset bs
theorem C12_linear_metadata (bs : List UInt8) :
    (run decodeMetadata bs).cost ≤ 2 * bs.length + 1 := lin_run lin_decodeMetadata bs
theorem C12_linear_consumermetadata (bs : List UInt8) :
    (run decodeConsumerMetadata bs).cost ≤ 2 * bs.length + 1 := lin_run lin_decodeConsumerMetadata bs
theorem C12_linear_offset_commit (bs : List UInt8) :
    (run decodeOffsetCommit bs).cost ≤ 2 * bs.length + 1 := lin_run lin_decodeOffsetCommit bs
theorem C12_linear_offset_fetch (bs : List UInt8) :
    (run decodeOffsetFetch bs).cost ≤ 2 * bs.length + 1 := lin_run lin_decodeOffsetFetch bs
theorem C12_linear_join_group_protocol_metadata (bs : List UInt8) :
    (run decodeJoinGroupProtocolMetadata bs).cost ≤ 2 * bs.length + 1 :=
  lin_run lin_decodeJoinGroupProtocolMetadata bs
theorem C12_linear_join_group (bs : List UInt8) :
    (run decodeJoinGroup bs).cost ≤ 2 * bs.length + 1 := lin_run lin_decodeJoinGroup bs
theorem C12_linear_leave_group (bs : List UInt8) :
    (run decodeLeaveGroup bs).cost ≤ 2 * bs.length + 1 := lin_run lin_decodeLeaveGroup bs
theorem C12_linear_heartbeat (bs : List UInt8) :
    (run decodeHeartbeat bs).cost ≤ 2 * bs.length + 1 := lin_run lin_decodeHeartbeat bs
theorem C12_linear_sync_group (bs : List UInt8) :
    (run decodeSyncGroup bs).cost ≤ 2 * bs.length + 1 := lin_run lin_decodeSyncGroup bs
theorem C12_linear_sync_group_member_assignment (bs : List UInt8) :
    (run decodeSyncGroupMemberAssignment bs).cost ≤ 2 * bs.length + 1 :=
  lin_run lin_decodeSyncGroupMemberAssignment bs

/-- **Memory side.**  The same decoders run under the `bytes` measure — every primitive call is
    charged the number of bytes it slices out of the buffer (`data[cur:cur+n]` copies; the decoded
    values are made of exactly these slices) — allocate at most `|input|` bytes, for every byte
    string: no decoder copies more than it consumes, whatever its length and count fields claim. -/
theorem C12_alloc_decoders (v : Int) (bs : List UInt8) :
    (run (@decodeApiVersions bytesMeasure) bs).cost ≤ bs.length ∧
    (run (@decodeProduce bytesMeasure v) bs).cost ≤ bs.length ∧
    (run (@decodeFetch bytesMeasure v) bs).cost ≤ bs.length ∧
    (run (@decodeOffset bytesMeasure) bs).cost ≤ bs.length ∧
    (run (@decodeMetadata bytesMeasure) bs).cost ≤ bs.length ∧
    (run (@decodeConsumerMetadata bytesMeasure) bs).cost ≤ bs.length ∧
    (run (@decodeOffsetCommit bytesMeasure) bs).cost ≤ bs.length ∧
    (run (@decodeOffsetFetch bytesMeasure) bs).cost ≤ bs.length ∧
    (run (@decodeJoinGroupProtocolMetadata bytesMeasure) bs).cost ≤ bs.length ∧
    (run (@decodeJoinGroup bytesMeasure) bs).cost ≤ bs.length ∧
    (run (@decodeLeaveGroup bytesMeasure) bs).cost ≤ bs.length ∧
    (run (@decodeHeartbeat bytesMeasure) bs).cost ≤ bs.length ∧
    (run (@decodeSyncGroup bytesMeasure) bs).cost ≤ bs.length ∧
    (run (@decodeSyncGroupMemberAssignment bytesMeasure) bs).cost ≤ bs.length :=
  ⟨tight_run tight_decodeApiVersions bs, tight_run (tight_decodeProduce v) bs,
   tight_run (tight_decodeFetch v) bs, tight_run tight_decodeOffset bs,
   tight_run tight_decodeMetadata bs, tight_run tight_decodeConsumerMetadata bs,
   tight_run tight_decodeOffsetCommit bs, tight_run tight_decodeOffsetFetch bs,
   tight_run tight_decodeJoinGroupProtocolMetadata bs, tight_run tight_decodeJoinGroup bs,
   tight_run tight_decodeLeaveGroup bs, tight_run tight_decodeHeartbeat bs,
   tight_run tight_decodeSyncGroup bs, tight_run tight_decodeSyncGroupMemberAssignment bs⟩

/-- **Memory side, message sets**: iterating any byte string as a message set slices/copies at most
    3·(|data| + bytes obtained from gunzip) bytes (entry header and body, the `data[4:]` copy handed
    to `zlib.crc32`, the timestamp/key/value slices) — every gunzip function, every nesting depth. -/
theorem C12_alloc_msgset (gz : Gz) (depth : Nat) (data : List UInt8) :
    (@decodeSet bytesMeasure gz depth data).cost
      ≤ 3 * (data.length + (@decodeSet bytesMeasure gz depth data).gz) :=
  decodeSet_alloc gz depth data

/-- Every response decoder's allocation measure satisfies the monitor `allocOk`, and message-set
    iteration `setAllocOk`, as evaluated on the bytes the real decoder slices. -/
theorem C12_alloc_monitor (gz : Gz) (depth : Nat) (v : Int) (bs : List UInt8) :
    allocOk bs.length (run (@decodeApiVersions bytesMeasure) bs).cost = true ∧
    allocOk bs.length (run (@decodeProduce bytesMeasure v) bs).cost = true ∧
    allocOk bs.length (run (@decodeFetch bytesMeasure v) bs).cost = true ∧
    allocOk bs.length (run (@decodeOffset bytesMeasure) bs).cost = true ∧
    allocOk bs.length (run (@decodeMetadata bytesMeasure) bs).cost = true ∧
    allocOk bs.length (run (@decodeConsumerMetadata bytesMeasure) bs).cost = true ∧
    allocOk bs.length (run (@decodeOffsetCommit bytesMeasure) bs).cost = true ∧
    allocOk bs.length (run (@decodeOffsetFetch bytesMeasure) bs).cost = true ∧
    allocOk bs.length (run (@decodeJoinGroupProtocolMetadata bytesMeasure) bs).cost = true ∧
    allocOk bs.length (run (@decodeJoinGroup bytesMeasure) bs).cost = true ∧
    allocOk bs.length (run (@decodeLeaveGroup bytesMeasure) bs).cost = true ∧
    allocOk bs.length (run (@decodeHeartbeat bytesMeasure) bs).cost = true ∧
    allocOk bs.length (run (@decodeSyncGroup bytesMeasure) bs).cost = true ∧
    allocOk bs.length (run (@decodeSyncGroupMemberAssignment bytesMeasure) bs).cost = true ∧
    setAllocOk bs.length (@decodeSet bytesMeasure gz depth bs).gz
      (@decodeSet bytesMeasure gz depth bs).cost = true := by
  obtain ⟨h1, h2, h3, h4, h5, h6, h7, h8, h9, h10, h11, h12, h13, h14⟩ := C12_alloc_decoders v bs
  refine ⟨?_, ?_, ?_, ?_, ?_, ?_, ?_, ?_, ?_, ?_, ?_, ?_, ?_, ?_, ?_⟩ <;>
    first
      | (simp only [allocOk, decide_eq_true_eq]; assumption)
      | (simpa [setAllocOk] using decodeSet_alloc gz depth bs)

/-- Every response decoder's read count satisfies the monitor `readsOk` evaluated on the real
    decoder's step count (all fourteen). -/
theorem C12_linear_monitor (v : Int) (bs : List UInt8) :
    readsOk bs.length (run decodeApiVersions bs).cost = true ∧
    readsOk bs.length (run (decodeProduce v) bs).cost = true ∧
    readsOk bs.length (run (decodeFetch v) bs).cost = true ∧
    readsOk bs.length (run decodeOffset bs).cost = true ∧
    readsOk bs.length (run decodeMetadata bs).cost = true ∧
    readsOk bs.length (run decodeConsumerMetadata bs).cost = true ∧
    readsOk bs.length (run decodeOffsetCommit bs).cost = true ∧
    readsOk bs.length (run decodeOffsetFetch bs).cost = true ∧
    readsOk bs.length (run decodeJoinGroupProtocolMetadata bs).cost = true ∧
    readsOk bs.length (run decodeJoinGroup bs).cost = true ∧
    readsOk bs.length (run decodeLeaveGroup bs).cost = true ∧
    readsOk bs.length (run decodeHeartbeat bs).cost = true ∧
    readsOk bs.length (run decodeSyncGroup bs).cost = true ∧
    readsOk bs.length (run decodeSyncGroupMemberAssignment bs).cost = true := by
  refine ⟨?_, ?_, ?_, ?_, ?_, ?_, ?_, ?_, ?_, ?_, ?_, ?_, ?_, ?_⟩ <;>
    simp only [readsOk, decide_eq_true_eq]
  · exact C12_linear_api_versions bs
  · exact C12_linear_produce v bs
  · exact C12_linear_fetch v bs
  · exact C12_linear_offset bs
  · exact C12_linear_metadata bs
  · exact C12_linear_consumermetadata bs
  · exact C12_linear_offset_commit bs
  · exact C12_linear_offset_fetch bs
  · exact C12_linear_join_group_protocol_metadata bs
  · exact C12_linear_join_group bs
  · exact C12_linear_leave_group bs
  · exact C12_linear_heartbeat bs
  · exact C12_linear_sync_group bs
  · exact C12_linear_sync_group_member_assignment bs

/-- **Message sets**, every byte string, every gunzip function, every nesting depth: reader calls
    + bytes checksummed ≤ 2·(|data| + bytes obtained from gunzip) + 2. -/
theorem C12_linear_msgset (gz : Gz) (depth : Nat) (data : List UInt8) :
    (decodeSet gz depth data).cost ≤ 2 * (data.length + (decodeSet gz depth data).gz) + 2 :=
  (decodeSet_ok gz depth data).1

theorem C12_linear_msgset_monitor (gz : Gz) (depth : Nat) (data : List UInt8) :
    setCostOk data.length (decodeSet gz depth data).gz (decodeSet gz depth data).cost = true := by
  simpa [setCostOk] using C12_linear_msgset gz depth data

/-- **A whole fetch response**: `decode_fetch_response` AND the iteration of every message set it
    hands out — primitive reads + checksummed bytes ≤ 4·|input| + 2·(bytes obtained from gunzip) + 1
    for every byte string (≤ 2·|input| + 1 when the response decoder itself raises).  The message
    sets are disjoint slices of the input (`pay_decodeFetch`), so the per-set bounds add up. -/
theorem C12_linear_fetch_total (gz : Gz) (depth : Nat) (v : Int) (bs : List UInt8) :
    match fetchTotal gz depth v bs with
    | (cost, none) => cost ≤ 2 * bs.length + 1
    | (cost, some g) => cost ≤ 4 * bs.length + 2 * g + 1 :=
  fetchTotal_le gz depth v bs

theorem C12_linear_fetch_total_monitor (gz : Gz) (depth : Nat) (v : Int) (bs : List UInt8) :
    fetchTotalOk bs.length ((fetchTotal gz depth v bs).2.getD 0) (fetchTotal gz depth v bs).1 = true := by
  have := fetchTotal_le gz depth v bs
  unfold fetchTotalOk
  rcases h : fetchTotal gz depth v bs with ⟨cost, _ | g⟩ <;> rw [h] at this <;> simp at this ⊢ <;> omega

/-- The model's iteration fuel (|data| + 1) is never exhausted: termination of the `while` loop is
    not an artefact of the fuel. -/
theorem C12_fuel_suffices (gz : Gz) (depth : Nat) (data : List UInt8) :
    (decodeSet gz depth data).err ≠ some Err.modelFuel :=
  (decodeSet_ok gz depth data).2

/-! ## The model these theorems are about is the model C05's theorems are about

`Afkak.Wire.*` (package "wire") is a second hand-written model of the same Python functions, without
cost, with `Int` cursors and Python slices.  Erasing the cost from this package's decoders gives
exactly wire's — proved for the readers, `_decode_message`, `_decode_message_set_iter` and all
fourteen response decoders (and cross-checked at run time on every hostile input, `xdec`). -/

open Afkak.Agree in
/-- primitive readers -/
theorem C12_agree_readers (data : List UInt8) (c k : Nat) :
    (∀ fmt, Afkak.Wire.relativeUnpack ('>' :: fmt) data (c : Int) = eraseRes (relativeUnpack fmt data c k)) ∧
    Afkak.Wire.readIntString data (c : Int) = eraseRes (readIntString data c k) ∧
    Afkak.Wire.readShortBytes data (c : Int) = eraseRes (readShortBytes data c k) ∧
    Afkak.Wire.readShortAscii data (c : Int) = eraseRes (readShortAscii data c k) :=
  ⟨fun fmt => relativeUnpack_agree fmt data c k, readIntString_agree data c k,
    readShortBytes_agree data c k, readShortAscii_agree data c k⟩

open Afkak.Agree in
/-- `_decode_message_set_iter` (and `_decode_message` inside it): every byte string or `None`,
    every gunzip function, every nesting depth. -/
theorem C12_agree_msgset (gz : Gz) (depth : Nat) (d : Option (List UInt8)) :
    eraseSet (decodeSetOpt gz depth d)
      = Afkak.Wire.decodeMessageSetOpt (extOf gz) (depth + 1) d :=
  decodeSetOpt_agree gz depth d

open Afkak.Agree in
/-- `decode_fetch_response` with every message set iterated: same partitions, same messages, same
    final cursor — or the same exception. -/
theorem C12_agree_fetch (gz : Gz) (depth : Nat) (v : Int) (data : List UInt8) :
    match run (decodeFetch v) data with
    | .ok val c _ => ∃ parts, val = .list parts ∧
        Afkak.Wire.decodeFetchResponse (extOf gz) (depth + 1) data v
          = (parts.map (toFetchResp gz depth), .ok (c : Int))
    | .err e _ => (Afkak.Wire.decodeFetchResponse (extOf gz) (depth + 1) data v).2 = .error (errMap e) :=
  decodeFetch_agree gz depth v data

open Afkak.Agree in
/-- The generator decoders `decode_produce_response`, `decode_offset_response`,
    `decode_offset_commit_response`, `decode_offset_fetch_response`: the same items, the same final
    cursor — or the same exception. -/
theorem C12_agree_generators (v : Int) (data : List UInt8) :
    (match run (decodeProduce v) data with
      | .ok val _ _ => ∃ parts cw, val = .list parts ∧
          Afkak.Wire.decodeProduceResponse data v = .ok (parts.map toProduce, .ok cw)
      | .err e _ => Afkak.Wire.decodeProduceResponse data v = .error (errMap e) ∨
          ∃ g, Afkak.Wire.decodeProduceResponse data v = .ok g ∧ g.2 = .error (errMap e)) ∧
    (match run decodeOffset data with
      | .ok val c _ => ∃ parts, val = .list parts ∧
          Afkak.Wire.decodeOffsetResponse data = (parts.map toOffsetResp, .ok (c : Int))
      | .err e _ => (Afkak.Wire.decodeOffsetResponse data).2 = .error (errMap e)) ∧
    (match run decodeOffsetCommit data with
      | .ok val c _ => ∃ parts, val = .list parts ∧
          Afkak.Wire.decodeOffsetCommitResponse data = (parts.map toOffsetCommit, .ok (c : Int))
      | .err e _ => (Afkak.Wire.decodeOffsetCommitResponse data).2 = .error (errMap e)) ∧
    (match run decodeOffsetFetch data with
      | .ok val c _ => ∃ parts, val = .list parts ∧
          Afkak.Wire.decodeOffsetFetchResponse data = (parts.map toOffsetFetch, .ok (c : Int))
      | .err e _ => (Afkak.Wire.decodeOffsetFetchResponse data).2 = .error (errMap e)) :=
  ⟨decodeProduce_agree v data, decodeOffset_agree data, decodeOffsetCommit_agree data,
    decodeOffsetFetch_agree data⟩

open Afkak.Agree in
/-- The value decoders `decode_api_versions_response`, `decode_consumermetadata_response`,
    `decode_sync_group_response`, `decode_leave_group_response`, `decode_heartbeat_response`. -/
theorem C12_agree_values (data : List UInt8) :
    Afkak.Wire.decodeApiVersionsResponse data
      = eraseVal (fun v => match v with
          | .list [e, .list vs] => (valInt e, vs.map toApiVersion)
          | _ => (0, [])) (run decodeApiVersions data) ∧
    Afkak.Wire.decodeConsumerMetadataResponse data
      = eraseVal (fun v => match v with
          | .list [e, n, h, p] => ⟨valInt e, valInt n, valBytes h, valInt p⟩
          | _ => ⟨0, 0, [], 0⟩) (run decodeConsumerMetadata data) ∧
    Afkak.Wire.decodeSyncGroupResponse data
      = eraseVal (fun v => match v with | .list [e, ma] => (valInt e, valOptBytes ma) | _ => (0, none))
          (run decodeSyncGroup data) ∧
    Afkak.Wire.decodeLeaveGroupResponse data
      = eraseVal (fun v => match v with | .list [e] => valInt e | _ => 0) (run decodeLeaveGroup data) ∧
    Afkak.Wire.decodeHeartbeatResponse data
      = eraseVal (fun v => match v with | .list [e] => valInt e | _ => 0) (run decodeHeartbeat data) :=
  ⟨apiVersions_agree data, consumerMetadata_agree data, syncGroup_agree data,
    (leave_heartbeat_agree data).1, (leave_heartbeat_agree data).2⟩

open Afkak.Agree in
/-- `decode_metadata_response` (brokers and topics as the item lists of the dicts, in insertion
    order), `decode_join_group_response`, `decode_join_group_protocol_metadata`,
    `decode_sync_group_member_assignment` — with text fields validated by the same UTF-8 language. -/
theorem C12_agree_structured (data : List UInt8) :
    Afkak.Wire.decodeMetadataResponse data
      = eraseVal (fun v => match v with
          | .list [.list bd, .list td] => (bd.map toBrokerItem, td.map toTopicItem)
          | _ => ([], [])) (run decodeMetadata data) ∧
    Afkak.Wire.decodeJoinGroupResponse data
      = eraseVal (fun v => match v with
          | .list [e, g, p, l, m, .list ms] =>
            ⟨valInt e, valInt g, valBytes p, valBytes l, valBytes m, ms.map toMember⟩
          | _ => ⟨0, 0, [], [], [], []⟩) (run decodeJoinGroup data) ∧
    Afkak.Wire.decodeJoinGroupProtocolMetadata data
      = eraseVal (fun v => match v with
          | .list [ver, .list subs, ud] => ⟨valInt ver, subs.map valBytes, valOptBytes ud⟩
          | _ => ⟨0, [], none⟩) (run decodeJoinGroupProtocolMetadata data) ∧
    Afkak.Wire.decodeSyncGroupMemberAssignment data
      = eraseVal (fun v => match v with
          | .list [ver, .list ad, ud] => ⟨valInt ver, ad.map toAssignItem, valOptBytes ud⟩
          | _ => ⟨0, [], none⟩) (run decodeSyncGroupMemberAssignment data) ∧
    (∀ bs, Afkak.Wire.validUtf8 bs = validUtf8 bs) :=
  ⟨metadata_agree data, joinGroup_agree data, joinMeta_agree data, assignment_agree data, validUtf8_agree⟩

/-! ## Non-vacuity: concrete values meeting the hypotheses -/

/-- a v1 message with null key, its CRC, and a 3-bit burst in its attributes byte -/
example : crcOk [0x49, 0x95, 0xe6, 0x5e, 0x01, 0x00, 0, 0, 0, 0, 0, 0, 0, 0,
    0xff, 0xff, 0xff, 0xff, 0, 0, 0, 5, 0, 0, 0, 0, 0] = true := by decide +kernel
example : isBurst 27 [0, 0, 0, 0, 0x00, 0x1c, 0x0f, 0, 0, 0, 0, 0, 0, 0,
    0, 0, 0, 0, 0, 0, 0, 0, 0, 0, 0, 0, 0] 10 = true := by decide +kernel
/-- a single flipped bit is a burst -/
example : isBurst 27 [0, 0, 0, 0, 0, 0, 0, 0, 0, 0x10, 0, 0, 0, 0,
    0, 0, 0, 0, 0, 0, 0, 0, 0, 0, 0, 0, 0] 44 = true := by decide +kernel
/-- plain entries: v0 with key, v1 with null key and a timestamp -/
example : plainEntry (7, { magic := 0, attrs := 0, key := some [1, 2], value := some [3], ts := none }) = true
    ∧ plainEntry (8, { magic := 1, attrs := 8, key := none, value := some [], ts := some 1700000000000 }) = true := by
  decide +kernel
/-- a well-formed format-1 gzip wrapper (for a decompressor that answers its payload with the
    encoding of the inner set) and what it contains: inner relative offsets 0, 2 under wrapper
    offset 105 become 103, 105 -/
example :
    let ims : List (Int × Msg) := [(0, { magic := 1, attrs := 0, key := none, value := some [97], ts := some 1 }),
                                    (2, { magic := 1, attrs := 0, key := none, value := some [98], ts := some 2 })]
    let wm : Msg := { magic := 1, attrs := 1, key := none, value := some [31, 139, 8], ts := some 0 }
    let gz : Gz := fun v => if v = some [31, 139, 8] then .ok (encodeSet ims) else .error "BadGzipFile"
    (SetEntry.wrapper 105 wm ims).WellFormed gz ∧
    (SetEntry.wrapper 105 wm ims).yields
      = [((103 : Int), { magic := 1, attrs := 0, key := none, value := some [97], ts := some 1 }),
         ((105 : Int), { magic := 1, attrs := 0, key := none, value := some [98], ts := some 2 })] := by
  refine ⟨⟨by decide, by decide +kernel, by decide, by simp, ?_⟩, by decide⟩
  intro om hom
  simp only [List.mem_cons, List.not_mem_nil, or_false] at hom
  rcases hom with rfl | rfl <;> decide +kernel

/-- the encoder used in the theorems produces the 27-byte message above -/
example : encodeMessage { magic := 1, attrs := 0, key := none, value := some [0, 0, 0, 0, 0], ts := some 0 }
    = [0x49, 0x95, 0xe6, 0x5e, 0x01, 0x00, 0, 0, 0, 0, 0, 0, 0, 0,
       0xff, 0xff, 0xff, 0xff, 0, 0, 0, 5, 0, 0, 0, 0, 0] := by decide +kernel

end Afkak.Props.C12

/- OBLIGATIONS
C12_crc_table
C12_burst_bits
C12_burst_crc
C12_burst
C12_crc_field_error
C12_burst_in_set
C12_burst_in_set_wrapped
C12_burst_monitor
C12_burst_any_position_counterexample
C12_burst_any_position_partial
C12_burst_msb_first_counterexample
C12_window_crc
C12_window_bytes
C12_burst_nonstraddling_in_set
C12_window_in_set
C12_truncate
C12_truncate_monitor
C12_truncate_wrapped
C12_truncate_wrapped_monitor
C12_message_roundtrip
C12_msgset_roundtrip
C12_grow
C12_grow_factors
C12_grow_is_consumer_grow
C12_refetch_model
C12_refetch_after_delivery_model
C12_refetch_after_delivery_partial
C12_refetch_after_delivery_step
C12_refetch_model_step
C12_refetch_at_maximum
C12_refetch_after_delivery_parked
C12_truncate_then_refetch
C12_refetch_after_delivery_counterexample
C12_linear_readers
C12_linear_api_versions
C12_linear_produce
C12_linear_fetch
C12_linear_offset
C12_linear_metadata
C12_linear_consumermetadata
C12_linear_offset_commit
C12_linear_offset_fetch
C12_linear_join_group_protocol_metadata
C12_linear_join_group
C12_linear_leave_group
C12_linear_heartbeat
C12_linear_sync_group
C12_linear_sync_group_member_assignment
C12_alloc_decoders
C12_alloc_msgset
C12_alloc_monitor
C12_linear_monitor
C12_linear_msgset
C12_linear_msgset_monitor
C12_linear_fetch_total
C12_linear_fetch_total_monitor
C12_fuel_suffices
C12_agree_readers
C12_agree_msgset
C12_agree_fetch
C12_agree_generators
C12_agree_values
C12_agree_structured
-/
/- OPEN_STATEMENTS
C12_burst_any_position
C12_refetch_after_delivery
-/
