import AfkakProofs.Consumer.Trace
import AfkakProofs.Consumer.A_Gap6
import AfkakProofs.Consumer.A5_Prompt8
import AfkakProofs.Consumer.A5_Progress13
import AfkakProofs.Consumer.A5_Decode3
import AfkakProps.Open.C02
/-!
# C02 — the consumer delivers every message once, in offset order, never concurrently
Property theorems only; helper lemmas live in `AfkakProofs/Consumer/`.
The model is `Afkak/Consumer.lean`; `trace cfg script evs` is everything the model does (events applied,
observations made) for ANY configuration, processor script and event list.
-/
namespace Afkak.Props.C02
open Afkak.Consumer Afkak.Monitor Afkak.Proofs.Consumer

/-- The processor is never invoked while the result of its previous invocation is pending: on every
    trace of the model the monitor that is run on the implementation's traces accepts. -/
theorem C02_no_overlap (cfg : Cfg) (script : List PEntry) (evs : List Ev) :
    C02.noOverlapOk (trace cfg script evs) = true :=
  accepts_trace _ _ cfg script evs (run_g1 cfg script evs).ovOk

/-- At most one uncancelled fetch/offset request is outstanding at any time, and at most one refetch
    is scheduled, on every trace. -/
theorem C02_single_fetch (cfg : Cfg) (script : List PEntry) (evs : List Ev) :
    C02.singleFetchOk (trace cfg script evs) = true :=
  accepts_trace _ _ cfg script evs (run_sf cfg script evs).sfOk

/-- Every message handed to the processor is one a fetch reply carried, with the offset and the payload it
    carried there (the consumer invents, alters and resurrects nothing), on every trace. -/
theorem C02_payload (cfg : Cfg) (script : List PEntry) (evs : List Ev) :
    C02.payloadOk (trace cfg script evs) = true :=
  accepts_trace _ _ cfg script evs (run_pay cfg script evs).payOk

/-- A fetch reply as a broker produces it: Kafka offsets (≥ 0), and iterating its messages does not raise
    OffsetOutOfRangeError (only a fetch REQUEST fails with that error). -/
def saneReply (r : Reply) : Bool :=
  r.msgs.all (fun x => decide (0 ≤ x.off)) &&
    (match r.tail with
     | .raise .outOfRange _ => false
     | _ => true)

/-- The hypothesis of `C02_increasing` on one event: fetch replies are `saneReply`; the outcome the
    environment chooses for a cancelled fetch/offset request is not OffsetOutOfRange (the real client
    yields FailedPayloads/Cancelled/…Unavailable there, `harness/lib/client_iface.md`). -/
def saneEvent : Ev → Bool
  | .fetchOk _ r => saneReply r
  | .env (some (.outOfRange, _)) _ => false
  | _ => true

example : [Ev.start 0, .fetchOk 0 { msgs := [⟨0, 7⟩, ⟨1, 8⟩], tail := .done }, .env (some (.cancelled, 0)) none].all saneEvent = true := by
  decide
example : saneEvent (.fetchOk 0 { msgs := [⟨-3, 7⟩], tail := .done }) = false := by decide

theorem saneEvent_ok (e : Ev) (h : saneEvent e = true) : EvOk e := by
  cases e with
  | fetchOk k r =>
    simp only [saneEvent, saneReply, Bool.and_eq_true, List.all_eq_true, decide_eq_true_eq] at h
    refine ⟨h.1, fun t ht => ?_⟩
    rw [ht] at h
    simp at h
  | env rq cm =>
    intro k t hk
    subst hk
    intro hk
    subst hk
    simp [saneEvent] at h
  | _ => trivial

/-- Offsets handed to the processor are strictly increasing - within a block, from block to block, across
    stop/start inside a run of the processing loop; the only descents are the ones a `start()` or a firing
    `auto_offset_reset` policy permit (one each).  For every configuration, processor script and event list
    whose fetch replies carry Kafka offsets (≥ 0; a message at offset -3 would move the fetch position onto
    the sentinel OFFSET_EARLIEST) and in which OffsetOutOfRange only ever arrives as the failure of a fetch
    request: the monitor that is run on the implementation's traces accepts the model's trace. -/
theorem C02_increasing (cfg : Cfg) (script : List PEntry) (evs : List Ev) (h : evs.all saneEvent = true) :
    C02.increasingOk cfg.reset.isSome (trace cfg script evs) = true :=
  accepts_trace _ _ cfg script evs
    (run_inc cfg script evs (fun e he => saneEvent_ok e (List.all_eq_true.1 h e he))).incOk

/-- No gap, no duplicate: against a faithful partition log (every successful fetch reply carries consecutive log
    entries, the first one at or after the requested offset being the first log entry there; requests at negative
    offsets are not answered with messages; `auto_offset_reset` is a value the constructor accepts) the stream of
    messages handed to the processor is the log from the resolved start position, as far as it got: every block starts
    with the log entry following the last delivered one (or, once after a `start()` / an offset look-up, with the
    first log entry at the position that yielded) and continues entry by entry.  For every configuration, processor
    script and event list - restarts, resets, re-entrant calls, failures, parked and late replies included. -/
theorem C02_no_gap_no_dup : Open.C02.C02_no_gap_no_dup := by
  intro log cfg script evs hf
  have h := (A.run_h log cfg script evs hf evs.length).bad
  rw [List.take_length] at h
  exact accepts_trace _ _ cfg script evs h

/-! Non-vacuity of the contract: a log with a gap (offsets 3, 4, 7), a wrapper that also delivers an entry below the
requested offset, a restart inside the log: the event list is faithful and both blocks are delivered. -/
example :
    let log : List Msg := [⟨3, 1⟩, ⟨4, 2⟩, ⟨7, 3⟩]
    let cfg : Cfg := { group := false, autoN := 0, autoS := 0, bufInit := 100, bufMax := none, retryInit := 1, retryMax := 2,
                       maxAttempts := 0, reset := some Afkak.Consts.offsetEarliest }
    let evs : List Ev := [.start 0, .fetchOk 0 { msgs := [⟨3, 1⟩, ⟨4, 2⟩], tail := .done }, .retryFire,
                          .fetchOk 1 { msgs := [⟨4, 2⟩, ⟨7, 3⟩], tail := .done }]
    Open.C02.FaithfulLog log cfg [] evs ∧
      (trace cfg [] evs).filterMap (fun | .ob (.proc blk) => some blk | _ => none) = [[⟨3, 1⟩, ⟨4, 2⟩], [⟨7, 3⟩]] := by
  refine ⟨A.faithfulB_sound _ _ _ _ (by decide +kernel), by decide +kernel⟩


/-! ## The environment contract `FaithfulLog` is what the wire decoder delivers

`C02_no_gap_no_dup` assumes `replyFaithful log off r` of the DECODED reply.  The two theorems below discharge that hypothesis
for the broker answers the property speaks of ("compressed message sets, partial trailing messages"): the decoder model of
the wire/crc packages (`decodeSet`, proved against the codec by C05/C12) applied to the grammar encoding of the log from the
first entry at or after the requested offset, cut after ANY number of bytes, rendered as the consumer's `Reply` the way the
client does (`D.replyOf`, a verbatim copy of `Afkak.C12.replyOf`: offsets kept, normal end / too-small condition / other error as `Tail`). -/

open Afkak.WireCost Afkak.C12 Afkak.Monitor.C12 in
/-- Plain message sets: partition log `wlog` with strictly ascending offsets (compaction gaps allowed), plain messages of
    either format; fetch at `off ≥ 0`; answer = encoding of the log from the first entry at or after `off`, cut after any
    number `c` of bytes (inside a message, beyond the end): the decoded reply is `replyFaithful` w.r.t. the log, and it ends
    normally or - only when not a single message is complete - with the too-small condition. -/
theorem C02_decoded_reply_faithful (gz : Gz) (depth : Nat) (pid : Int × Afkak.WireCost.Msg → Nat)
    (other : Err → ErrKind × Nat) (wlog : List (Int × Afkak.WireCost.Msg)) (off : Int) (c : Nat)
    (hasc : (wlog.map (·.1)).Pairwise (· < ·)) (hpl : ∀ om ∈ wlog, plainEntry om = true) (h0 : 0 ≤ off) :
    Open.C02.replyFaithful (wlog.map (D.toMsg pid)) off
        (D.replyOf pid other (decodeSet gz depth ((encodeSet (D.slice wlog off)).take c))) = true ∧
      ((D.replyOf pid other (decodeSet gz depth ((encodeSet (D.slice wlog off)).take c))).tail = .done ∨
       ((D.replyOf pid other (decodeSet gz depth ((encodeSet (D.slice wlog off)).take c))).tail = .small ∧
        (D.replyOf pid other (decodeSet gz depth ((encodeSet (D.slice wlog off)).take c))).msgs = [])) :=
  D.c02_decoded_reply_faithful gz depth pid other wlog off c hasc hpl h0

open Afkak.WireCost Afkak.C12 Afkak.Monitor.C12 in
/-- Sets with gzip wrappers of either message format (format 0: stored inner offsets; format 1: inner offsets re-based on
    the wrapper's): stored entries `before ++ after`, those of the answer well formed for the decompressor; what the entries
    yield has strictly ascending offsets; everything `before` yields is below `off ≥ 0`; answer = encoding of `after` - which
    may begin, inside a wrapper, BELOW `off` - cut after any number `c` of bytes (also inside a wrapper: the whole wrapper
    is dropped then). -/
theorem C02_decoded_reply_faithful_wrapped (gz : Gz) (depth : Nat) (pid : Int × Afkak.WireCost.Msg → Nat)
    (other : Err → ErrKind × Nat) (before after : List SetEntry) (off : Int) (c : Nat)
    (hwf : ∀ e ∈ after, e.WellFormed gz)
    (hasc : (((before ++ after).flatMap SetEntry.yields).map (·.1)).Pairwise (· < ·))
    (hbelow : ∀ om ∈ before.flatMap SetEntry.yields, om.1 < off) (h0 : 0 ≤ off) :
    Open.C02.replyFaithful (((before ++ after).flatMap SetEntry.yields).map (D.toMsg pid)) off
        (D.replyOf pid other (decodeSet gz (depth + 1) ((encodeEntries after).take c))) = true ∧
      ((D.replyOf pid other (decodeSet gz (depth + 1) ((encodeEntries after).take c))).tail = .done ∨
       ((D.replyOf pid other (decodeSet gz (depth + 1) ((encodeEntries after).take c))).tail = .small ∧
        (D.replyOf pid other (decodeSet gz (depth + 1) ((encodeEntries after).take c))).msgs = [])) :=
  D.c02_decoded_reply_faithful_wrapped gz depth pid other before after off c hwf hasc hbelow h0

/-! Non-vacuity (plain): log with a gap (offsets 3, 4, 7; formats 0 and 1; 27 + 36 + 27 bytes).  Fetch at 0 with 80 of the 90
bytes: the third message is cut, two delivered, normal end; fetch at 4 with 20 bytes: nothing complete, `Tail.small`.  (Wrappers:
the example at the end of `AfkakProofs/Consumer/A5_Decode3.lean`: a format-1 wrapper at 105 yielding 103, 105, fetched at 105.) -/
open Afkak.WireCost Afkak.C12 Afkak.Monitor.C12 in
example :
    let wlog : List (Int × Afkak.WireCost.Msg) :=
      [(3, ⟨0, 0, none, some [1], none⟩), (4, ⟨1, 0, some [9], some [2], some 5⟩), (7, ⟨0, 0, none, some [3], none⟩)]
    let pid : Int × Afkak.WireCost.Msg → Nat := fun om => match om.2.value with | some (b :: _) => b.toNat | _ => 0
    let gz : Gz := fun _ => .error ""
    (wlog.map (·.1)).Pairwise (· < ·) ∧ (∀ om ∈ wlog, plainEntry om = true) ∧
      D.replyOf pid (fun _ => (.other, 0)) (decodeSet gz 1 ((encodeSet (D.slice wlog 0)).take 80))
        = { msgs := [⟨3, 1⟩, ⟨4, 2⟩], tail := .done } ∧
      D.replyOf pid (fun _ => (.other, 0)) (decodeSet gz 1 ((encodeSet (D.slice wlog 4)).take 20))
        = { msgs := [], tail := .small } := by
  refine ⟨by decide, by decide +kernel, by decide +kernel, by decide +kernel⟩


/-- Every fetched message is handed to the processor promptly: a reply that carries a message at or above the requested
    offset, arriving while the consumer runs (not shutting down, not halted by a processor failure, no processor result
    pending) makes the processor run in the same step; a reply that arrived while a result was pending is handled as soon
    as that result arrives - on every trace (any configuration, script, events). -/
theorem C02_prompt : Open.C02.C02_prompt := Afkak.Proofs.Consumer.P.c02_prompt

/-! ## Liveness: a running consumer is never stuck (up to one defect), and the rest of the log is delivered within 4 events

Vocabulary (`AfkakProofs/Consumer/A5_Progress1.lean`, `A5_ProgressZ.lean`, namespace `L`; all decidable): `L.Running s` = not
crashed, start Deferred pending, not shutting down, not stopping; `L.Enabled s` = a fetch/offset request is outstanding, or a
refetch timer is pending, or a processor result is pending (each enables an event: `L.enabled_fetch/offsets/offsetFetch/timer/proc`). -/

open Afkak.Proofs.Consumer.L in
/-- The full-strength statement `L.C02_never_stuck` (every reachable running state has an enabled event) is FALSE of the model,
    and of the code (replayed; finding reported, not fixed): a fetch reply whose message iteration raises (ChecksumError …)
    that arrived while the processor's result was pending is run as a callback of `_msg_block_d`; the exception never reaches
    `_handle_fetch_error`: no retry, no request, the start Deferred never fires. -/
theorem C02_never_stuck_counterexample : ¬ L.C02_never_stuck := L.C02_never_stuck_counterexample

open Afkak.Proofs.Consumer.L in
/-- … and that is the ONLY way to get stuck: for every configuration, processor script and event list in which no raising reply
    is applied while a block of messages is in progress (`L.noRaiseParkedB`, decidable on the run), every reachable running
    state has an enabled event … -/
theorem C02_never_stuck_sharp (cfg : Cfg) (script : List PEntry) (evs : List Ev) (hn : noRaiseParkedB cfg script evs = true) :
    Running (run cfg script evs) = true → Enabled (run cfg script evs) = true :=
  L.C02_never_stuck_sharp cfg script evs hn

open Afkak.Proofs.Consumer.L in
/-- … in particular for event lists without any raising reply … -/
theorem C02_never_stuck_partial (cfg : Cfg) (script : List PEntry) (evs : List Ev) (hn : evs.all noRaiseEv = true) :
    Running (run cfg script evs) = true → Enabled (run cfg script evs) = true :=
  L.C02_never_stuck_partial cfg script evs hn

open Afkak.Proofs.Consumer.L in
/-- … and the event the environment owes (`L.owedEv`: the reply to the outstanding request, else time passing up to the
    refetch timer, else the processor's result) is accepted by `step`, not rejected. -/
theorem C02_never_stuck_event (cfg : Cfg) (script : List PEntry) (evs : List Ev) (hn : noRaiseParkedB cfg script evs = true)
    (hr : Running (run cfg script evs) = true) : Accepted cfg (run cfg script evs) (owedEv (run cfg script evs)) = true :=
  L.C02_never_stuck_event cfg script evs hn hr

/-! Non-vacuity: a raising reply while idle satisfies the sharp hypothesis (it is retried), the counterexample run violates it. -/
open Afkak.Proofs.Consumer.L in
example : noRaiseParkedB cexCfg [] [.start 0, .fetchOk 0 { msgs := [⟨0, 1⟩], tail := .raise .other 7 }] = true ∧
    noRaiseParkedB cexCfg [{ acts := [], res := .defer }] cexEvs = false ∧
    Running (run cexCfg [] [Ev.start 0, .fetchOk 0 { msgs := [⟨0, 1⟩], tail := .small }, .retryFire, .fetchErr 1 .kafka 3]) = true := by
  decide +kernel

open Afkak.Proofs.Consumer.L Open.C02 in
/-- **Bounded continuation** ("every message is eventually received"): for every reachable state `s = run cfg script evs`
    against a faithful, ascending log that is `L.Ready` (running; a fetch reply or the refetch timer pending; no block in
    progress; the remaining processor script synchronous-ok; numeric fetch position; request ids fresh), the explicit
    failure-free continuation `L.contOf log s` (the reply carrying the rest of the log, preceded by `advance`/`retryFire` when the
    timer is pending: at most `L.bound s ≤ 3` events) keeps the environment contract, leaves the start Deferred pending, and
    afterwards EVERY log message at or after the fetch position has been handed to the processor in a block observed after `s`. -/
theorem C02_progress (log : List Msg) (cfg : Cfg) (script : List PEntry) (evs : List Ev)
    (hf : FaithfulLog log cfg script evs) (hl : Ascending log) (hr : Ready (run cfg script evs) = true) :
    FaithfulLog log cfg script (evs ++ contOf log (run cfg script evs)) ∧
      (contOf log (run cfg script evs)).length ≤ bound (run cfg script evs) ∧ bound (run cfg script evs) ≤ 3 ∧
      (run cfg script (evs ++ contOf log (run cfg script evs))).startD = .pending ∧
      ∀ m ∈ log, (run cfg script evs).fetchOffset ≤ m.off →
        ∃ blk, m ∈ blk ∧ Fresh (run cfg script evs) (run cfg script (evs ++ contOf log (run cfg script evs))) (.ob (.proc blk)) :=
  L.C02_progress log cfg script evs hf hl hr

open Afkak.Proofs.Consumer.L Open.C02 in
/-- … and from a state with a processor result pending (`L.ProcAt`: no consumer group or no count-triggered commits, nothing
    parked, not waited on by `shutdown()`): `procOk` first, at most 4 events.  (Non-vacuity examples by `decide +kernel` on a log
    with a compaction gap, offsets 3, 4, 7, beside `L.c02_progress_idle`, `L.c02_progress_timer`, `L.C02_progress_proc` and at
    the end of `A5_ProgressZ.lean`.)  Open: `L.C02_progress_full` - the same without the request-id freshness conjuncts of
    `Ready` (needs the invariant "a request id is used once"); states with a parked reply are not covered. -/
theorem C02_progress_proc (log : List Msg) (cfg : Cfg) (script : List PEntry) (evs : List Ev)
    (hf : FaithfulLog log cfg script evs) (hl : Ascending log) (hi : ProcAt cfg (run cfg script evs) = true) :
    FaithfulLog log cfg script (evs ++ contP log cfg (run cfg script evs)) ∧
      (contP log cfg (run cfg script evs)).length ≤ 4 ∧
      (run cfg script (evs ++ contP log cfg (run cfg script evs))).startD = .pending ∧
      ∀ m ∈ log, (run cfg script evs).fetchOffset ≤ m.off →
        ∃ blk, m ∈ blk ∧ Fresh (run cfg script evs) (run cfg script (evs ++ contP log cfg (run cfg script evs))) (.ob (.proc blk)) :=
  L.C02_progress_proc log cfg script evs hf hl hi

end Afkak.Props.C02

/- OBLIGATIONS
C02_no_overlap
C02_single_fetch
C02_increasing
C02_payload
C02_no_gap_no_dup
C02_decoded_reply_faithful
C02_decoded_reply_faithful_wrapped
C02_prompt
C02_never_stuck_counterexample
C02_never_stuck_sharp
C02_never_stuck_partial
C02_never_stuck_event
C02_progress
C02_progress_proc
-/
/- OPEN_STATEMENTS
C02_never_stuck
C02_progress_full
-/
