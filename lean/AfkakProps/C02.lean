import AfkakProofs.Consumer.Trace
import AfkakProofs.Consumer.A_Gap6
import AfkakProps.Open.C02
/-!
# C02 — the consumer delivers every message once, in offset order, never concurrently
Property theorems only; helper lemmas live in `AfkakProofs/Consumer/`.
The model is `Afkak/Consumer.lean`; `trace cfg script evs` is everything the model does (events applied,
observations made) for ANY configuration, processor script and event list.
-/
namespace Afkak.Props.C02
open Afkak.Consumer Afkak.Monitor Afkak.Proofs.Consumer

/-- The processor is never invoked while the result of its previous invocation is pending: on every
    trace of the model the monitor that is run on the implementation's traces accepts. -/
theorem C02_no_overlap (cfg : Cfg) (script : List PEntry) (evs : List Ev) :
    C02.noOverlapOk (trace cfg script evs) = true :=
  accepts_trace _ _ cfg script evs (run_g1 cfg script evs).ovOk

/-- At most one uncancelled fetch/offset request is outstanding at any time, and at most one refetch
    is scheduled, on every trace. -/
theorem C02_single_fetch (cfg : Cfg) (script : List PEntry) (evs : List Ev) :
    C02.singleFetchOk (trace cfg script evs) = true :=
  accepts_trace _ _ cfg script evs (run_sf cfg script evs).sfOk

/-- Every message handed to the processor is one a fetch reply carried, with the offset and the payload it
    carried there (the consumer invents, alters and resurrects nothing), on every trace. -/
theorem C02_payload (cfg : Cfg) (script : List PEntry) (evs : List Ev) :
    C02.payloadOk (trace cfg script evs) = true :=
  accepts_trace _ _ cfg script evs (run_pay cfg script evs).payOk

/-- A fetch reply as a broker produces it: Kafka offsets (≥ 0), and iterating its messages does not raise
    OffsetOutOfRangeError (only a fetch REQUEST fails with that error). -/
def saneReply (r : Reply) : Bool :=
  r.msgs.all (fun x => decide (0 ≤ x.off)) &&
    (match r.tail with
     | .raise .outOfRange _ => false
     | _ => true)

/-- The hypothesis of `C02_increasing` on one event: fetch replies are `saneReply`; the outcome the
    environment chooses for a cancelled fetch/offset request is not OffsetOutOfRange (the real client
    yields FailedPayloads/Cancelled/…Unavailable there, `harness/lib/client_iface.md`). -/
def saneEvent : Ev → Bool
  | .fetchOk _ r => saneReply r
  | .env (some (.outOfRange, _)) _ => false
  | _ => true

example : [Ev.start 0, .fetchOk 0 { msgs := [⟨0, 7⟩, ⟨1, 8⟩], tail := .done }, .env (some (.cancelled, 0)) none].all saneEvent = true := by
  decide
example : saneEvent (.fetchOk 0 { msgs := [⟨-3, 7⟩], tail := .done }) = false := by decide

theorem saneEvent_ok (e : Ev) (h : saneEvent e = true) : EvOk e := by
  cases e with
  | fetchOk k r =>
    simp only [saneEvent, saneReply, Bool.and_eq_true, List.all_eq_true, decide_eq_true_eq] at h
    refine ⟨h.1, fun t ht => ?_⟩
    rw [ht] at h
    simp at h
  | env rq cm =>
    intro k t hk
    subst hk
    intro hk
    subst hk
    simp [saneEvent] at h
  | _ => trivial

/-- Offsets handed to the processor are strictly increasing - within a block, from block to block, across
    stop/start inside a run of the processing loop; the only descents are the ones a `start()` or a firing
    `auto_offset_reset` policy permit (one each).  For every configuration, processor script and event list
    whose fetch replies carry Kafka offsets (≥ 0; a message at offset -3 would move the fetch position onto
    the sentinel OFFSET_EARLIEST) and in which OffsetOutOfRange only ever arrives as the failure of a fetch
    request: the monitor that is run on the implementation's traces accepts the model's trace. -/
theorem C02_increasing (cfg : Cfg) (script : List PEntry) (evs : List Ev) (h : evs.all saneEvent = true) :
    C02.increasingOk cfg.reset.isSome (trace cfg script evs) = true :=
  accepts_trace _ _ cfg script evs
    (run_inc cfg script evs (fun e he => saneEvent_ok e (List.all_eq_true.1 h e he))).incOk

/-- No gap, no duplicate: against a faithful partition log (every successful fetch reply carries consecutive log
    entries, the first one at or after the requested offset being the first log entry there; requests at negative
    offsets are not answered with messages; `auto_offset_reset` is a value the constructor accepts) the stream of
    messages handed to the processor is the log from the resolved start position, as far as it got: every block starts
    with the log entry following the last delivered one (or, once after a `start()` / an offset look-up, with the
    first log entry at the position that yielded) and continues entry by entry.  For every configuration, processor
    script and event list - restarts, resets, re-entrant calls, failures, parked and late replies included. -/
theorem C02_no_gap_no_dup : Open.C02.C02_no_gap_no_dup := by
  intro log cfg script evs hf
  have h := (A.run_h log cfg script evs hf evs.length).bad
  rw [List.take_length] at h
  exact accepts_trace _ _ cfg script evs h

/-! Non-vacuity of the contract: a log with a gap (offsets 3, 4, 7), a wrapper that also delivers an entry below the
requested offset, a restart inside the log: the event list is faithful and both blocks are delivered. -/
example :
    let log : List Msg := [⟨3, 1⟩, ⟨4, 2⟩, ⟨7, 3⟩]
    let cfg : Cfg := { group := false, autoN := 0, autoS := 0, bufInit := 100, bufMax := none, retryInit := 1, retryMax := 2,
                       maxAttempts := 0, reset := some Afkak.Consts.offsetEarliest }
    let evs : List Ev := [.start 0, .fetchOk 0 { msgs := [⟨3, 1⟩, ⟨4, 2⟩], tail := .done }, .retryFire,
                          .fetchOk 1 { msgs := [⟨4, 2⟩, ⟨7, 3⟩], tail := .done }]
    Open.C02.FaithfulLog log cfg [] evs ∧
      (trace cfg [] evs).filterMap (fun | .ob (.proc blk) => some blk | _ => none) = [[⟨3, 1⟩, ⟨4, 2⟩], [⟨7, 3⟩]] := by
  refine ⟨A.faithfulB_sound _ _ _ _ (by decide +kernel), by decide +kernel⟩

end Afkak.Props.C02

/- OBLIGATIONS
C02_no_overlap
C02_single_fetch
C02_increasing
C02_payload
C02_no_gap_no_dup
-/
/- OPEN_STATEMENTS
C02_prompt
-/
