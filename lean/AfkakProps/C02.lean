import AfkakProofs.Consumer.Trace
import AfkakProps.Open.C02
/-!
# C02 — the consumer delivers every message once, in offset order, never concurrently
Property theorems only; helper lemmas live in `AfkakProofs/Consumer/`.
The model is `Afkak/Consumer.lean`; `trace cfg script evs` is everything the model does (events applied,
observations made) for ANY configuration, processor script and event list.
-/
namespace Afkak.Props.C02
open Afkak.Consumer Afkak.Monitor Afkak.Proofs.Consumer

/-- The processor is never invoked while the result of its previous invocation is pending: on every
    trace of the model the monitor that is run on the implementation's traces accepts. -/
theorem C02_no_overlap (cfg : Cfg) (script : List PEntry) (evs : List Ev) :
    C02.noOverlapOk (trace cfg script evs) = true :=
  accepts_trace _ _ cfg script evs (run_top cfg script evs).1.g1.ovOk

/-- At most one uncancelled fetch/offset request is outstanding at any time, and at most one refetch
    is scheduled, on every trace. -/
theorem C02_single_fetch (cfg : Cfg) (script : List PEntry) (evs : List Ev) :
    C02.singleFetchOk (trace cfg script evs) = true :=
  accepts_trace _ _ cfg script evs (run_top cfg script evs).1.sf.sfOk

end Afkak.Props.C02

/- OBLIGATIONS
C02_no_overlap
C02_single_fetch
-/
/- OPEN_STATEMENTS
C02_increasing
C02_payload
C02_no_gap_no_dup
C02_prompt
-/
