import Afkak.ClientNet
import Afkak.Monitor.C11
import AfkakProofs.Client.Net
import AfkakProofs.Client.Timers
import AfkakProofs.Client.MonC11
import AfkakProofs.Client.B_ComposeBound
import AfkakProofs.Client.B_ComposeResend
import AfkakProps.Open.C11
/-!
# C11 — every broker request is bounded by the client timeout
Property theorems only; helper lemmas live in `AfkakProofs/Client/Net.lean`.
-/
namespace Afkak.Props.C11
open Afkak.ClientNet Afkak.ClientCache Afkak.Consts

/-- In every reachable state (any event sequence whatsoever) every unresolved request owns a pending
    timer due at the bound it was armed with, the timer queue is in firing order, and request ids are
    unique — so a request cannot stay unresolved past its bound without its timer having fired. -/
theorem C11_bound (cfg : Cfg) (evs : List (Env × Ev)) :
    let st := evs.foldl (fun s e => (step cfg s e.1 e.2).1) ({} : St)
    (∀ q ∈ st.reqs, q.pending = true → ({ what := .mrtb q.k, due := q.due } : Timer) ∈ st.timers) ∧
    st.timers.Pairwise (fun a b => a.due ≤ b.due) ∧
    (∀ q ∈ st.reqs, ∀ q' ∈ st.reqs, q.k = q'.k → q = q') := by
  have h := reachable_inv cfg evs
  exact ⟨h.pendTimer, h.sorted, h.kUnique⟩

/-- … and the clock never leaves a due timer behind: from a state in which nothing is overdue, any
    step other than a clock advance keeps it so (timers are armed in the future), and a clock advance
    fires everything that has become due, so that afterwards every pending timer — hence the bound of
    every unresolved request — is strictly in the future (a step that exhausts the interpreter's fuel
    reports it).  Together with `C11_bound`: every request is resolved no later than `issued + bound`. -/
theorem C11_nothing_overdue (cfg : Cfg) (h0 : 0 ≤ cfg.timeout) (h1 : 0 ≤ cfg.retryDelay) (evs : List (Env × Ev)) (env : Env) :
    let st := evs.foldl (fun s e => (step cfg s e.1 e.2).1) ({} : St)
    (∀ e, (∀ dt, e ≠ .advance dt) → NotOverdue st → NotOverdue (step cfg st env e).1) ∧
    (∀ dt, 0 ≤ dt →
      (∀ t ∈ (step cfg st env (.advance dt)).1.timers, (step cfg st env (.advance dt)).1.now < t.due) ∨
      Ob.badOp "fuel" ∈ (step cfg st env (.advance dt)).2) :=
  ⟨fun e hne h => step_notOverdue cfg h0 h1 _ env e hne h,
   fun dt hdt => step_advance_exit cfg _ env dt hdt (reachable_inv cfg evs)⟩

/-- The timer is released with its request: in every reachable state every pending request timer belongs
    to an unresolved request (same due time) and no request has two timers — no timer survives the
    reply, the cancel or the close that resolved its request. -/
theorem C11_timer_released (cfg : Cfg) (evs : List (Env × Ev)) :
    let st := evs.foldl (fun s e => (step cfg s e.1 e.2).1) ({} : St)
    (∀ t ∈ st.timers, ∀ k, t.what = .mrtb k → ∃ q ∈ st.reqs, q.k = k ∧ q.pending = true ∧ q.due = t.due) ∧
    (st.timers.filterMap mrtbOf).Nodup := by
  have h := reachable_inv cfg evs
  exact ⟨h.timerPend, h.names⟩

/-- A request is armed, at issue, with a timer due at `issued + max(timeout, min_timeout)` (the plain
    client timeout when no minimum is given; a no-reply request written at once is born resolved and
    its timer is cancelled in the same breath), and the bound is never below either of them — so a
    group join (`min_timeout = 35.0` in `_group.py`, read from the source) gets at least 35 s. -/
theorem C11_min_timeout (cfg : Cfg) (st : St) (b : Nat) (owner : ReqOwner) (expect : Bool) (what : ReqWhat)
    (m : Option Rat) :
    let r := makeRequest cfg st b owner expect what m
    (∃ q ∈ r.1.reqs, q.k = r.2.1 ∧ q.pending = !syncFire st b expect ∧ q.issued = st.now ∧
        q.due = st.now + boundOf cfg m) ∧
    (syncFire st b expect = false → ({ what := .mrtb r.2.1, due := st.now + boundOf cfg m } : Timer) ∈ r.1.timers) ∧
    Ob.setTimer (.mrtb r.2.1) (st.now + boundOf cfg m) ∈ r.2.2.1 ∧
    cfg.timeout ≤ boundOf cfg m ∧ (∀ x, m = some x → x ≤ boundOf cfg m) ∧ boundOf cfg none = cfg.timeout ∧
    (clientJoinMinTimeout ≤ boundOf cfg (some clientJoinMinTimeout) ∧ clientJoinMinTimeout = 35) := by
  intro r
  obtain ⟨hk, hreqs, htim, hob, _⟩ := makeRequest_spec cfg st b owner expect what m
  have hle1 : cfg.timeout ≤ boundOf cfg m := by
    unfold boundOf
    cases m with
    | none => exact Rat.le_refl
    | some x =>
      simp only
      split
      · rename_i hlt; exact Rat.le_of_lt hlt
      · exact Rat.le_refl
  have hle2 : ∀ x, m = some x → x ≤ boundOf cfg m := by
    intro x hx; subst hx; simp only [boundOf]
    split
    · exact Rat.le_refl
    · rename_i hnl; exact Rat.not_lt.mp hnl
  have hle3 : clientJoinMinTimeout ≤ boundOf cfg (some clientJoinMinTimeout) := by
    simp only [boundOf]
    split
    · exact Rat.le_refl
    · rename_i hnl; exact Rat.not_lt.mp hnl
  refine ⟨⟨{ k := st.reqs.length, b := b, issued := st.now, due := st.now + boundOf cfg m,
             pending := !syncFire st b expect, grp := grpOf what, owner := owner }, ?_, ?_⟩,
    ?_, ?_, hle1, hle2, rfl, hle3, by decide +kernel⟩
  · show _ ∈ (makeRequest cfg st b owner expect what m).1.reqs
    rw [hreqs]; exact List.mem_append_right _ (List.mem_singleton.mpr rfl)
  · exact ⟨hk.symm, rfl, rfl, rfl⟩
  · intro hs
    show _ ∈ (makeRequest cfg st b owner expect what m).1.timers
    rw [htim, hk, hs]; exact mem_insertTimer.mpr (Or.inl rfl)
  · show _ ∈ (makeRequest cfg st b owner expect what m).2.2.1
    rw [hk]; exact hob

/-- A reply that arrives after the request was resolved (timed out or cancelled) is discarded: the step
    changes nothing in the client state — no other request, timer, operation or cache entry — and
    produces no observation besides noting the late reply. -/
theorem C11_late_reply_discarded (cfg : Cfg) (st : St) (env : Env) (k : Nat) (r : Res) (q : Req)
    (hq : reqGet st k = some q) (hp : q.pending = false) :
    step cfg st env (.fire k r) = ({ st with env := env }, [.late k]) :=
  step_late_reply cfg st env k r q hq hp

/-- When the timer of an unresolved request fires, the request is cancelled at the broker client, its
    owner is given `RequestTimedOutError` (the recorded failure is substituted for the cancellation),
    the request is resolved and its timer gone; with `disconnect_on_timeout` the broker client's
    connection is dropped in the same step, and without it it is not. -/
theorem C11_disconnect_on_timeout (cfg : Cfg) (st : St) (k : Nat) (q : Req)
    (hq : reqGet st k = some q) (hp : q.pending = true) :
    let r := exec cfg st (.timeoutFired k)
    r.2.1 = [.bcCancel k, .fired k (some .cancelled)] ∧
    r.2.2 = (reqDone (setReq st k (fun x => { x with timedOut := true, pending := false })) q.owner k (.err Kind.timedOut)).2
              ++ (if cfg.disconnectOnTimeout then [.disconnect q.b] else []) ∧
    (exec cfg r.1 (.disconnect q.b)).2.1 = [.bcDisconnect q.b] := by
  simp [exec, hq, hp]

/-- **The monitor is sound for the model.**  Every trace of the client model from the initial state - every
    sequence of API calls, completions, connection events and clock advances, with every environment answer -
    is accepted by the core rules of the monitor `Afkak.Monitor.C11` that is evaluated on the real client's traces
    (each request armed once with `max(timeout, min_timeout)` of a call for its group; after every step exactly
    the unresolved requests own a pending timer, none overdue; a timer is released only once its request is
    resolved; a late reply disturbs nothing; a clock timeout with `disconnect_on_timeout` is followed, in the
    same step, by exactly one disconnect of that broker client, and no disconnect happens otherwise) - for
    non-negative timeouts, in runs where no step exhausts the interpreter's fuel.  Proved by a simulation
    (`AfkakProofs/Client/MonC11.lean`: `Rel` between model state + pending action stack and monitor state). -/
theorem C11_model_traces_satisfy_monitor (cfg : Cfg) (h0 : 0 ≤ cfg.timeout) (h1 : 0 ≤ cfg.retryDelay)
    (evs : List (Env × Ev)) (hnf : NoFuel cfg {} evs) :
    Afkak.Monitor.C11.ok cfg (traceOf cfg {} evs) = true :=
  monitor_accepts_model cfg h0 h1 evs hnf

/-- Every reachable state has nothing overdue: whatever the events were, every unresolved request's bound
    (`issued + max(timeout, min_timeout)`) lies in the future or is now - a request is never unresolved after
    its bound (runs in which no step exhausts the interpreter's fuel). -/
theorem C11_resolved_by_bound (cfg : Cfg) (h0 : 0 ≤ cfg.timeout) (h1 : 0 ≤ cfg.retryDelay)
    (evs : List (Env × Ev)) (hnf : NoFuel cfg {} evs) :
    let st := evs.foldl (fun s e => (step cfg s e.1 e.2).1) ({} : St)
    ∀ q ∈ st.reqs, q.pending = true → st.now ≤ q.due := by
  intro st q hq hp
  have hI := trace_sound cfg h0 h1 evs {} {} (StepInv.init cfg) hnf
  exact hI.nover _ (hI.inv.pendTimer q hq hp)

/-- The OPERATION reports the timeout: when the timer of an unresolved coordinator request
    (`_send_request_to_coordinator`: join, sync, heartbeat, leave) fires, the same callback chain - four actions:
    the timeout, the request's completion with the substituted failure, the operation's failure path, its
    Deferred - makes the operation's Deferred fail with `RequestTimedOutError` (and with nothing else: it is the
    only result that chain emits for it).  For sends the timed-out request's payloads are reported as failed
    payloads with the same error (`C07_failed_payloads` on the kernel; the monitor's extra rule rejects a timeout
    that surfaces as a cancellation). -/
theorem C11_timeout_reported (cfg : Cfg) (st : St) (k r : Nat) (q : Req) (x : Srtc)
    (hq : reqGet st k = some q) (hp : q.pending = true) (ho : q.owner = .srtc r)
    (hx : srtcGet st r = some x) (hl : st.liveOps.contains x.o = true) :
    Ob.result x.o (.fail Kind.timedOut) ∈ (runActs cfg 4 st [.timeoutFired k] []).2 := by
  have hx' : List.find? (fun x => x.r == r) st.srtcs = some x := by simpa [srtcGet] using hx
  have hs : ∀ f, (setReq st k f).srtcs = st.srtcs := fun f => rfl
  have hlo : ∀ f, (setReq st k f).liveOps = st.liveOps := fun f => rfl
  have hl' : x.o ∈ st.liveOps := by simpa using hl
  simp [runActs, exec, hq, hp, ho, reqDone, srtcGet, hs, hx', setSrtc, hlo, hl']

/-! Non-vacuity: a request to a silent broker times out after exactly the bound and the connection is
    dropped; a request with a 35 s minimum is armed with 35 s; the late reply is discarded. -/
example :
    let cfg : Cfg := { timeout := 10, disconnectOnTimeout := true, bootHosts := [("boot", 9092)] }
    let st0 : St := { cache := { brokers := [(1, ⟨1, "h1", 9092⟩)] } }
    let s1 := step cfg st0 { shuffles := [[0]] } (.load 0 [])
    let s2 := step cfg s1.1 {} (.advance 10)
    let s3 := step cfg s2.1 {} (.fire 0 (.ok .garbage))
    s1.2 = [.bcNew 0 1 "h1" 9092, .mk 0 0 true (.metadata []), .setTimer (.mrtb 0) 10] ∧
    s2.2.take 2 = [.bcCancel 0, .fired 0 (some .cancelled)] ∧ Ob.bcDisconnect 0 ∈ s2.2 ∧
    s3.2 = [.late 0] := by decide +kernel

/-! ## C11 end to end: the client model composed with one broker-client model per broker (`Afkak/ClientCompose.lean`) -/

/-- **Whatever the broker clients below do** - connection attempts that fail (at once or later), connections that
    drop, re-sent requests, replies that arrive late or never, reconnect timers racing the request timers - a
    request issued through the client never outlives its bound: in every reachable state of the COMPOSED model
    (client model × one broker-client model per broker client; events are network-level: API calls, `connOk /
    connFail / lost / reply` per broker connection, clock) every unresolved request's bound `issued + max(timeout,
    min_timeout)` is now or in the future, i.e. the request was resolved (timed out if nothing else) when the clock
    reached it.  (`C11_resolved_by_bound` carried through the composition: the client component of the composed
    state only ever moves by client steps, `AfkakProofs/Client/B_ComposeBound.lean`; runs in which no step exhausts
    the interpreter's fuel.) -/
theorem C11_composed_resolved_by_bound (cfg : Afkak.ClientCompose.Cfg) (h0 : 0 ≤ cfg.cl.timeout) (h1 : 0 ≤ cfg.cl.retryDelay)
    (evs : List Afkak.ClientCompose.Ev) (hnf : Afkak.ClientCompose.NoFuelRun cfg {} evs) :
    let s := Afkak.ClientCompose.run cfg {} evs
    ∀ q ∈ s.cl.reqs, q.pending = true → s.cl.now ≤ q.due := by
  intro s q hq hp
  obtain ⟨m, hI⟩ := Afkak.ClientCompose.run_genF cfg (Afkak.ClientCompose.stepInvF cfg h0 h1) evs {}
    ⟨{}, StepInv.init cfg.cl⟩ hnf
  exact hI.nover _ (hI.inv.pendTimer q hq hp)

/-! Non-vacuity: a client that knows broker 1 sends a fetch; the broker client's connection attempt is refused,
    it backs off (1/2 s) and tries again, that attempt never completes; at the bound (10 s) the request is failed
    with `RequestTimedOutError` and, with disconnect_on_timeout, the broker client is told to disconnect - no
    step runs out of fuel. -/
example :
    let cfg : Afkak.ClientCompose.Cfg := { cl := { timeout := 10, disconnectOnTimeout := true, bootHosts := [("boot", 9092)] }, bc := ⟨fun _ => 1/2⟩ }
    let evs : List Afkak.ClientCompose.Ev :=
      [.api { shuffles := [[], [0]] } (.load 0 []), .api {} (.bootOk 0),
       .api {} (.bootReply 0 (.metadata [⟨1, "h1", 9092⟩] [⟨"t", 0, [⟨0, 0, 1⟩]⟩])),
       .api {} (.send 1 [("t", 0)] none true true), .connFail 0, .advance (1/2) [] [] {}, .advance (19/2) [] [] {}]
    Afkak.ClientCompose.NoFuelRun cfg {} evs ∧
    ((Afkak.ClientCompose.trace cfg {} evs).map (·.2)).drop 3 =
      [[.cl (.bcNew 0 1 "h1" 9092), .cl (.mk 0 0 true (.payloads [0] [("t", 0)])), .cl (.setTimer (.mrtb 0) 10), .connect 0 "h1" 9092],
       [.bc 0 (.setTimer (1/2))], [.connect 0 "h1" 9092],
       [.cl (.bcCancel 0), .cl (.fired 0 (some .cancelled)), .cl (.result 1 (.failedPayloads [] [(0, .brokerError 7)])),
        .cl (.bcDisconnect 0), .bc 0 (.fire 0 0 (.err .cancelled))]] := by
  refine ⟨by decide +kernel, by decide +kernel⟩

/-- **Disconnect-on-timeout, end to end** (the property's last sentence, with the broker-client model in place of
    the "contract"): in the composed model, let request `k` of the client layer be outstanding on broker client
    `b` (`rq`, not cancelled; correlation id `k`), `b` connected on connection `c`.  Routing the client layer's
    timeout observations (`bcCancel k`, `fired k cancelled`, `bcDisconnect b` - what `C11_disconnect_on_timeout`
    shows the timer's callback chain emits) to `b` makes `b` errback exactly that request at once, as the client
    layer booked (the interface agrees: no `mismatch`), and tell connection `c` to close; when that connection has
    gone (`lost b`) `b` asks for a new one iff another unanswered request remains; when it is established
    (`connOk b`) exactly the remaining unanswered requests are written, each once, in issue order, and the
    timed-out request is not among them.  (`Afkak.Compose.timeout_disconnect_resends` - the core of
    `C10_timeout_disconnect_resends` - through `route` and the composed `step`.) -/
theorem C11_composed_disconnect_resends (cfg : Afkak.ClientCompose.Cfg) (s : Afkak.ClientCompose.St) (cl : St)
    (hi : Afkak.ClientCompose.AllSInv s) (hsr : s.syncRefuse = 0)
    (b k : Nat) (q : Req) (x : Afkak.BrokerClient.St) (rq : Afkak.BrokerClient.Req) (c : Nat) (a : String × Int)
    (hq : reqGet cl k = some q) (hqb : q.b = b) (hx : s.bcs[b]? = some x) (ha : s.addr[b]? = some a)
    (hrq : rq ∈ x.reqs) (hid : rq.id = (k : Int)) (hlive : rq.cancelled = false)
    (hp : x.proto = some c) (hlo : x.losing = false) (hwf : x.wfail = false) (env : Env) :
    let r := Afkak.ClientCompose.route cfg cl s [.bcCancel k, .fired k (some .cancelled), .bcDisconnect b] [] []
    let l := Afkak.ClientCompose.step cfg r.1 (.lost b env)
    let o := Afkak.ClientCompose.step cfg l.1 (.connOk b [])
    r.2.1 = [.bc b (.fire rq.serial rq.id (.err .cancelled)), .bc b (.lose c)] ∧
    r.2.2 = Afkak.ClientCompose.syncOfCl [.bcCancel k, .fired k (some .cancelled), .bcDisconnect b] ∧
    l.2 = (if Afkak.Compose.remaining x rq.id = [] then [] else [.connect b a.1 a.2]) ∧
    (Afkak.Compose.remaining x rq.id ≠ [] →
      o.2 = (Afkak.Compose.remaining x rq.id).map (fun r => Afkak.ClientCompose.Ob.bc b (.write x.nconn r.serial r.id))) ∧
    rq.serial ∉ (Afkak.Compose.remaining x rq.id).map (·.serial) :=
  Afkak.ClientCompose.timeout_disconnect_resends_composed cfg s cl hi hsr b k q x rq c a hq hqb hx ha hrq hid hlive hp hlo hwf env

/-! Non-vacuity, on a whole composed run: two fetches on one connected broker client, the first times out at t=10
    (disconnect_on_timeout): it is cancelled and the connection told to close; when the connection has gone the
    broker client reconnects, and on the new connection the second request - and only it - is written again. -/
example :
    let cfg : Afkak.ClientCompose.Cfg := { cl := { timeout := 10, disconnectOnTimeout := true, bootHosts := [("boot", 9092)] }, bc := ⟨fun _ => 1/2⟩ }
    let evs : List Afkak.ClientCompose.Ev :=
      [.api { shuffles := [[], [0]] } (.load 0 []), .api {} (.bootOk 0),
       .api {} (.bootReply 0 (.metadata [⟨1, "h1", 9092⟩] [⟨"t", 0, [⟨0, 0, 1⟩, ⟨0, 1, 1⟩]⟩])),
       .api {} (.send 1 [("t", 0)] none true true), .connOk 0 [], .advance 5 [] [] {},
       .api {} (.send 2 [("t", 1)] none true true), .advance 5 [] [] {}, .lost 0 {}, .connOk 0 []]
    ((Afkak.ClientCompose.trace cfg {} evs).map (·.2)).drop 6 =
      [[.cl (.mk 1 0 true (.payloads [0] [("t", 1)])), .cl (.setTimer (.mrtb 1) 15), .bc 0 (.write 0 1 1)],
       [.cl (.bcCancel 0), .cl (.fired 0 (some .cancelled)), .cl (.result 1 (.failedPayloads [] [(0, .brokerError 7)])),
        .cl (.bcDisconnect 0), .bc 0 (.fire 0 0 (.err .cancelled)), .bc 0 (.lose 0)],
       [.connect 0 "h1" 9092], [.bc 0 (.write 1 1 1)]] := by
  decide +kernel

end Afkak.Props.C11

/- OBLIGATIONS
C11_bound
C11_nothing_overdue
C11_timer_released
C11_min_timeout
C11_late_reply_discarded
C11_disconnect_on_timeout
C11_model_traces_satisfy_monitor
C11_resolved_by_bound
C11_timeout_reported
C11_composed_resolved_by_bound
C11_composed_disconnect_resends
-/
/- OPEN_STATEMENTS
-/
