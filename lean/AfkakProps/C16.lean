import Afkak.Monitor.C16
import AfkakProofs.Group.Step
/-!
# C16 — generation fencing: no partition consumer outlives its group generation
Property theorems only; helper lemmas live in `AfkakProofs/Group/`.
All theorems quantify over EVERY configuration and EVERY event list (an event the state does not
enable is a no-op), i.e. over all rebalance histories, reply/timer interleavings and error kinds.
-/
namespace Afkak.Props.C16
open Afkak.Group Afkak.Consts Afkak.Monitor.C16

/-- Fencing invariant: in every reachable state a running partition consumer is one the group
    still holds, it carries the member's CURRENT generation and member id, and its partition is in
    the assignment of the last successful sync. -/
theorem C16_fenced (cfg : Cfg) (evs : List Ev) :
    ∀ c ∈ (final cfg evs).cons, c.phase = .running →
      c.held = true ∧ c.gen = (final cfg evs).gen ∧ c.member = (final cfg evs).member ∧
      (c.topic, c.part) ∈ (final cfg evs).asg := by
  intro c hc hr
  have h := final_sinv cfg evs
  have hh : c.held = true := (h.held_running c hc).mpr hr
  exact ⟨hh, h.held_cur c hc hh⟩

/-- While a join/sync exchange is being prepared or is in flight (consumers shutting down, join
    sent, leader loading partitions, sync sent) NO partition consumer is running: consumers of the
    previous generation never overlap a join, and none is started before the sync reply. -/
theorem C16_join_no_running (cfg : Cfg) (evs : List Ev)
    (hj : (final cfg evs).jpc = .prepare ∨ (final cfg evs).jpc = .join ∨ (∃ n, (final cfg evs).jpc = .loadParts n) ∨
          (final cfg evs).jpc = .sync) :
    ∀ c ∈ (final cfg evs).cons, c.phase ≠ .running := by
  intro c hc hr
  have h := final_sinv cfg evs
  have := h.mid_noheld hj c hc
  rw [(h.held_running c hc).mpr hr] at this
  cases this

/-- Once `Coordinator.stop` has begun no consumer is running (they were shut down or stopped
    first) and no rejoin is wanted any more. -/
theorem C16_stopping_quiesced (cfg : Cfg) (evs : List Ev) (hs : (final cfg evs).stopping = true) :
    (∀ c ∈ (final cfg evs).cons, c.phase ≠ .running) ∧ (final cfg evs).rejoinNeeded = false := by
  have h := final_sinv cfg evs
  refine ⟨fun c hc hr => ?_, h.stop_needed hs⟩
  have := h.stop_noheld hs c hc
  rw [(h.held_running c hc).mpr hr] at this
  cases this

/-- At most one join coroutine: `_rejoin_d` is set exactly while `_join_and_sync` is suspended. -/
theorem C16_one_join_coroutine (cfg : Cfg) (evs : List Ev) :
    ((final cfg evs).rejoinD = true ↔ (final cfg evs).jpc ≠ .idle) :=
  (final_sinv cfg evs).rd_jpc

/-- The source's error table stops the consumers (`on_group_leave`) for every eviction error —
    illegal generation, unknown member / invalid group, time-out — whether or not the member is
    stopping, and never ignores such an error. -/
theorem C16_eviction_table (stopping : Bool) (e : GErr) (h : isEviction e = true) :
    (rejoinRow stopping e).leave = true ∧ (rejoinRow stopping e).act ≠ .ignore ∧ (rejoinRow stopping e).act ≠ .fatal :=
  Afkak.Group.Tables.eviction_leave stopping e h

/-! Non-vacuity: a reachable state with running consumers of generation 5, and one in which a join
is in flight. -/
def exStable : List Ev :=
  [.start, .coordDone .ok, .metaDone .ok, .joinDone (.ok 1 5 false 0), .syncDone (.ok [(1, [0, 1])])]
example : ((final Cfg.default exStable).cons.map fun c => (c.phase, c.gen, c.member)) =
    [(.running, some 5, 1), (.running, some 5, 1)] := by decide +kernel
example : (final Cfg.default [.start, .coordDone .ok, .metaDone .ok]).jpc = .join := by decide +kernel
example : (final Cfg.default (exStable ++ [.stop])).stopping = false ∧
    (final Cfg.default (exStable ++ [.stop, .consumerDown 0 true, .consumerDown 1 true])).stopping = true := by decide +kernel

end Afkak.Props.C16

/- OBLIGATIONS
C16_fenced
C16_join_no_running
C16_stopping_quiesced
C16_one_join_coroutine
C16_eviction_table
-/
/- OPEN_STATEMENTS
-/
