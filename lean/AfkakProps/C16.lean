import Afkak.Monitor.C16
import AfkakProofs.Group.Tables
/-!
# C16 — generation fencing: no partition consumer outlives its group generation
Property theorems only; helper lemmas live in `AfkakProofs/Group/`.
-/
namespace Afkak.Props.C16
open Afkak.Group Afkak.Consts Afkak.Monitor.C16

/-- The source's error table stops the consumers (`on_group_leave`) for every eviction error —
    illegal generation, unknown member / invalid group, time-out — whether or not the member is
    stopping, and never ignores such an error. -/
theorem C16_eviction_table (stopping : Bool) (e : GErr) (h : isEviction e = true) :
    (rejoinRow stopping e).leave = true ∧ (rejoinRow stopping e).act ≠ .ignore ∧ (rejoinRow stopping e).act ≠ .fatal :=
  Afkak.Group.Tables.eviction_leave stopping e h

end Afkak.Props.C16

/- OBLIGATIONS
C16_eviction_table
-/
/- OPEN_STATEMENTS
-/
