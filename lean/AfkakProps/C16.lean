import Afkak.Monitor.C16
import AfkakProofs.Group.Fence
import AfkakProofs.Group.FencedTrace
import AfkakProofs.Group.DrainStep
import AfkakProofs.Group.OneJoin
import AfkakProofs.Group.HbStable
import AfkakProofs.Group.Compose
import AfkakProofs.Group.StopCalled
import AfkakProofs.Group.JoinLast
import AfkakProofs.Group.JoinIds
import AfkakProofs.Group.LeaveDrain
import AfkakProofs.Group.ComposedBase
import AfkakProofs.Group.ComposedFenced
import AfkakProofs.Group.StrictPartial
import AfkakProofs.Group.LeaveTrace
import AfkakProofs.Group.Graceful
import AfkakProofs.Group.StopFinal
import AfkakProofs.Group.SyncIds
import AfkakProps.Open.C16
/-!
# C16 — generation fencing: no partition consumer outlives its group generation
Property theorems only; helper lemmas live in `AfkakProofs/Group/`.
All theorems quantify over EVERY configuration and EVERY event list (an event the state does not
enable is a no-op), i.e. over all rebalance histories, reply/timer interleavings and error kinds.
The `…(toMSteps (run cfg evs)) = true` statements are about the very monitors the driver evaluates
on the implementation's traces.
-/
namespace Afkak.Props.C16
open Afkak.Group Afkak.Consts Afkak.Monitor.C16

/-- Fencing invariant: in every reachable state a running partition consumer is one the group
    still holds, it carries the member's CURRENT generation and member id, and its partition is in
    the assignment of the last successful sync. -/
theorem C16_fenced (cfg : Cfg) (evs : List Ev) :
    ∀ c ∈ (final cfg evs).cons, c.phase = .running →
      c.held = true ∧ c.gen = (final cfg evs).gen ∧ c.member = (final cfg evs).member ∧
      (c.topic, c.part) ∈ (final cfg evs).asg := by
  intro c hc hr
  have h := final_sinv cfg evs
  have hh : c.held = true := (h.held_running c hc).mpr hr
  exact ⟨hh, h.held_cur c hc hh⟩

/-- Consumers are started ONLY by a processed successful sync reply: one per assigned partition,
    in order, from `OFFSET_COMMITTED`, with the generation and member id the member has after that
    step (monitor `startsCommitted` on every model trace). -/
theorem C16_starts_committed (cfg : Cfg) (evs : List Ev) : startsCommitted (toMSteps (run cfg evs)) = true :=
  startsCommitted_run cfg evs

/-- Every successful join reply the member processes replaces its member id and generation by the
    reply's, as seen in the snapshot after THAT step (monitor `joinAdopted` on every model trace).
    That the ids are still the reply's when the consumers are started is `C16_starts_with_join_ids`. -/
theorem C16_join_adopted (cfg : Cfg) (evs : List Ev) : joinAdopted (toMSteps (run cfg evs)) = true :=
  joinAdopted_run cfg evs

/-- A JoinGroup request is observed only in a step after which NO consumer is running: every
    consumer of the previous generation has been shut down or stopped before the member (re)joins
    (monitor `joinNoRunning` on every model trace). -/
theorem C16_join_no_running (cfg : Cfg) (evs : List Ev) : joinNoRunning (toMSteps (run cfg evs)) = true :=
  joinNoRunning_run cfg evs

/-- While a join/sync exchange is being prepared or is in flight (consumers shutting down, join
    sent, leader loading partitions, sync sent) no partition consumer is running. -/
theorem C16_mid_join_no_running (cfg : Cfg) (evs : List Ev)
    (hj : (final cfg evs).jpc = .prepare ∨ (final cfg evs).jpc = .join ∨ (∃ n, (final cfg evs).jpc = .loadParts n) ∨
          (final cfg evs).jpc = .sync) :
    ∀ c ∈ (final cfg evs).cons, c.phase ≠ .running := by
  intro c hc hr
  have h := final_sinv cfg evs
  have := h.mid_noheld hj c hc
  rw [(h.held_running c hc).mpr hr] at this
  cases this

/-- Eviction (illegal generation, unknown member / invalid group id, request time-out) on a join,
    sync or heartbeat reply or reported by a consumer: in that very step every consumer is stopped
    (none is running afterwards) and the step issues no join or sync
    (monitor `evictionStopsFirst` on every model trace). -/
theorem C16_eviction_stops_first (cfg : Cfg) (evs : List Ev) : evictionStopsFirst (toMSteps (run cfg evs)) = true :=
  eviction_run cfg evs

/-- After stop only the leave: a step that leaves the member stopping (`Coordinator.stop` has begun
    or finished) issues no coordinator look-up, join, sync or heartbeat
    (monitor `afterStopOnlyLeave` on every model trace). -/
theorem C16_after_stop_only_leave (cfg : Cfg) (evs : List Ev) : afterStopOnlyLeave (toMSteps (run cfg evs)) = true :=
  afterStop_run cfg evs

/-- Once `Coordinator.stop` has begun no consumer is running and no rejoin is wanted any more. -/
theorem C16_stopping_quiesced (cfg : Cfg) (evs : List Ev) (hs : (final cfg evs).stopping = true) :
    (∀ c ∈ (final cfg evs).cons, c.phase ≠ .running) ∧ (final cfg evs).rejoinNeeded = false := by
  have h := final_sinv cfg evs
  refine ⟨fun c hc hr => ?_, h.stop_needed hs⟩
  have := h.stop_noheld hs c hc
  rw [(h.held_running c hc).mpr hr] at this
  cases this

/-- "After stop" is FOR EVER: `_stopping` is never reset, so once `Coordinator.stop` has begun NO
    continuation of the history — any events in any order, `start()` included — ever sends a coordinator
    look-up, JoinGroup, SyncGroup or heartbeat again, and the member is still stopping at its end.
    (`C16_after_stop_only_leave` says it of each step that ends stopping; this says nothing un-stops it.) -/
theorem C16_stop_is_final (cfg : Cfg) (evs tail : List Ev) (h : (final cfg evs).stopping = true) :
    (∀ x ∈ runFrom cfg (final cfg evs) tail, ∀ o ∈ x.2.1, isGroupReqOb o = false) ∧
    (final cfg (evs ++ tail)).stopping = true :=
  stop_is_final cfg evs tail h

/-- At most one join coroutine: `_rejoin_d` is set exactly while `_join_and_sync` is suspended, and
    `join_and_sync` starts a new one only when it is not. -/
theorem C16_one_join_coroutine (cfg : Cfg) (evs : List Ev) :
    ((final cfg evs).rejoinD = true ↔ (final cfg evs).jpc ≠ .idle) :=
  (final_sinv cfg evs).rd_jpc

/-- The source's error table stops the consumers (`on_group_leave`) for every eviction error. -/
theorem C16_eviction_table (stopping : Bool) (e : GErr) (h : isEviction e = true) :
    (rejoinRow stopping e).leave = true ∧ (rejoinRow stopping e).act ≠ .ignore ∧ (rejoinRow stopping e).act ≠ .fatal :=
  Afkak.Group.Tables.eviction_leave stopping e h

/-- The fencing MONITOR on every model trace: in every snapshot a running consumer carries the
    member's current generation and member id and its partition is in the assignment of the last
    processed successful sync reply (tracked by the monitor from the observed replies alone). -/
theorem C16_fenced_trace (cfg : Cfg) (evs : List Ev) : fenced (toMSteps (run cfg evs)) = true :=
  fenced_run cfg evs

/-- Full strength: a JoinGroup request is observed only when NO consumer is running or draining —
    also while `stop()` drains (since fix 05f4891 `on_join_prepare` parks while `_stop_draining`),
    also when a consumer's `shutdown()` raises or fails (the rest of the batch is stopped). -/
theorem C16_join_after_drain (cfg : Cfg) (evs : List Ev) : joinAfterDrain (toMSteps (run cfg evs)) = true :=
  joinAfterDrain_run cfg evs

/-- At most one join/sync request outstanding, as counted on the observed trace from requests,
    processed replies and observed cancellations (monitor `oneJoin`). -/
theorem C16_one_join (cfg : Cfg) (evs : List Ev) : oneJoin (toMSteps (run cfg evs)) = true :=
  oneJoin_run cfg evs

/-- Heartbeats are observed only while a stable member, as judged from the trace alone: after a
    processed successful sync reply with, since then, no processed heartbeat failure, no rejoin
    timer set, no coordinator look-up / join / leave issued and the member not stopping. -/
theorem C16_heartbeat_only_stable (cfg : Cfg) (evs : List Ev) : heartbeatOnlyStable (toMSteps (run cfg evs)) = true :=
  heartbeatOnlyStable_run cfg evs

/-- The STRICT reading of "after stop": once `stop()` has been CALLED on a started, not stopping
    member, no JoinGroup request is observed any more (monitor `noJoinAfterStopCalled`), although
    `ConsumerGroup.stop` first drains the consumers and only then lets `Coordinator.stop` set
    `_stopping`.  During that drain heartbeats continue (the consumers' final commits need a live
    membership) and a pending rejoin may still look the coordinator up and load metadata — it parks
    in `on_join_prepare`; from the moment `Coordinator.stop` has begun nothing but the leave goes out
    (`C16_after_stop_only_leave`, the reading the C16 text is checked under). -/
theorem C16_no_join_after_stop_called (cfg : Cfg) (evs : List Ev) : noJoinAfterStopCalled (toMSteps (run cfg evs)) = true :=
  noJoinAfterStopCalled_run cfg evs

/-- Consumers are started with exactly the member id and generation of the LAST processed successful
    join reply — what the coordinator knows the member by (monitor `startsWithJoinIds`, which threads
    that pair from the reply to every `consumerStart`).  Between the join reply and the sync reply of
    a member that is not stopping nothing rewrites the ids: no heartbeat is outstanding (abandoned at
    the join reply since fix 842f323, none sent while a rejoin is wanted), no consumer is live whose
    error could clear the member id, and no `stop()` drain coexists with a join exchange. -/
theorem C16_starts_with_join_ids (cfg : Cfg) (evs : List Ev) : startsWithJoinIds (toMSteps (run cfg evs)) = true :=
  startsWithJoinIds_run cfg evs

/-- … and so does every SyncGroup request: it quotes exactly the member id and generation of the last
    processed successful join reply (the follower's sync is sent by that very reply, the leader's by the
    partitions reply with the ids unchanged in between).  `startsWithJoinIdsFrom2` is `startsWithJoinIds`
    extended with the `sync` case (audit round 2, C16-3); it is proved of every model run here but is NOT
    YET the definition the driver evaluates on implementation traces (see `AfkakProofs/Group/SyncIds.lean`):
    on the code the ids of a SyncGroup request are checked by the comparison of observations with the model.
    The stale-sync trace of the audit is rejected by it (example below). -/
theorem C16_sync_quotes_join_ids (cfg : Cfg) (evs : List Ev) :
    startsWithJoinIdsFrom2 none (toMSteps (run cfg evs)) = true :=
  startsWithJoinIds2_run cfg evs

example : startsWithJoinIdsFrom2 none
    [⟨.joinDone (.ok 1 1 false 0), [.sync (some 7) 9 0], snap init⟩] = false := by decide
example : startsWithJoinIdsFrom2 none
    [⟨.joinDone (.ok 1 1 false 0), [.sync (some 1) 1 0], snap init⟩] = true := by decide

/-- Every heartbeat is sent by a member that is neither stopping nor wanting a rejoin, and quotes
    the member's CURRENT generation and member id (monitor `heartbeatIds`, with the snapshot before
    the step). -/
theorem C16_heartbeat_ids (cfg : Cfg) (evs : List Ev) : heartbeatIds (toMSteps (run cfg evs)) = true :=
  heartbeatIds_run cfg evs

/-- Within a step the JoinGroup request is the LAST observation: every `consumerShutdown` /
    `consumerStop` of that step happened before it (monitor `joinLast`; closes the step-granularity
    gap of `C16_join_after_drain`, which looks at the snapshot after the step). -/
theorem C16_join_last (cfg : Cfg) (evs : List Ev) : joinLast (toMSteps (run cfg evs)) = true :=
  joinLast_run cfg evs

/-- A consumer record's identity is fixed at its start: every partition consumer the group holds a
    record of was started by a `consumerStart` observation carrying exactly the record's topic,
    partition, generation and member id — no step ever rewrites them. -/
theorem C16_identity_fixed_at_start (cfg : Cfg) (evs : List Ev) : ∀ c ∈ (final cfg evs).cons,
    ∃ off, Ob.consumerStart c.cid c.topic c.part c.gen c.member off ∈ allObs (run cfg evs) :=
  ident_from_start cfg evs

/-- **Composition with the consumer package** (`Afkak.Consumer`, properties C02/C03/C13/C14): for ANY
    group history, any consumer record `c` the group holds and ANY run of the consumer model taken
    as that consumer's behaviour, every commit request it emits goes on the wire with the
    (generation, member id, partition) the consumer was STARTED with — the very `consumerStart`
    observation is in the group's trace — and whenever the consumer is still running that pair is
    the member's CURRENT generation and member id and the partition is currently assigned.
    NOT counted as an obligation: the first conjunct is true by construction of the tagging function
    `wireCommits` (the Lean content is `C16_identity_fixed_at_start` + `C16_fenced`; that the code sends these
    ids rests on the source check and on the full-stack stage's comparison of OffsetCommit identities).
    (`wireCommits` tags the consumer model's `commitReq` with the construction-time
    `commit_generation_id` / `commit_consumer_id`; that `consumer.py` assigns them only in
    `__init__`, sends them in `_send_commit_request`, and that `on_join_complete` passes the member's
    current ids is checked on the source by the extractor: `groupCommitIdentityFixed`.) -/
theorem C16_commit_fencing (cfg : Cfg) (evs : List Ev) (c : Con) (hc : c ∈ (final cfg evs).cons)
    (ccfg : Afkak.Consumer.Cfg) (script : List Afkak.Consumer.PEntry) (cevs : List Afkak.Consumer.Ev) :
    ∀ w ∈ wireCommits c (Afkak.Consumer.trace ccfg script cevs),
      (∃ off, Ob.consumerStart c.cid w.topic w.part w.gen w.member off ∈ allObs (run cfg evs)) ∧
      (c.phase = .running →
        w.gen = (final cfg evs).gen ∧ w.member = (final cfg evs).member ∧ (w.topic, w.part) ∈ (final cfg evs).asg) :=
  commit_fencing cfg evs c hc ccfg script cevs

/-- the extractor found the three source facts `C16_commit_fencing` rests on -/
theorem C16_commit_identity_source : groupCommitIdentityFixed = true := by decide


/-! ## Composition with the partition consumers' requests (`Afkak.GroupCompose`)

The product of the group model with the consumers' interface: besides the group's events, consumer
`cid` sends a fetch (`conFetch cid`) or an offset commit (`conCommit cid`, tagged with the generation
and member id of ITS record — the `Consumer` object's construction-time attributes); a consumer
event is enabled while that consumer is running or draining (the consumer package's guarantee: a
stopped `Consumer` has nothing outstanding and no timer, `C13_stop_leaves_nothing_fetching`,
`C13_stop_leaves_no_timer`).  The three monitors below are evaluated by the driver on the composed
traces of the full-stack stage (every fetch / commit call of every real partition consumer recorded
between the group's events); here they are proved of EVERY product run. -/
open Afkak.GroupCompose in
/-- Every commit request a partition consumer issues carries the generation and member id of its
    `consumerStart` observation — the generation in which it was started (monitor
    `composedCommitIds` on every product run). -/
theorem C16_composed_commit_ids (cfg : Cfg) (evs : List PEv) : composedCommitIds (prun cfg evs) = true :=
  composedCommitIds_run cfg evs

open Afkak.GroupCompose in
/-- Every fetch / commit request comes from a consumer that is running or draining in the snapshot
    before it — none from a consumer the group has stopped or whose shutdown has completed (monitor
    `composedLive`; on product runs this is the enabling condition, on the code it is what the
    full-stack stage checks of the real `Consumer`). -/
theorem C16_composed_live (cfg : Cfg) (evs : List PEv) : composedLive (prun cfg evs) = true :=
  composedLive_run cfg evs

open Afkak.GroupCompose in
/-- Generation fencing end to end: a consumer that had been started when the member sent a JoinGroup
    request (so: started in an earlier generation than the one that join asks for) issues no fetch
    and no commit after that JoinGroup (monitor `composedFenced` on every product run: when the join
    goes out every consumer has stopped — `C16_join_after_drain` — and stopped is for ever). -/
theorem C16_composed_fenced (cfg : Cfg) (evs : List PEv) : composedFenced (prun cfg evs) = true :=
  composedFenced_run cfg evs

/-- Once `Coordinator.stop` has begun (the LeaveGroup is sent by it), every partition consumer has
    stopped — unless the join coroutine is in the middle of its own `on_join_prepare` drain or
    a `ConsumerGroup.stop` is still waiting for consumers (reachable only through the nested stop of a
    fatal error: the two known findings; see `C16_leave_after_drain_counterexample`). -/
theorem C16_leave_after_drain_partial (cfg : Cfg) (evs : List Ev) (h1 : (final cfg evs).stopping = true)
    (h2 : (final cfg evs).jpc ≠ .prepare) (h3 : (final cfg evs).stops = []) :
    ∀ c ∈ (final cfg evs).cons, c.phase = .stopped :=
  stopping_all_stopped cfg evs h1 h2 h3

/-- The leave MONITOR on every history in which neither known finding's situation occurs
    (`leaveDuringDrain`, a decidable predicate of the event list: the step that sends the LeaveGroup
    leaves the join coroutine in the middle of `on_join_prepare` — finding
    `stop-kills-consumers-draining-for-rejoin`, reached by a `stop()` or a fatal error during a rejoin's
    drain — or a `ConsumerGroup.stop` still waiting for its consumers — finding
    `fatal-error-stop-leaves-while-stop-drains`): the LeaveGroup request is observed only in a step
    after which NO partition consumer is running or draining.  The Lean content beyond the state
    theorem above: a step that sends the leave ends with `_stopping` set (`step_leave_stopping`: the
    leave comes from `Coordinator.stop` only). -/
theorem C16_leave_after_drain_trace_partial (cfg : Cfg) (evs : List Ev) (h : leaveDuringDrain cfg evs = false) :
    Afkak.Monitor.C16Leave.leaveAfterDrain (toMSteps (run cfg evs)) = true :=
  leaveAfterDrain_run cfg evs h

def exCfg : Cfg := { initialBackoffMs := 1000, retryBackoffMs := 125, fatalBackoffMs := 10000, heartbeatMs := 5000 }

/-! Non-vacuity: a reachable state with running consumers of generation 5, one with a join in
flight, a stop that waits for consumers, and an eviction that stops them. -/
def exStable : List Ev :=
  [.start, .coordDone .ok, .metaDone .ok, .joinDone (.ok 1 5 false 0), .syncDone (.ok [(1, [0, 1])])]
example : ((final exCfg exStable).cons.map fun c => (c.phase, c.gen, c.member)) =
    [(.running, some 5, 1), (.running, some 5, 1)] := by decide +kernel
example : (final exCfg [.start, .coordDone .ok, .metaDone .ok]).jpc = .join := by decide +kernel
example : (final exCfg (exStable ++ [.stop])).stopping = false ∧
    (final exCfg (exStable ++ [.stop, .consumerDown 0 true, .consumerDown 1 true])).stopping = true := by decide +kernel
example : ((final exCfg (exStable ++ [.advance 5, .fire 0 none, .hbDone (.err .illegalGeneration)])).cons.map (·.phase)) =
    [.stopped, .stopped] := by decide +kernel

/-- The strict reading of "after stop only the leave" is FALSE of the code (known finding
    `group-requests-during-stop-drain`): a stable member with two consumers; `stop()` starts draining
    them; the heartbeat timer fires during the drain and a heartbeat goes out. -/
theorem C16_strict_after_stop_counterexample : ¬ Open.C16_after_stop_called_only_leave := by
  intro h
  have := h exCfg (exStable ++ [.stop, .advance 5, .fire 0 none])
  revert this
  decide +kernel

/-- The strict reading holds of EVERY history in which the known finding's situation does not occur
    (`timerRequestDuringStopDrain`: a timer firing — heartbeat tick, rejoin or coordinator-retry timer —
    that sends a heartbeat / coordinator look-up while `ConsumerGroup.stop` is still draining the
    consumers, i.e. `_stop_draining` set and `Coordinator.stop` not begun).  So the ONLY group requests
    after `stop()` was called are those: no reply, consumer event, `start()` or second `stop()` sends
    anything but the leave.  The gap to `Open.C16_after_stop_called_only_leave` is exactly the finding
    `group-requests-during-stop-drain`. -/
theorem C16_after_stop_called_only_leave_partial (cfg : Cfg) (evs : List Ev)
    (h : timerRequestDuringStopDrain cfg evs = false) : strictAfterStop (toMSteps (run cfg evs)) = true :=
  strictAfterStop_run cfg evs h

/-! Non-vacuity: `stop()` on a stable member with two consumers, during the drain a consumer reports a
rebalance (a rejoin timer is set), a heartbeat tick that sends nothing (not due: refused) and the
first consumer finishes, then the second: the leave goes out — the hypothesis holds although the drain
is not empty of events; on the counterexample's history it fails. -/
example : timerRequestDuringStopDrain exCfg (exStable ++ [.stop, .consumerErr 1 .rebalanceInProgress, .fire 0 none,
    .consumerDown 0 true, .advance 1, .consumerDown 1 true, .leaveDone .ok]) = false := by decide +kernel
example : timerRequestDuringStopDrain exCfg (exStable ++ [.stop, .advance 5, .fire 0 none]) = true := by decide +kernel

/-- The graceful-shutdown clause is FALSE of the code when `stop()` arrives while a rejoin is
    draining the consumers: stable with two consumers, RebalanceInProgress on the heartbeat, the
    rejoin reaches `on_join_prepare` (both consumers shutting down), `stop()`, leave reply — the
    cancelled join hard-stops both consumers (`consumerStop 0`, `consumerStop 1`) mid-shutdown. -/
theorem C16_graceful_drain_counterexample : ¬ Open.C16_graceful_drain := by
  intro h
  have := h exCfg (exStable ++ [.advance 5, .fire 0 none, .hbDone (.err .rebalanceInProgress), .advance 1, .fire 2 none,
    .coordDone .ok, .metaDone .ok, .stop, .leaveDone .ok])
  revert this
  decide +kernel

/-- The graceful-shutdown clause holds of EVERY history in which the known finding's situation does not
    occur (`stopKillsPrepareDrain`, a decidable predicate of the event list: a `stop()` is called on a
    member that is not stopping, or the reply to a LeaveGroup arrives, while the join coroutine waits in
    `on_join_prepare` for the previous generation's consumers — `Coordinator.stop` then cancels that join
    and the cancelled `DeferredList` kills the draining consumers).  Outside it a consumer is hard-stopped
    only (a) in a step that processes an eviction or fatal error — the generated error table stops the
    consumers for no other error kind (`Tables.benign_row`) —, (b) when a shutdown Deferred fails, or
    (c) when the `shutdown()` of a consumer the environment has rigged is attempted in that very step (the
    monitor's `faulty` list covers every rigged record: invariant `QL`, kept by `step_qid`).  The gap to
    `Open.C16_graceful_drain` is exactly the finding `stop-kills-consumers-draining-for-rejoin` (its
    leave-reply half also covers the nested stop of a FATAL error that arrives during a rejoin's drain and
    has to wait for the leave reply: the kill then happens one step after the error). -/
theorem C16_graceful_drain_partial (cfg : Cfg) (evs : List Ev) (h : stopKillsPrepareDrain cfg evs = false) :
    gracefulDrain (toMSteps (run cfg evs)) = true :=
  gracefulDrain_run cfg evs h

/-! Non-vacuity: a rebalance whose drain completes (both consumers shut down gracefully, the JoinGroup goes
out), then an eviction that hard-stops the new consumers, then a `stop()` — the hypothesis holds and
consumers ARE hard-stopped (by the eviction); on the counterexample's history it fails. -/
def exRebalance : List Ev :=
  exStable ++ [.advance 5, .fire 0 none, .hbDone (.err .rebalanceInProgress), .advance 1, .fire 2 none, .coordDone .ok, .metaDone .ok,
    .consumerDown 0 true, .consumerDown 1 true, .joinDone (.ok 1 6 false 0), .syncDone (.ok [(1, [0])]),
    .consumerErr 2 .illegalGeneration, .stop]
example : stopKillsPrepareDrain exCfg exRebalance = false ∧
    ((run exCfg exRebalance).any fun x => x.2.1.any isStopOb) = true := by decide +kernel
example : stopKillsPrepareDrain exCfg (exStable ++ [.advance 5, .fire 0 none, .hbDone (.err .rebalanceInProgress), .advance 1, .fire 2 none,
    .coordDone .ok, .metaDone .ok, .stop, .leaveDone .ok]) = true := by decide +kernel

/-- "The member leaves only when no consumer is live" is FALSE of the code: a stable member with two
    consumers; `stop()` starts draining them; consumer 0 fails with a non-Kafka error; the nested
    `self.stop(error)` of `rejoin_after_error` is not refused, finds `self.consumers` empty and sends
    the LeaveGroup while consumer 1 is still draining (known finding
    `fatal-error-stop-leaves-while-stop-drains`; the same for a second USER `stop()` was a defect and
    is fixed: `userStop` refuses it). -/
theorem C16_leave_after_drain_counterexample : ¬ Open.C16_leave_after_drain := by
  intro h
  have := h exCfg (exStable ++ [.stop, .consumerErr 0 .nonKafka])
  revert this
  decide +kernel

/-! Non-vacuity of `C16_leave_after_drain_partial` (an ordinary stop: drained, leave sent) and of the
composed theorems (a product run with real requests: fetch and commit of a running consumer, the
commit of a draining one during the rebalance, and a refused one after it stopped). -/
example : (final exCfg (exStable ++ [.stop, .consumerDown 0 true, .consumerDown 1 true])).stopping = true ∧
    (final exCfg (exStable ++ [.stop, .consumerDown 0 true, .consumerDown 1 true])).jpc ≠ .prepare ∧
    (final exCfg (exStable ++ [.stop, .consumerDown 0 true, .consumerDown 1 true])).stops = [] ∧
    (final exCfg (exStable ++ [.stop, .consumerDown 0 true, .consumerDown 1 true])).leaveWait.isSome = true := by decide +kernel

/-! Non-vacuity of `C16_leave_after_drain_trace_partial`: an ordinary stop (drained, leave sent), and a
rebalance whose drain completes before `stop()` — the hypothesis holds and a leave IS sent; on the two
counterexample histories it fails. -/
example : leaveDuringDrain exCfg (exStable ++ [.stop, .consumerDown 0 true, .consumerDown 1 true]) = false ∧
    ((run exCfg (exStable ++ [.stop, .consumerDown 0 true, .consumerDown 1 true])).any fun x => x.2.1.any Afkak.Monitor.C16Leave.isLeaveOb) = true := by
  decide +kernel
example : leaveDuringDrain exCfg (exStable ++ [.stop, .consumerErr 0 .nonKafka]) = true := by decide +kernel
example : leaveDuringDrain exCfg (exStable ++ [.advance 5, .fire 0 none, .hbDone (.err .rebalanceInProgress), .advance 1, .fire 2 none,
    .coordDone .ok, .metaDone .ok, .stop]) = true := by decide +kernel

open Afkak.GroupCompose in
example : ((prun exCfg (exStable.map .grp ++ [.conFetch 0, .conCommit 1, .grp (.advance 5), .grp (.fire 0 none),
      .grp (.hbDone (.err .rebalanceInProgress)), .grp (.advance 1), .grp (.fire 2 none), .grp (.coordDone .ok), .grp (.metaDone .ok),
      .conCommit 0, .grp (.consumerDown 0 true), .conCommit 0])).flatMap (·.reqs)) =
    [.fetch 0, .commit 1 (some 5) 1, .commit 0 (some 5) 1, .refused] := by decide +kernel

/-! Non-vacuity of the composition: the first consumer of `exStable`, behaving as a consumer-model run
that processes offset 42 and auto-commits it, puts exactly one commit on the wire — with generation 5,
member 1, its own partition. -/
def exConsumerCfg : Afkak.Consumer.Cfg :=
  { group := true, autoN := 1, autoS := 0, bufInit := 100, bufMax := none, retryInit := 1, retryMax := 2, maxAttempts := 0, reset := none }
example : ((final exCfg exStable).cons.head?.map fun c =>
      wireCommits c (Afkak.Consumer.trace exConsumerCfg [⟨[], .ok⟩]
        [.start Afkak.Consts.offsetCommitted, .offsetFetchOk 0 41, .fetchOk 1 ⟨[⟨42, 0⟩], .done⟩])) =
    some [⟨some 5, 1, 1, 0, 42⟩] := by decide +kernel

end Afkak.Props.C16

/- OBLIGATIONS
C16_fenced
C16_starts_committed
C16_join_adopted
C16_join_no_running
C16_mid_join_no_running
C16_eviction_stops_first
C16_after_stop_only_leave
C16_stopping_quiesced
C16_eviction_table
C16_fenced_trace
C16_join_after_drain
C16_one_join
C16_heartbeat_only_stable
C16_identity_fixed_at_start
C16_heartbeat_ids
C16_join_last
C16_strict_after_stop_counterexample
C16_graceful_drain_counterexample
C16_no_join_after_stop_called
C16_starts_with_join_ids
C16_composed_commit_ids
C16_composed_live
C16_composed_fenced
C16_leave_after_drain_partial
C16_leave_after_drain_counterexample
C16_after_stop_called_only_leave_partial
C16_leave_after_drain_trace_partial
C16_graceful_drain_partial
C16_stop_is_final
C16_sync_quotes_join_ids
-/
/- OPEN_STATEMENTS
C16_after_stop_called_only_leave
C16_graceful_drain
C16_leave_after_drain
-/
