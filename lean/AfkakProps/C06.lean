import Afkak.Monitor.C06
import AfkakProofs.BrokerClient.Frame
import AfkakProofs.BrokerClient.SimC06
import AfkakProofs.BrokerClient.MonC06
/-!
# C06 — each request completes exactly once, with the response bearing its own id
Property theorems only; helper lemmas live in `AfkakProofs/BrokerClient/`.

Architecture: `Monitor.C06.accepts` is the decidable predicate the driver evaluates on traces recorded
from the real `_KafkaBrokerClient`.  `C06_monitor_sound` proves it of every trace of the model;
`C06_at_most_once_of_accepted` (and `MonC06.causes`, `MonC06.minv_run`) derive the statements of the
property from acceptance alone, so they hold of every accepted trace of the implementation too.
"A request" is an incarnation: the `serial`-th Deferred handed out by `makeRequest`.
-/
namespace Afkak.Props.C06
open Afkak.Frame Afkak.BrokerClient Afkak.Monitor.C06

/-- The monitor that the driver evaluates on the implementation's traces accepts every trace of
    the model: any event list, any retry policy, any broker address. -/
theorem C06_monitor_sound (cfg : Cfg) (host port : Nat) (evs : List Ev) :
    accepts (trace cfg (St.init host port) evs) = true := by
  simp only [accepts]
  rw [← abs06_init host port, sim06_run cfg _ evs (sinv_init host port)]
  rfl

/-- At most once, for ANY trace the monitor accepts (so also for an accepted trace of the
    implementation): no serial fires twice. -/
theorem C06_at_most_once_of_accepted (tr : List (Ev × List Ob)) (h : accepts tr = true) :
    (firedOf tr).Nodup := by
  simp only [accepts, Option.isSome_iff_exists] at h
  obtain ⟨m, hm⟩ := h
  have := (minv_run tr MSt.init m [] minv_init hm).nodup
  simpa using this

/-- Any event list fires each request's Deferred at most once. -/
theorem C06_at_most_once (cfg : Cfg) (host port : Nat) (evs : List Ev) :
    (firedOf (trace cfg (St.init host port) evs)).Nodup :=
  C06_at_most_once_of_accepted _ (C06_monitor_sound cfg host port evs)

/-- Exactly once: after any event list, the Deferreds handed out so far (serials `< nmake`) are
    partitioned into those still outstanding (in the table, not cancelled) and those that have
    fired, and the latter fired once. -/
theorem C06_exactly_once (cfg : Cfg) (host port : Nat) (evs : List Ev) :
    let s := run cfg (St.init host port) evs
    let F := firedOf (trace cfg (St.init host port) evs)
    F.Nodup ∧ (∀ k ∈ F, k < s.nmake) ∧
    (∀ r ∈ s.reqs, r.serial < s.nmake) ∧
    (∀ k, k < s.nmake → ((∃ r ∈ s.reqs, r.serial = k ∧ r.cancelled = false) ↔ k ∉ F)) := by
  intro s F
  have hrun := sim06_run cfg (St.init host port) evs (sinv_init host port)
  rw [abs06_init] at hrun
  have hi := minv_run _ MSt.init _ [] minv_init hrun
  simp only [List.nil_append] at hi
  have hsi := sinv_run cfg (St.init host port) evs (sinv_init host port)
  refine ⟨hi.nodup, hi.firedLt, hsi.serialLt, ?_⟩
  intro k hk
  have hlive : ∀ l, l ∈ (abs06 s).live ↔ ∃ r ∈ s.reqs, r.cancelled = false ∧ proj r = l := by
    intro l; simp [abs06, absLive, and_assoc]
  constructor
  · rintro ⟨r, hr, rfl, hc⟩ hF
    exact hi.disj (proj r) ((hlive _).mpr ⟨r, hr, hc, rfl⟩) hF
  · intro hF
    rcases hi.cover k hk with ⟨l, hl, rfl⟩ | h'
    · obtain ⟨r, hr, hc, rfl⟩ := (hlive l).mp hl
      exact ⟨r, hr, rfl, hc⟩
    · exact absurd h' hF

/-- The firing causes are exactly: the frame carrying the request's id (with that frame's bytes),
    its own cancel, close (or a request made after close), the write of a request that expects no
    reply, a failed write — at every reachable state, for every event. -/
theorem C06_causes (cfg : Cfg) (host port : Nat) (evs : List Ev) (e : Ev) :
    let s := run cfg (St.init host port) evs
    ∀ k i r, Ob.fire k i r ∈ (step cfg s e).2 → Cause (abs06 s) e (step cfg s e).2 k i r := by
  intro s k i r hm
  have hsi := sinv_run cfg (St.init host port) evs (sinv_init host port)
  have hstep := sim06_step cfg s e hsi
  have hx : (k, i, r) ∈ fires (step cfg s e).2 := (mem_fires _ k i r).mp hm
  exact causes _ _ e _ hstep (k, i, r) hx

/-- A Deferred fires with response bytes `b` only in the step that received the bytes completing
    a packet `b` whose first four bytes are the request's correlation id. -/
theorem C06_own_response (cfg : Cfg) (host port : Nat) (evs : List Ev) (e : Ev) (k : Nat) (i : Int) (b : Bytes) :
    let s := run cfg (St.init host port) evs
    Ob.fire k i (.ok b) ∈ (step cfg s e).2 →
      ∃ chunk, e = .bytesIn chunk ∧ b ∈ (feed s.rbuf chunk).frames ∧ corrId b = some i ∧ s.proto.isSome = true := by
  intro s hm
  exact C06_causes cfg host port evs e k i (.ok b) hm


/-- No crosstalk, for every state and every sequence of packets delivered by one `dataReceived`:
    (1) a request none of the packets carries the id of stays in the table, untouched;
    (2) whatever fires, fires with the bytes of a packet carrying its own id, and was in the table
    and not cancelled — so a packet with an unknown or tombstoned id fires nothing. -/
theorem C06_no_crosstalk (fs : List Bytes) : ∀ (s : St),
    (∀ r ∈ s.reqs, (∀ b ∈ fs, corrId b ≠ some r.id) → r ∈ (handleFrames s fs).1.reqs) ∧
    (∀ k i res, Ob.fire k i res ∈ (handleFrames s fs).2.1 →
        ∃ b ∈ fs, res = .ok b ∧ corrId b = some i ∧ ∃ r ∈ s.reqs, r.serial = k ∧ r.id = i ∧ r.cancelled = false) := by
  induction fs with
  | nil => intro s; simp [handleFrames]
  | cons f fs ih =>
    intro s
    cases hid : corrId f with
    | none =>
      simp only [handleFrames, hid]
      exact ⟨fun r hr _ => hr, by simp⟩
    | some id =>
      simp only [handleFrames, hid]
      obtain ⟨i1, i2⟩ := ih (handleResponse s id f).1
      have e : (handleResponse s id f).1.reqs = s.reqs.filter (fun r => r.id != id) := rfl
      rw [e] at i1 i2
      refine ⟨?_, ?_⟩
      · intro r hr hb
        apply i1 r
        · apply List.mem_filter.mpr ⟨hr, ?_⟩
          have := hb f (by simp)
          rw [hid] at this
          simp only [ne_eq, Option.some.injEq] at this
          simp [Ne.symm this]
        · intro b hb'; exact hb b (by simp [hb'])
      · intro k i res hm
        rcases List.mem_append.mp hm with hm | hm
        · simp only [handleResponse] at hm
          split at hm
          · simp only [List.mem_map, List.mem_filter] at hm
            obtain ⟨r, ⟨hr, hc⟩, he⟩ := hm
            simp only [Ob.fire.injEq] at he
            obtain ⟨rfl, rfl, rfl⟩ := he
            simp only [Bool.and_eq_true, beq_iff_eq, Bool.not_eq_eq_eq_not, Bool.not_true] at hc
            exact ⟨f, by simp, rfl, by rw [hid, hc.1], r, hr, rfl, rfl, hc.2⟩
          · simp at hm
        · obtain ⟨b, hb, h1, h2, r, hr, h3, h4, h5⟩ := i2 k i res hm
          exact ⟨b, by simp [hb], h1, h2, r, (List.mem_filter.mp hr).1, h3, h4, h5⟩

/-- Reassembly: however the transport cuts the byte stream of well-formed frames (each no longer
    than a Kafka size can say), the protocol delivers exactly those frames, in order, leaves nothing
    buffered and does not drop the connection. -/
theorem C06_reassembly (fs : List Bytes) (hf : ∀ f ∈ fs, f.length < 2 ^ 31) (chunks : List Bytes)
    (hc : chunks.flatten = encodeAll fs) :
    feedAll [] chunks = ⟨fs, [], false⟩ := by
  have hmax : Afkak.Consts.kafkaMaxLength < 2 ^ 32 := by decide
  have hle : ∀ f ∈ fs, f.length ≤ Afkak.Consts.kafkaMaxLength := by
    intro f hm; have := hf f hm
    have : (2:Nat) ^ 31 - 1 ≤ Afkak.Consts.kafkaMaxLength := by decide
    omega
  obtain ⟨h1, h2, h3⟩ := feedAllWith_eq_parse Afkak.Consts.kafkaMaxLength chunks [] (stuck_nil _)
  have hp := parse_encodeAll _ hmax fs hle []
  simp only [List.append_nil, parse_short _ [] (by simp)] at hp
  simp only [List.nil_append, hc, hp] at h1 h2 h3
  have h3' := h3 trivial
  simp only [feedAll]
  cases hfa : feedAllWith Afkak.Consts.kafkaMaxLength [] chunks
  simp_all

/-- Oversize: once the stream reaches, at a frame boundary, a length prefix that no Kafka size can
    be (≥ 2^31, i.e. negative as an int32), the connection is terminated, and exactly the frames
    before it have been delivered: nothing from it or after it, however the stream is cut. -/
theorem C06_oversize (fs : List Bytes) (hf : ∀ f ∈ fs, f.length < 2 ^ 31) (a b c d : UInt8)
    (hbig : 2 ^ 31 ≤ be32 a b c d) (tail : Bytes) (chunks : List Bytes)
    (hc : chunks.flatten = encodeAll fs ++ a :: b :: c :: d :: tail) :
    (feedAll [] chunks).frames = fs ∧ (feedAll [] chunks).exceeded = true := by
  have hmax : Afkak.Consts.kafkaMaxLength < 2 ^ 32 := by decide
  have hlim : Afkak.Consts.kafkaMaxLength < 2 ^ 31 := by decide
  have hle : ∀ f ∈ fs, f.length ≤ Afkak.Consts.kafkaMaxLength := by
    intro f hm; have := hf f hm
    have : (2:Nat) ^ 31 - 1 ≤ Afkak.Consts.kafkaMaxLength := by decide
    omega
  obtain ⟨h1, h2, _⟩ := feedAllWith_eq_parse Afkak.Consts.kafkaMaxLength chunks [] (stuck_nil _)
  have hp := parse_encodeAll _ hmax fs hle (a :: b :: c :: d :: tail)
  rw [parse_cons4] at hp
  have hgt : be32 a b c d > Afkak.Consts.kafkaMaxLength := by omega
  simp only [hgt, if_true, List.append_nil] at hp
  simp only [List.nil_append, hc, hp] at h1 h2
  exact ⟨h1, h2⟩

/-! Non-vacuity: a run in which Deferreds do fire — one by its own response (delivered in two
chunks, after an unsolicited frame), one by cancel, one by close — and a late response to the
cancelled request fires nothing. -/
def demo : List Ev :=
  [.make 5 true, .make 6 true, .make 7 true, .connOk, .bytesIn [0, 0, 0, 4, 0, 0, 0, 9, 0, 0, 0, 5, 0, 0],
   .bytesIn [0, 5, 1], .cancel 6, .bytesIn [0, 0, 0, 4, 0, 0, 0, 6], .close]
example : (trace ⟨fun _ => 1⟩ (St.init 1 9092) demo).map (·.2) =
    [[.connect 1 9092], [], [], [.write 0 0 5, .write 0 1 6, .write 0 2 7], [.unexpected 9],
     [.fire 0 5 (.ok [0, 0, 0, 5, 1])], [.fire 1 6 (.err .cancelled)], [], [.lose 0, .fire 2 7 (.err .clientError)]] := by
  decide
example : firedOf (trace ⟨fun _ => 1⟩ (St.init 1 9092) demo) = [0, 1, 2] := by decide

/-! Non-vacuity (framing) -/
example : ∃ a b c d : UInt8, 2 ^ 31 ≤ be32 a b c d := ⟨0x80, 0, 0, 0, by decide⟩
example : feedAll [] [[0, 0], [0, 2, 7], [9, 0, 0, 0, 1], [5]] = ⟨[[7, 9], [5]], [], false⟩ := by decide
example : [[0, 0], [0, 2, 7], [9, 0, 0, 0, 1], [5]].flatten = encodeAll [[(7 : UInt8), 9], [5]] := by decide
example : (feedAll [] [[0, 0, 0, 1, 7, 0xff], [0xff, 0xff, 0xff, 0, 0, 0, 1, 5]]).frames = [[7]]
    ∧ (feedAll [] [[0, 0, 0, 1, 7, 0xff], [0xff, 0xff, 0xff, 0, 0, 0, 1, 5]]).exceeded = true := by decide

end Afkak.Props.C06

/- OBLIGATIONS
C06_monitor_sound
C06_at_most_once_of_accepted
C06_at_most_once
C06_exactly_once
C06_causes
C06_own_response
C06_no_crosstalk
C06_reassembly
C06_oversize
-/
/- OPEN_STATEMENTS
-/
