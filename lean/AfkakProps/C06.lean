import Afkak.Monitor.C06
import AfkakProofs.BrokerClient.Frame
import AfkakProofs.BrokerClient.SimC06
import AfkakProofs.BrokerClient.MonC06
import AfkakProofs.BrokerClient.Route
import AfkakProofs.BrokerClient.Boot
import AfkakProofs.BrokerClient.BootSingle
import AfkakProofs.BrokerClient.Equiv
import AfkakProofs.BrokerClient.Short
import AfkakProofs.BrokerClient.Reent06
import AfkakProofs.BrokerClient.Term
import AfkakProofs.BrokerClient.Deliver
import AfkakProofs.BrokerClient.Partition
import AfkakProps.Open.C06
/-!
# C06 — each request completes exactly once, with the response bearing its own id
Property theorems only; helper lemmas live in `AfkakProofs/BrokerClient/`.

Architecture: `Monitor.C06.accepts` is the decidable predicate the driver evaluates on traces recorded
from the real `_KafkaBrokerClient`.  `C06_monitor_sound` proves it of every trace of the model;
`C06_at_most_once_of_accepted` (and `MonC06.causes`, `MonC06.minv_run`) derive the statements of the
property from acceptance alone, so they hold of every accepted trace of the implementation too.
"A request" is an incarnation: the `serial`-th Deferred handed out by `makeRequest`.
-/
namespace Afkak.Props.C06
open Afkak.Frame Afkak.BrokerClient Afkak.Monitor.C06

/-- The monitor that the driver evaluates on the implementation's traces accepts every trace of
    the model: any event list, any retry policy, any broker address. -/
theorem C06_monitor_sound (cfg : Cfg) (host port : Nat) (evs : List Ev) :
    accepts (trace cfg (St.init host port) evs) = true := by
  simp only [accepts]
  rw [← abs06_init host port, sim06_run cfg _ evs (sinv_init host port)]
  rfl

/-- At most once, for ANY trace the monitor accepts (so also for an accepted trace of the
    implementation): no serial fires twice. -/
theorem C06_at_most_once_of_accepted (tr : List (Ev × List Ob)) (h : accepts tr = true) :
    (firedOf tr).Nodup := by
  simp only [accepts, Option.isSome_iff_exists] at h
  obtain ⟨m, hm⟩ := h
  have := (minv_run tr MSt.init m [] minv_init hm).nodup
  simpa using this

/-- Any event list fires each request's Deferred at most once. -/
theorem C06_at_most_once (cfg : Cfg) (host port : Nat) (evs : List Ev) :
    (firedOf (trace cfg (St.init host port) evs)).Nodup :=
  C06_at_most_once_of_accepted _ (C06_monitor_sound cfg host port evs)

/-- "Exactly once" as a safety statement — at most once + never orphaned: after any event list, the
    Deferreds handed out so far (serials `< nmake`) are partitioned into those still outstanding (in
    the table, not cancelled) and those that have fired, and the latter fired once.  That an
    outstanding request DOES complete is `C06_delivery` (its reply arrives), `C06_causes` (cancel,
    failed write, no-reply write) and `C06_close_completes_all` (close); that the connection it waits
    on is re-established is C10.  There is no fairness-quantified liveness theorem. -/
theorem C06_exactly_once (cfg : Cfg) (host port : Nat) (evs : List Ev) :
    let s := run cfg (St.init host port) evs
    let F := firedOf (trace cfg (St.init host port) evs)
    F.Nodup ∧ (∀ k ∈ F, k < s.nmake) ∧
    (∀ r ∈ s.reqs, r.serial < s.nmake) ∧
    (∀ k, k < s.nmake → ((∃ r ∈ s.reqs, r.serial = k ∧ r.cancelled = false) ↔ k ∉ F)) := by
  intro s F
  have hrun := sim06_run cfg (St.init host port) evs (sinv_init host port)
  rw [abs06_init] at hrun
  have hi := minv_run _ MSt.init _ [] minv_init hrun
  simp only [List.nil_append] at hi
  have hsi := sinv_run cfg (St.init host port) evs (sinv_init host port)
  refine ⟨hi.nodup, hi.firedLt, hsi.serialLt, ?_⟩
  intro k hk
  have hlive : ∀ l, l ∈ (abs06 s).live ↔ ∃ r ∈ s.reqs, r.cancelled = false ∧ proj r = l := by
    intro l; simp [abs06, absLive, and_assoc]
  constructor
  · rintro ⟨r, hr, rfl, hc⟩ hF
    exact hi.disj (proj r) ((hlive _).mpr ⟨r, hr, hc, rfl⟩) hF
  · intro hF
    rcases hi.cover k hk with ⟨l, hl, rfl⟩ | h'
    · obtain ⟨r, hr, hc, rfl⟩ := (hlive l).mp hl
      exact ⟨r, hr, rfl, hc⟩
    · exact absurd h' hF

/-- The firing causes are exactly: the frame carrying the request's id (with that frame's bytes),
    its own cancel, close (or a request made after close), the write of a request that expects no
    reply, a failed write — at every reachable state, for every event. -/
theorem C06_causes (cfg : Cfg) (host port : Nat) (evs : List Ev) (e : Ev) :
    let s := run cfg (St.init host port) evs
    ∀ k i r, Ob.fire k i r ∈ (step cfg s e).2 → Cause (abs06 s) e (step cfg s e).2 k i r := by
  intro s k i r hm
  have hsi := sinv_run cfg (St.init host port) evs (sinv_init host port)
  have hstep := sim06_step cfg s e hsi
  have hx : (k, i, r) ∈ fires (step cfg s e).2 := (mem_fires _ k i r).mp hm
  exact causes _ _ e _ hstep (k, i, r) hx

/-- A Deferred fires with response bytes `b` only in the step that received the bytes completing
    a packet `b` whose first four bytes are the request's correlation id. -/
theorem C06_own_response (cfg : Cfg) (host port : Nat) (evs : List Ev) (e : Ev) (k : Nat) (i : Int) (b : Bytes) :
    let s := run cfg (St.init host port) evs
    Ob.fire k i (.ok b) ∈ (step cfg s e).2 →
      ∃ chunk, e = .bytesIn chunk ∧ b ∈ (feed s.rbuf chunk).frames ∧ corrId b = some i ∧ s.proto.isSome = true := by
  intro s hm
  exact C06_causes cfg host port evs e k i (.ok b) hm


/-- No crosstalk, for every state and every sequence of packets delivered by one `dataReceived`:
    (1) a request none of the packets carries the id of stays in the table, untouched;
    (2) whatever fires, fires with the bytes of a packet carrying its own id, and was in the table
    and not cancelled — so a packet with an unknown or tombstoned id fires nothing. -/
theorem C06_no_crosstalk (fs : List Bytes) : ∀ (s : St),
    (∀ r ∈ s.reqs, (∀ b ∈ fs, corrId b ≠ some r.id) → r ∈ (handleFrames s fs).1.reqs) ∧
    (∀ k i res, Ob.fire k i res ∈ (handleFrames s fs).2.1 →
        ∃ b ∈ fs, res = .ok b ∧ corrId b = some i ∧ ∃ r ∈ s.reqs, r.serial = k ∧ r.id = i ∧ r.cancelled = false) := by
  induction fs with
  | nil => intro s; simp [handleFrames]
  | cons f fs ih =>
    intro s
    cases hid : corrId f with
    | none =>
      simp only [handleFrames, hid]
      exact ⟨fun r hr _ => hr, by simp⟩
    | some id =>
      simp only [handleFrames, hid]
      obtain ⟨i1, i2⟩ := ih (handleResponse s id f).1
      have e : (handleResponse s id f).1.reqs = s.reqs.filter (fun r => r.id != id) := rfl
      rw [e] at i1 i2
      refine ⟨?_, ?_⟩
      · intro r hr hb
        apply i1 r
        · apply List.mem_filter.mpr ⟨hr, ?_⟩
          have := hb f (by simp)
          rw [hid] at this
          simp only [ne_eq, Option.some.injEq] at this
          simp [Ne.symm this]
        · intro b hb'; exact hb b (by simp [hb'])
      · intro k i res hm
        rcases List.mem_append.mp hm with hm | hm
        · simp only [handleResponse] at hm
          split at hm
          · simp only [List.mem_map, List.mem_filter] at hm
            obtain ⟨r, ⟨hr, hc⟩, he⟩ := hm
            simp only [Ob.fire.injEq] at he
            obtain ⟨rfl, rfl, rfl⟩ := he
            simp only [Bool.and_eq_true, beq_iff_eq, Bool.not_eq_eq_eq_not, Bool.not_true] at hc
            exact ⟨f, by simp, rfl, by rw [hid, hc.1], r, hr, rfl, rfl, hc.2⟩
          · simp at hm
        · obtain ⟨b, hb, h1, h2, r, hr, h3, h4, h5⟩ := i2 k i res hm
          exact ⟨b, by simp [hb], h1, h2, r, (List.mem_filter.mp hr).1, h3, h4, h5⟩

/-- Reassembly: however the transport cuts the byte stream of well-formed frames (each no longer
    than a Kafka size can say), the protocol delivers exactly those frames, in order, leaves nothing
    buffered and does not drop the connection. -/
theorem C06_reassembly (fs : List Bytes) (hf : ∀ f ∈ fs, f.length < 2 ^ 31) (chunks : List Bytes)
    (hc : chunks.flatten = encodeAll fs) :
    feedAll [] chunks = ⟨fs, [], false⟩ := by
  have hmax : Afkak.Consts.kafkaMaxLength < 2 ^ 32 := by decide
  have hle : ∀ f ∈ fs, f.length ≤ Afkak.Consts.kafkaMaxLength := by
    intro f hm; have := hf f hm
    have : (2:Nat) ^ 31 - 1 ≤ Afkak.Consts.kafkaMaxLength := by decide
    omega
  obtain ⟨h1, h2, h3⟩ := feedAllWith_eq_parse Afkak.Consts.kafkaMaxLength chunks [] (stuck_nil _)
  have hp := parse_encodeAll _ hmax fs hle []
  simp only [List.append_nil, parse_short _ [] (by simp)] at hp
  simp only [List.nil_append, hc, hp] at h1 h2 h3
  have h3' := h3 trivial
  simp only [feedAll]
  cases hfa : feedAllWith Afkak.Consts.kafkaMaxLength [] chunks
  simp_all

/-- Oversize: once the stream reaches, at a frame boundary, a length prefix that no Kafka size can
    be (≥ 2^31, i.e. negative as an int32), the connection is terminated, and exactly the frames
    before it have been delivered: nothing from it or after it, however the stream is cut. -/
theorem C06_oversize (fs : List Bytes) (hf : ∀ f ∈ fs, f.length < 2 ^ 31) (a b c d : UInt8)
    (hbig : 2 ^ 31 ≤ be32 a b c d) (tail : Bytes) (chunks : List Bytes)
    (hc : chunks.flatten = encodeAll fs ++ a :: b :: c :: d :: tail) :
    (feedAll [] chunks).frames = fs ∧ (feedAll [] chunks).exceeded = true := by
  have hmax : Afkak.Consts.kafkaMaxLength < 2 ^ 32 := by decide
  have hlim : Afkak.Consts.kafkaMaxLength < 2 ^ 31 := by decide
  have hle : ∀ f ∈ fs, f.length ≤ Afkak.Consts.kafkaMaxLength := by
    intro f hm; have := hf f hm
    have : (2:Nat) ^ 31 - 1 ≤ Afkak.Consts.kafkaMaxLength := by decide
    omega
  obtain ⟨h1, h2, _⟩ := feedAllWith_eq_parse Afkak.Consts.kafkaMaxLength chunks [] (stuck_nil _)
  have hp := parse_encodeAll _ hmax fs hle (a :: b :: c :: d :: tail)
  rw [parse_cons4] at hp
  have hgt : be32 a b c d > Afkak.Consts.kafkaMaxLength := by omega
  simp only [hgt, if_true, List.append_nil] at hp
  simp only [List.nil_append, hc, hp] at h1 h2
  exact ⟨h1, h2⟩


/-- Completion at `close()`: in every run that ends closed, every Deferred handed out has fired (exactly once,
    by `C06_exactly_once`). -/
theorem C06_close_completes_all (cfg : Cfg) (host port : Nat) (evs : List Ev)
    (hc : (run cfg (St.init host port) evs).closed = true) :
    ∀ k, k < (run cfg (St.init host port) evs).nmake → k ∈ firedOf (trace cfg (St.init host port) evs) := by
  intro k hk
  obtain ⟨_, _, _, h4⟩ := C06_exactly_once cfg host port evs
  have hs := sinv_run cfg (St.init host port) evs (sinv_init host port)
  have he := hs.closedEmpty hc
  have := h4 k hk
  rw [he] at this
  apply Classical.byContradiction
  intro hn
  have h' := this.mpr hn
  simp at h'

/-- Delivery (the positive half of "exactly once"): in any state (no reachability needed), connected and
    reading, with `rq` live in the table: if the chunk completes a packet `f` carrying `rq`'s correlation id,
    and no earlier packet completed by the same chunk carries that id or is too short to carry one, then
    `rq`'s Deferred fires in THIS step with exactly the bytes of `f`. -/
theorem C06_delivery (cfg : Cfg) (s : St) (rq : Req) (c : Nat) (chunk f : Bytes) (pre post : List Bytes)
    (hrq : rq ∈ s.reqs) (hlive : rq.cancelled = false) (hp : s.proto = some c) (hl : s.losing = false)
    (hfr : (feed s.rbuf chunk).frames = pre ++ f :: post)
    (hpre : ∀ b ∈ pre, ∃ j, corrId b = some j ∧ j ≠ rq.id) (hf : corrId f = some rq.id) :
    Ob.fire rq.serial rq.id (.ok f) ∈ (step cfg s (.bytesIn chunk)).2 := by
  have hd := handleFrames_delivers rq f post pre s hrq hlive hpre hf
  simp only [step, hp, hl, Bool.false_eq_true, if_false, hfr]
  split
  · exact List.mem_append_left _ hd
  · split
    · exact List.mem_append_left _ hd
    · exact hd

/-! `C06_delivery` is not vacuous: request 5 is live on connection 0, the chunk completes its reply. -/
example : let s := run ⟨fun _ => 1⟩ (St.init 1 9092) [.make 5 true, .connOk]
    ({ serial := 0, id := 5, expect := true, sent := true, cancelled := false } : Req) ∈ s.reqs ∧ s.proto = some 0 ∧
    s.losing = false ∧ (feed s.rbuf [0, 0, 0, 4, 0, 0, 0, 5]).frames = [] ++ [0, 0, 0, 5] :: [] ∧
    corrId [0, 0, 0, 5] = some 5 := by decide +kernel

/-- Chunking independence, general form: feeding the chunks one at a time (from an empty buffer) completes
    exactly the packets, in order, and reaches `lengthLimitExceeded` exactly when, feeding their
    concatenation as one chunk does — for ALL byte strings, not only streams of whole legal frames. -/
theorem C06_all_chunkings (chunks : List Bytes) :
    (feedAll [] chunks).frames = (feed [] chunks.flatten).frames ∧
    (feedAll [] chunks).exceeded = (feed [] chunks.flatten).exceeded := by
  obtain ⟨h1, h2, _⟩ := feedAllWith_eq_parse Afkak.Consts.kafkaMaxLength chunks [] (stuck_nil _)
  simp only [feedAll, feed, feedWith_eq_parse, List.nil_append] at *
  exact ⟨h1, h2⟩

/-- A packet too short to carry a correlation id (0–3 bytes; `get_response_correlation_id` raises
    `BufferUnderflowError` out of `dataReceived`, the reactor drops the connection).  Like an over-long
    prefix this terminates the connection, and it FAILS nobody: every request that is not cancelled and
    was not answered by an earlier packet of the same chunk is still in the table afterwards, unsent,
    with its serial, id and reply flag (so it is re-sent by `C10_resend_exact`), and nothing fires
    except the requests answered by those earlier packets. -/
theorem C06_short_frame (cfg : Cfg) (s : St) (chunk : Bytes)
    (hu : Ob.raiseUnderflow ∈ (step cfg s (.bytesIn chunk)).2) :
    (∀ r ∈ s.reqs, r.cancelled = false → (∀ b ∈ (feed s.rbuf chunk).frames, corrId b ≠ some r.id) →
        { r with sent := false } ∈ (step cfg s (.bytesIn chunk)).1.reqs) ∧
    (∀ k i res, Ob.fire k i res ∈ (step cfg s (.bytesIn chunk)).2 →
        ∃ b ∈ (feed s.rbuf chunk).frames, res = .ok b ∧ corrId b = some i) := by
  simp only [step] at hu ⊢
  split at hu
  · simp at hu
  · split at hu
    · simp at hu
    · rename_i c hp hl
      simp only [hp, hl, Bool.false_eq_true, if_false]
      obtain ⟨k1, k2⟩ := C06_no_crosstalk (feed s.rbuf chunk).frames s
      have hobs := handleFrames_obs s (feed s.rbuf chunk).frames
      have hlostfire : ∀ (s' : St) k i res, Ob.fire k i res ∉ (lostStep s').2 := by
        intro s' k i res
        simp only [lostStep, connect_, tryConnect]
        split <;> (try split) <;> simp
      split
      · refine ⟨?_, ?_⟩
        · intro r hr hc hb
          have := k1 r hr hb
          simp only [lostStep, connect_, tryConnect]
          have hm : { r with sent := false } ∈ ((handleFrames s (feed s.rbuf chunk).frames).1.reqs.filter (fun r => !r.cancelled)).map
              (fun r => { r with sent := false }) :=
            List.mem_map.mpr ⟨r, List.mem_filter.mpr ⟨this, by simp [hc]⟩, rfl⟩
          split <;> (try split) <;> exact hm
        · intro k i res hm
          rcases List.mem_append.mp hm with hm | hm
          · obtain ⟨b, hb, h1, h2, _⟩ := k2 k i res hm
            exact ⟨b, hb, h1, h2⟩
          · exact absurd hm (hlostfire _ k i res)
      · rename_i hr
        -- no exception escaped: contradiction with `hu`
        exfalso
        have hrz := handleFrames_raise (feed s.rbuf chunk).frames s
        rw [if_neg hr] at hu
        split at hu
        · rcases List.mem_append.mp hu with hu | hu
          · exact hr (hrz hu)
          · simp at hu
        · exact hr (hrz hu)

example : Ob.raiseUnderflow ∈ (step ⟨fun _ => 1⟩ (run ⟨fun _ => 1⟩ (St.init 1 9092) [.make 5 true, .connOk]) (.bytesIn [0, 0, 0, 2, 7, 7])).2 := by
  decide

/-- A reply reaches the request it answers: the routing monitor (a frame that is the first one
    carrying the id of a request written on the current connection, and that echoes that request's
    serial, fires that request or nobody — never a request made later with the same id) accepts
    every trace of the model.  This is what the tombstone of a cancelled request and the
    duplicate-id check are for. -/
theorem C06_answered_request (cfg : Cfg) (host port : Nat) (evs : List Ev) :
    routesOk (trace cfg (St.init host port) evs) = true := by
  simp only [routesOk]
  rw [routes_run cfg evs _ _ 0 (sinv_init host port) (rinv_init host port)]
  rfl

/-- The model the driver executes (`Afkak/BrokerClientR.lean`, with the loops of `_sendQueued`, `close()`
    and `dataReceived` written out so that callbacks can run inside them) IS the flat model of the
    theorems above whenever no callback is registered: same observations (markers dropped) for every
    event list, from some amount of fuel on. -/
theorem C06_reentrant_model_conservative (cfg : Cfg) (host port : Nat) (evs : List Ev) :
    ∃ N, ∀ fuel, N ≤ fuel →
      (Afkak.BrokerClientR.traceRWith cfg fuel (Afkak.BrokerClientR.StR.init host port) (evs.map .flat)).map
          (fun t => Afkak.BrokerClientR.plain t.2)
        = (trace cfg (St.init host port) evs).map (·.2) :=
  Afkak.BrokerClientR.traceR_flat cfg evs (Afkak.BrokerClientR.StR.init host port) rfl rfl rfl (sinv_init host port)

/-- C06 with RE-ENTRANT callbacks (`Afkak/BrokerClientR.lean`): whatever finite sequences of calls
    (`close`, `disconnect`, cancel another request, `makeRequest`) the callbacks attached to request
    Deferreds make when they fire — from inside `_sendQueued`'s loop, `close()`'s pop loop, between two
    packets of one `dataReceived`, nested to any depth — and with an endpoint that may even connect
    from inside `cancel()`: every Deferred fires only after it was handed out and at most once (no
    second firing is ever attempted), `ok b` only with a packet carrying its id, and every Deferred
    unfired when a `close()` goes ahead has fired when that call returns.  Hypothesis (decidable on the
    trace): the fuel of the interpreter sufficed, i.e. no `fuelOut` marker; the driver runs with
    100000 and would print it. -/
theorem C06_reentrant_partial (cfg : Cfg) (fuel host port : Nat) (evs : List Afkak.BrokerClientR.EvR)
    (hfuel : ∀ t ∈ Afkak.BrokerClientR.traceRWith cfg fuel (Afkak.BrokerClientR.StR.init host port) evs,
      Afkak.BrokerClientR.ObR.fuelOut ∉ t.2) :
    r06 (Afkak.BrokerClientR.traceRWith cfg fuel (Afkak.BrokerClientR.StR.init host port) evs) = true := by
  simp only [r06]
  rw [Afkak.BrokerClientR.r06_trace cfg fuel evs _ _ 0 (Afkak.BrokerClientR.top6_init host port) hfuel]
  rfl

/-! The hypothesis of `C06_reentrant_partial` is satisfiable with nested callbacks at work (fuel 20): the
callback of request 1 cancels request 2 and closes the client from inside `_sendQueued`; the close fires
request 3, whose callback makes a request on the closed client. -/
example : ∀ t ∈ Afkak.BrokerClientR.traceRWith ⟨fun _ => 1⟩ 20 (Afkak.BrokerClientR.StR.init 1 9092)
      [.make 1 false (some [.cancel 2, .close]), .make 2 false none, .make 3 true (some [.make 4 true]), .flat .connOk,
       .flat .lost],
    Afkak.BrokerClientR.ObR.fuelOut ∉ t.2 := by decide +kernel

/-- The re-entrant interpreter terminates: for every configuration, start state and event list there is
    an amount of fuel from which on no step of the run reaches the bottom of the interpreter (the
    callbacks are finite lists of actions; a callback runs at most once; a potential — table size, live
    entries, weight of the registered callbacks — bounds the nesting depth). -/
theorem C06_reentrant_terminates (cfg : Cfg) (host port : Nat) (evs : List Afkak.BrokerClientR.EvR) :
    ∃ N, ∀ fuel, N ≤ fuel →
      ∀ t ∈ Afkak.BrokerClientR.traceRWith cfg fuel (Afkak.BrokerClientR.StR.init host port) evs,
        Afkak.BrokerClientR.ObR.fuelOut ∉ t.2 :=
  Afkak.BrokerClientR.fuel_suffices cfg evs _

/-- "Exactly once" under RE-ENTRANT callbacks (and the stubborn / synchronous endpoints): at the end of
    every run of the re-entrant model in which the fuel sufficed — and some amount always does
    (`C06_reentrant_terminates`) — the Deferreds handed out are partitioned into those that fired,
    each exactly once in the recorded trace, and those still in the table and not cancelled: nothing
    is orphaned, nothing fires twice, whatever the callbacks did. -/
theorem C06_reentrant_partition (cfg : Cfg) (fuel host port : Nat) (evs : List Afkak.BrokerClientR.EvR)
    (hfuel : ∀ t ∈ Afkak.BrokerClientR.traceRWith cfg fuel (Afkak.BrokerClientR.StR.init host port) evs,
      Afkak.BrokerClientR.ObR.fuelOut ∉ t.2) :
    let s := Afkak.BrokerClientR.runRWith cfg fuel (Afkak.BrokerClientR.StR.init host port) evs
    let F := Afkak.BrokerClientR.firedR (Afkak.BrokerClientR.traceRWith cfg fuel (Afkak.BrokerClientR.StR.init host port) evs)
    F.Nodup ∧ (∀ k ∈ F, k < s.core.nmake) ∧
    (∀ k, k < s.core.nmake → ((∃ r ∈ s.core.reqs, r.serial = k ∧ r.cancelled = false) ↔ k ∉ F)) :=
  Afkak.BrokerClientR.partitionR cfg fuel host port evs hfuel

/-- C06 with RE-ENTRANT callbacks, unconditionally (formerly the open statement): for every
    configuration and every event list of the re-entrant model — callbacks that are any finite lists
    of `close` / `disconnect` / `cancel id` / `make id expect`, nested to any depth, with or without the
    endpoint that connects from inside `cancel()`, with endpoints that answer `connect()` synchronously
    (success or failure inside `makeRequest` / `_connectionLost` / the retry timer) — from some amount of fuel on the stream monitor `r06`
    accepts the trace: a Deferred fires only after it was handed out, at most once (no second firing
    is even attempted), `ok b` only with a packet carrying its id, and every Deferred unfired when a
    `close()` goes ahead has fired when that call returns. -/
theorem C06_reentrant (cfg : Cfg) (host port : Nat) (evs : List Afkak.BrokerClientR.EvR) :
    ∃ N, ∀ fuel, N ≤ fuel →
      r06 (Afkak.BrokerClientR.traceRWith cfg fuel (Afkak.BrokerClientR.StR.init host port) evs) = true := by
  obtain ⟨N, hN⟩ := C06_reentrant_terminates cfg host port evs
  exact ⟨N, fun fuel hf => C06_reentrant_partial cfg fuel host port evs (hN fuel hf)⟩

/-- Bootstrap connection, any number of requests, any event list: every request Deferred fires
    exactly once — with the packet carrying its id, by its own cancel, or with the connection-lost
    reason — and an over-long prefix drops the connection (the non-strict bootstrap monitor). -/
theorem C06_bootstrap_monitor_sound (evs : List Bootstrap.Ev) :
    bootAccepts false (Bootstrap.trace Bootstrap.St.init evs) = true := by
  simp only [bootAccepts]
  rw [← Bootstrap.absB_init, Bootstrap.simB_run _ evs Bootstrap.binv_init]
  rfl

/-- Single-request use of a bootstrap connection (what `KafkaClient` does): if the first packet of
    the broker's byte stream is a legal frame carrying the request's correlation id, the request
    fires exactly once, with exactly that packet — however the stream is cut and whatever follows
    (duplicates, unsolicited packets that make the protocol drop the connection, over-long
    prefixes). -/
theorem C06_bootstrap_single (p f1 rest : Bytes) (chunks : List Bytes) (hf : f1.length < 2 ^ 31)
    (hcid : Bootstrap.respCid f1 = Bootstrap.reqCid p) (hc : chunks.flatten = encode f1 ++ rest) :
    Bootstrap.firesOf (Bootstrap.trace Bootstrap.St.init (.request p :: chunks.map .bytesIn)) = [(0, .ok f1)] := by
  have hle : f1.length ≤ Afkak.Consts.kafkaMaxLength := by
    have : (2:Nat) ^ 31 - 1 ≤ Afkak.Consts.kafkaMaxLength := by decide
    omega
  have hstep : Bootstrap.step Bootstrap.St.init (.request p) =
      ({ Bootstrap.St.init with nreq := 1, pending := some [⟨Bootstrap.reqCid p, 0, false⟩] }, [.write 0]) := by
    simp [Bootstrap.step, Bootstrap.St.init]
  simp only [Bootstrap.trace, Bootstrap.firesOf, List.flatMap_cons, hstep]
  have := Bootstrap.bootstrap_single_core (Bootstrap.reqCid p) f1 rest hle hcid chunks
    { Bootstrap.St.init with nreq := 1, pending := some [⟨Bootstrap.reqCid p, 0, false⟩] } rfl rfl (by simp [Bootstrap.St.init]; omega)
    (by simpa [Bootstrap.St.init] using hc)
  simp only [Bootstrap.firesOf] at this
  simp [bootFires, this]

/-- The code violates the full-strength bootstrap statement (`Open/C06.lean`): two requests pending,
    the reply to the first and then a packet with an id nobody asked for — the protocol drops the
    connection and the second request is lost with it. -/
theorem C06_bootstrap_no_crosstalk_counterexample : ¬ Open.C06_bootstrap_no_crosstalk := by
  intro h
  have := h [.request [0, 3, 0, 0, 0, 0, 0, 2], .request [0, 3, 0, 0, 0, 0, 0, 3],
             .bytesIn [0, 0, 0, 5, 0, 0, 0, 2, 0x44, 0, 0, 0, 2, 0, 1], .lost]
  revert this
  decide

/-- The part of it that holds: as long as the protocol itself never drops the connection
    (`lose` is never observed — no packet with an unknown id, no over-long prefix), the strict
    monitor accepts: nothing but its own packet, its own cancel or the loss of the connection decides a
    request's outcome. -/
theorem C06_bootstrap_no_crosstalk_partial (evs : List Bootstrap.Ev)
    (hq : (Bootstrap.trace Bootstrap.St.init evs).all (fun t => !t.2.contains .lose) = true) :
    bootAccepts true (Bootstrap.trace Bootstrap.St.init evs) = true := by
  have hs := C06_bootstrap_monitor_sound evs
  simp only [bootAccepts] at hs ⊢
  generalize Bootstrap.trace Bootstrap.St.init evs = tr at hs hq
  generalize BSt.init = m at hs
  induction tr generalizing m with
  | nil => rfl
  | cons t ts ih =>
    simp only [List.all_cons, Bool.and_eq_true] at hq
    simp only [brun] at hs ⊢
    have hstep : bstep true m t = bstep false m t := by
      obtain ⟨e, os⟩ := t
      have hnl : os.count .lose = 0 := by
        rw [List.count_eq_zero]
        intro hm
        have := hq.1
        simp only [Bool.not_eq_eq_eq_not, Bool.not_true] at this
        rw [← List.contains_iff_mem, this] at hm
        exact Bool.false_ne_true hm
      cases e <;> simp [bstep, hnl]
    rw [hstep]
    cases hb : bstep false m t with
    | none => simp [hb] at hs
    | some m' =>
      simp only [hb] at hs ⊢
      exact ih hq.2 m' hs

example : (Bootstrap.trace Bootstrap.St.init [.request [0, 3, 0, 0, 0, 0, 0, 2], .bytesIn [0, 0, 0, 5, 0, 0, 0, 2, 0x44]]).all
    (fun t => !t.2.contains .lose) = true := by decide
example : Bootstrap.respCid [0, 0, 0, 2, 0x44] = Bootstrap.reqCid [0, 3, 0, 0, 0, 0, 0, 2] := by decide

/-! Non-vacuity: a run in which Deferreds do fire — one by its own response (delivered in two
chunks, after an unsolicited frame), one by cancel, one by close — and a late response to the
cancelled request fires nothing. -/
def demo : List Ev :=
  [.make 5 true, .make 6 true, .make 7 true, .connOk, .bytesIn [0, 0, 0, 4, 0, 0, 0, 9, 0, 0, 0, 5, 0, 0],
   .bytesIn [0, 5, 1], .cancel 6, .bytesIn [0, 0, 0, 4, 0, 0, 0, 6], .close]
example : (trace ⟨fun _ => 1⟩ (St.init 1 9092) demo).map (·.2) =
    [[.connect 1 9092], [], [], [.write 0 0 5, .write 0 1 6, .write 0 2 7], [.unexpected 9],
     [.fire 0 5 (.ok [0, 0, 0, 5, 1])], [.fire 1 6 (.err .cancelled)], [], [.lose 0, .fire 2 7 (.err .clientError)]] := by
  decide
example : firedOf (trace ⟨fun _ => 1⟩ (St.init 1 9092) demo) = [0, 1, 2] := by decide

/-! Re-entrant callbacks (open statement `C06_reentrant` in `Open/C06.lean`): a concrete run of the re-entrant model — request 2 expects no reply and its callback
closes the client while the queue is being written; the monitor `r06` accepts it, and without callbacks
the two models agree on `demo`. -/
example : ((Afkak.BrokerClientR.traceR ⟨fun _ => 1⟩ (Afkak.BrokerClientR.StR.init 1 9092)
      [.make 1 true none, .make 2 false (some [.close]), .make 3 true none, .flat .connOk, .flat .lost]).map (·.2)) =
    [[.ob (.connect 1 9092), .made 0 1], [.made 1 2], [.made 2 3],
     [.ob (.write 0 0 1), .ob (.write 0 1 2), .ob (.fire 1 2 .none), .hookBegin 1, .closing, .ob (.lose 0),
      .ob (.fire 2 3 (.err .clientError)), .ob (.fire 0 1 (.err .clientError)), .hookEnd],
     [.ob .down]] := by decide +kernel
example : r06 (Afkak.BrokerClientR.traceR ⟨fun _ => 1⟩ (Afkak.BrokerClientR.StR.init 1 9092)
      [.make 1 true none, .make 2 false (some [.close]), .make 3 true none, .flat .connOk, .flat .lost]) = true := by
  decide +kernel
example : (Afkak.BrokerClientR.traceR ⟨fun _ => 1⟩ (Afkak.BrokerClientR.StR.init 1 9092) (demo.map .flat)).map
      (fun t => Afkak.BrokerClientR.plain t.2) = (trace ⟨fun _ => 1⟩ (St.init 1 9092) demo).map (·.2) := by
  decide +kernel

/-! Non-vacuity (framing) -/
example : ∃ a b c d : UInt8, 2 ^ 31 ≤ be32 a b c d := ⟨0x80, 0, 0, 0, by decide⟩
example : feedAll [] [[0, 0], [0, 2, 7], [9, 0, 0, 0, 1], [5]] = ⟨[[7, 9], [5]], [], false⟩ := by decide
example : [[0, 0], [0, 2, 7], [9, 0, 0, 0, 1], [5]].flatten = encodeAll [[(7 : UInt8), 9], [5]] := by decide
example : (feedAll [] [[0, 0, 0, 1, 7, 0xff], [0xff, 0xff, 0xff, 0, 0, 0, 1, 5]]).frames = [[7]]
    ∧ (feedAll [] [[0, 0, 0, 1, 7, 0xff], [0xff, 0xff, 0xff, 0, 0, 0, 1, 5]]).exceeded = true := by decide

end Afkak.Props.C06

/- OBLIGATIONS
C06_monitor_sound
C06_at_most_once_of_accepted
C06_at_most_once
C06_exactly_once
C06_close_completes_all
C06_delivery
C06_all_chunkings
C06_causes
C06_own_response
C06_no_crosstalk
C06_reassembly
C06_oversize
C06_short_frame
C06_answered_request
C06_bootstrap_monitor_sound
C06_bootstrap_single
C06_bootstrap_no_crosstalk_counterexample
C06_bootstrap_no_crosstalk_partial
C06_reentrant_model_conservative
C06_reentrant_partial
C06_reentrant_terminates
C06_reentrant_partition
C06_reentrant
-/
/- OPEN_STATEMENTS
C06_bootstrap_no_crosstalk
-/
