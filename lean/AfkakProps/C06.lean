import Afkak.Monitor.C06
/-!
# C06 — each request completes exactly once, with the response bearing its own id
Property theorems only; helper lemmas live in `AfkakProofs/BrokerClient/`.
-/
namespace Afkak.Props.C06
open Afkak.Frame Afkak.BrokerClient

/-- placeholder while the proofs are being built -/
theorem C06_limit_is_int32 : Afkak.Consts.kafkaMaxLength = 2^31 - 1 := by decide

end Afkak.Props.C06

/- OBLIGATIONS
C06_limit_is_int32
-/
/- OPEN_STATEMENTS
-/
