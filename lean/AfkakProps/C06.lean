import Afkak.Monitor.C06
import AfkakProofs.BrokerClient.Frame
import AfkakProofs.BrokerClient.SimC06
import AfkakProofs.BrokerClient.MonC06
import AfkakProofs.BrokerClient.Route
import AfkakProofs.BrokerClient.Boot
import AfkakProofs.BrokerClient.BootSingle
import AfkakProofs.BrokerClient.Equiv
import AfkakProofs.BrokerClient.Short
import AfkakProofs.BrokerClient.Reent06
import AfkakProofs.BrokerClient.Term
import AfkakProofs.BrokerClient.Deliver
import AfkakProofs.BrokerClient.Partition
import AfkakProofs.BrokerClient.FuelFree
import AfkakProofs.BrokerClient.ConnStream
import AfkakProofs.BrokerClient.ChunkSplit
import AfkakProofs.BrokerClient.BootOnce
import AfkakProofs.BrokerClient.Genuine
import AfkakProofs.BrokerClient.Bytes
import AfkakProofs.BrokerClient.BytesConn
import AfkakProofs.BrokerClient.Rechunk
import AfkakProofs.BrokerClient.RechunkRun
import AfkakProofs.BrokerClient.BytesBoot
import AfkakProofs.BrokerClient.ReentOwn
import AfkakProps.Open.C06
/-!
# C06 — each request completes exactly once, with the response bearing its own id
Property theorems only; helper lemmas live in `AfkakProofs/BrokerClient/`.

Architecture: `Monitor.C06.accepts` is the decidable predicate the driver evaluates on traces recorded
from the real `_KafkaBrokerClient`.  `C06_monitor_sound` proves it of every trace of the model;
`C06_at_most_once_of_accepted` (and `MonC06.causes`, `MonC06.minv_run`) derive the statements of the
property from acceptance alone, so they hold of every accepted trace of the implementation too.
"A request" is an incarnation: the `serial`-th Deferred handed out by `makeRequest`.
-/
namespace Afkak.Props.C06
open Afkak.Frame Afkak.BrokerClient Afkak.Monitor.C06

/-- The monitor that the driver evaluates on the implementation's traces accepts every trace of
    the model: any event list, any retry policy, any broker address. -/
theorem C06_monitor_sound (cfg : Cfg) (host port : Nat) (evs : List Ev) :
    accepts (trace cfg (St.init host port) evs) = true := by
  simp only [accepts]
  rw [← abs06_init host port, sim06_run cfg _ evs (sinv_init host port)]
  rfl

/-- At most once, for ANY trace the monitor accepts (so also for an accepted trace of the
    implementation): no serial fires twice. -/
theorem C06_at_most_once_of_accepted (tr : List (Ev × List Ob)) (h : accepts tr = true) :
    (firedOf tr).Nodup := by
  simp only [accepts, Option.isSome_iff_exists] at h
  obtain ⟨m, hm⟩ := h
  have := (minv_run tr MSt.init m [] minv_init hm).nodup
  simpa using this

/-- Any event list fires each request's Deferred at most once. -/
theorem C06_at_most_once (cfg : Cfg) (host port : Nat) (evs : List Ev) :
    (firedOf (trace cfg (St.init host port) evs)).Nodup :=
  C06_at_most_once_of_accepted _ (C06_monitor_sound cfg host port evs)

/-- "Exactly once" as a safety statement — at most once + never orphaned: after any event list, the
    Deferreds handed out so far (serials `< nmake`) are partitioned into those still outstanding (in
    the table, not cancelled) and those that have fired, and the latter fired once.  That an
    outstanding request DOES complete is `C06_delivery` (its reply arrives), `C06_causes` (cancel,
    failed write, no-reply write) and `C06_close_completes_all` (close); that the connection it waits
    on is re-established is C10.  There is no fairness-quantified liveness theorem. -/
theorem C06_exactly_once (cfg : Cfg) (host port : Nat) (evs : List Ev) :
    let s := run cfg (St.init host port) evs
    let F := firedOf (trace cfg (St.init host port) evs)
    F.Nodup ∧ (∀ k ∈ F, k < s.nmake) ∧
    (∀ r ∈ s.reqs, r.serial < s.nmake) ∧
    (∀ k, k < s.nmake → ((∃ r ∈ s.reqs, r.serial = k ∧ r.cancelled = false) ↔ k ∉ F)) := by
  intro s F
  have hrun := sim06_run cfg (St.init host port) evs (sinv_init host port)
  rw [abs06_init] at hrun
  have hi := minv_run _ MSt.init _ [] minv_init hrun
  simp only [List.nil_append] at hi
  have hsi := sinv_run cfg (St.init host port) evs (sinv_init host port)
  refine ⟨hi.nodup, hi.firedLt, hsi.serialLt, ?_⟩
  intro k hk
  have hlive : ∀ l, l ∈ (abs06 s).live ↔ ∃ r ∈ s.reqs, r.cancelled = false ∧ proj r = l := by
    intro l; simp [abs06, absLive, and_assoc]
  constructor
  · rintro ⟨r, hr, rfl, hc⟩ hF
    exact hi.disj (proj r) ((hlive _).mpr ⟨r, hr, hc, rfl⟩) hF
  · intro hF
    rcases hi.cover k hk with ⟨l, hl, rfl⟩ | h'
    · obtain ⟨r, hr, hc, rfl⟩ := (hlive l).mp hl
      exact ⟨r, hr, rfl, hc⟩
    · exact absurd h' hF

/-- The firing causes are exactly: the frame carrying the request's id (with that frame's bytes),
    its own cancel, close (or a request made after close), the write of a request that expects no
    reply, a failed write — at every reachable state, for every event. -/
theorem C06_causes (cfg : Cfg) (host port : Nat) (evs : List Ev) (e : Ev) :
    let s := run cfg (St.init host port) evs
    ∀ k i r, Ob.fire k i r ∈ (step cfg s e).2 → Cause (abs06 s) e (step cfg s e).2 k i r := by
  intro s k i r hm
  have hsi := sinv_run cfg (St.init host port) evs (sinv_init host port)
  have hstep := sim06_step cfg s e hsi
  have hx : (k, i, r) ∈ fires (step cfg s e).2 := (mem_fires _ k i r).mp hm
  exact causes _ _ e _ hstep (k, i, r) hx

/-- A Deferred fires with response bytes `b` only in the step that received the bytes completing
    a packet `b` whose first four bytes are the request's correlation id. -/
theorem C06_own_response (cfg : Cfg) (host port : Nat) (evs : List Ev) (e : Ev) (k : Nat) (i : Int) (b : Bytes) :
    let s := run cfg (St.init host port) evs
    Ob.fire k i (.ok b) ∈ (step cfg s e).2 →
      ∃ chunk, e = .bytesIn chunk ∧ b ∈ (feed s.rbuf chunk).frames ∧ corrId b = some i ∧ s.proto.isSome = true := by
  intro s hm
  exact C06_causes cfg host port evs e k i (.ok b) hm


/-- No crosstalk, for every state and every sequence of packets delivered by one `dataReceived`:
    (1) a request none of the packets carries the id of stays in the table, untouched;
    (2) whatever fires, fires with the bytes of a packet carrying its own id, and was in the table
    and not cancelled — so a packet with an unknown or tombstoned id fires nothing. -/
theorem C06_no_crosstalk (fs : List Bytes) : ∀ (s : St),
    (∀ r ∈ s.reqs, (∀ b ∈ fs, corrId b ≠ some r.id) → r ∈ (handleFrames s fs).1.reqs) ∧
    (∀ k i res, Ob.fire k i res ∈ (handleFrames s fs).2.1 →
        ∃ b ∈ fs, res = .ok b ∧ corrId b = some i ∧ ∃ r ∈ s.reqs, r.serial = k ∧ r.id = i ∧ r.cancelled = false) := by
  induction fs with
  | nil => intro s; simp [handleFrames]
  | cons f fs ih =>
    intro s
    cases hid : corrId f with
    | none =>
      simp only [handleFrames, hid]
      exact ⟨fun r hr _ => hr, by simp⟩
    | some id =>
      simp only [handleFrames, hid]
      obtain ⟨i1, i2⟩ := ih (handleResponse s id f).1
      have e : (handleResponse s id f).1.reqs = s.reqs.filter (fun r => r.id != id) := rfl
      rw [e] at i1 i2
      refine ⟨?_, ?_⟩
      · intro r hr hb
        apply i1 r
        · apply List.mem_filter.mpr ⟨hr, ?_⟩
          have := hb f (by simp)
          rw [hid] at this
          simp only [ne_eq, Option.some.injEq] at this
          simp [Ne.symm this]
        · intro b hb'; exact hb b (by simp [hb'])
      · intro k i res hm
        rcases List.mem_append.mp hm with hm | hm
        · simp only [handleResponse] at hm
          split at hm
          · simp only [List.mem_map, List.mem_filter] at hm
            obtain ⟨r, ⟨hr, hc⟩, he⟩ := hm
            simp only [Ob.fire.injEq] at he
            obtain ⟨rfl, rfl, rfl⟩ := he
            simp only [Bool.and_eq_true, beq_iff_eq, Bool.not_eq_eq_eq_not, Bool.not_true] at hc
            exact ⟨f, by simp, rfl, by rw [hid, hc.1], r, hr, rfl, rfl, hc.2⟩
          · simp at hm
        · obtain ⟨b, hb, h1, h2, r, hr, h3, h4, h5⟩ := i2 k i res hm
          exact ⟨b, by simp [hb], h1, h2, r, (List.mem_filter.mp hr).1, h3, h4, h5⟩

/-- Reassembly: however the transport cuts the byte stream of well-formed frames (each no longer
    than a Kafka size can say), the protocol delivers exactly those frames, in order, leaves nothing
    buffered and does not drop the connection. -/
theorem C06_reassembly (fs : List Bytes) (hf : ∀ f ∈ fs, f.length < 2 ^ 31) (chunks : List Bytes)
    (hc : chunks.flatten = encodeAll fs) :
    feedAll [] chunks = ⟨fs, [], false⟩ := by
  have hmax : Afkak.Consts.kafkaMaxLength < 2 ^ 32 := by decide
  have hle : ∀ f ∈ fs, f.length ≤ Afkak.Consts.kafkaMaxLength := by
    intro f hm; have := hf f hm
    have : (2:Nat) ^ 31 - 1 ≤ Afkak.Consts.kafkaMaxLength := by decide
    omega
  obtain ⟨h1, h2, h3⟩ := feedAllWith_eq_parse Afkak.Consts.kafkaMaxLength chunks [] (stuck_nil _)
  have hp := parse_encodeAll _ hmax fs hle []
  simp only [List.append_nil, parse_short _ [] (by simp)] at hp
  simp only [List.nil_append, hc, hp] at h1 h2 h3
  have h3' := h3 trivial
  simp only [feedAll]
  cases hfa : feedAllWith Afkak.Consts.kafkaMaxLength [] chunks
  simp_all

/-- Oversize: once the stream reaches, at a frame boundary, a length prefix that no Kafka size can
    be (≥ 2^31, i.e. negative as an int32), the connection is terminated, and exactly the frames
    before it have been delivered: nothing from it or after it, however the stream is cut. -/
theorem C06_oversize (fs : List Bytes) (hf : ∀ f ∈ fs, f.length < 2 ^ 31) (a b c d : UInt8)
    (hbig : 2 ^ 31 ≤ be32 a b c d) (tail : Bytes) (chunks : List Bytes)
    (hc : chunks.flatten = encodeAll fs ++ a :: b :: c :: d :: tail) :
    (feedAll [] chunks).frames = fs ∧ (feedAll [] chunks).exceeded = true := by
  have hmax : Afkak.Consts.kafkaMaxLength < 2 ^ 32 := by decide
  have hlim : Afkak.Consts.kafkaMaxLength < 2 ^ 31 := by decide
  have hle : ∀ f ∈ fs, f.length ≤ Afkak.Consts.kafkaMaxLength := by
    intro f hm; have := hf f hm
    have : (2:Nat) ^ 31 - 1 ≤ Afkak.Consts.kafkaMaxLength := by decide
    omega
  obtain ⟨h1, h2, _⟩ := feedAllWith_eq_parse Afkak.Consts.kafkaMaxLength chunks [] (stuck_nil _)
  have hp := parse_encodeAll _ hmax fs hle (a :: b :: c :: d :: tail)
  rw [parse_cons4] at hp
  have hgt : be32 a b c d > Afkak.Consts.kafkaMaxLength := by omega
  simp only [hgt, if_true, List.append_nil] at hp
  simp only [List.nil_append, hc, hp] at h1 h2
  exact ⟨h1, h2⟩


/-- Completion at `close()`: in every run that ends closed, every Deferred handed out has fired (exactly once,
    by `C06_exactly_once`). -/
theorem C06_close_completes_all (cfg : Cfg) (host port : Nat) (evs : List Ev)
    (hc : (run cfg (St.init host port) evs).closed = true) :
    ∀ k, k < (run cfg (St.init host port) evs).nmake → k ∈ firedOf (trace cfg (St.init host port) evs) := by
  intro k hk
  obtain ⟨_, _, _, h4⟩ := C06_exactly_once cfg host port evs
  have hs := sinv_run cfg (St.init host port) evs (sinv_init host port)
  have he := hs.closedEmpty hc
  have := h4 k hk
  rw [he] at this
  apply Classical.byContradiction
  intro hn
  have h' := this.mpr hn
  simp at h'

/-- Delivery (the positive half of "exactly once"): in any state (no reachability needed), connected and
    reading, with `rq` live in the table: if the chunk completes a packet `f` carrying `rq`'s correlation id,
    and no earlier packet completed by the same chunk carries that id or is too short to carry one, then
    `rq`'s Deferred fires in THIS step with exactly the bytes of `f`. -/
theorem C06_delivery (cfg : Cfg) (s : St) (rq : Req) (c : Nat) (chunk f : Bytes) (pre post : List Bytes)
    (hrq : rq ∈ s.reqs) (hlive : rq.cancelled = false) (hp : s.proto = some c) (hl : s.losing = false)
    (hfr : (feed s.rbuf chunk).frames = pre ++ f :: post)
    (hpre : ∀ b ∈ pre, ∃ j, corrId b = some j ∧ j ≠ rq.id) (hf : corrId f = some rq.id) :
    Ob.fire rq.serial rq.id (.ok f) ∈ (step cfg s (.bytesIn chunk)).2 := by
  have hd := handleFrames_delivers rq f post pre s hrq hlive hpre hf
  simp only [step, hp, hl, Bool.false_eq_true, if_false, hfr]
  split
  · exact List.mem_append_left _ hd
  · split
    · exact List.mem_append_left _ hd
    · exact hd

/-! `C06_delivery` is not vacuous: request 5 is live on connection 0, the chunk completes its reply. -/
example : let s := run ⟨fun _ => 1⟩ (St.init 1 9092) [.make 5 true, .connOk]
    ({ serial := 0, id := 5, expect := true, sent := true, cancelled := false } : Req) ∈ s.reqs ∧ s.proto = some 0 ∧
    s.losing = false ∧ (feed s.rbuf [0, 0, 0, 4, 0, 0, 0, 5]).frames = [] ++ [0, 0, 0, 5] :: [] ∧
    corrId [0, 0, 0, 5] = some 5 := by decide +kernel

/-- Chunking independence, general form: feeding the chunks one at a time (from an empty buffer) completes
    exactly the packets, in order, and reaches `lengthLimitExceeded` exactly when, feeding their
    concatenation as one chunk does — for ALL byte strings, not only streams of whole legal frames. -/
theorem C06_all_chunkings (chunks : List Bytes) :
    (feedAll [] chunks).frames = (feed [] chunks.flatten).frames ∧
    (feedAll [] chunks).exceeded = (feed [] chunks.flatten).exceeded := by
  obtain ⟨h1, h2, _⟩ := feedAllWith_eq_parse Afkak.Consts.kafkaMaxLength chunks [] (stuck_nil _)
  simp only [feedAll, feed, feedWith_eq_parse, List.nil_append] at *
  exact ⟨h1, h2⟩

/-- A packet too short to carry a correlation id (0–3 bytes; `get_response_correlation_id` raises
    `BufferUnderflowError` out of `dataReceived`, the reactor drops the connection).  Like an over-long
    prefix this terminates the connection, and it FAILS nobody: every request that is not cancelled and
    was not answered by an earlier packet of the same chunk is still in the table afterwards, unsent,
    with its serial, id and reply flag (so it is re-sent by `C10_resend_exact`), and nothing fires
    except the requests answered by those earlier packets. -/
theorem C06_short_frame (cfg : Cfg) (s : St) (chunk : Bytes)
    (hu : Ob.raiseUnderflow ∈ (step cfg s (.bytesIn chunk)).2) :
    (∀ r ∈ s.reqs, r.cancelled = false → (∀ b ∈ (feed s.rbuf chunk).frames, corrId b ≠ some r.id) →
        { r with sent := false } ∈ (step cfg s (.bytesIn chunk)).1.reqs) ∧
    (∀ k i res, Ob.fire k i res ∈ (step cfg s (.bytesIn chunk)).2 →
        ∃ b ∈ (feed s.rbuf chunk).frames, res = .ok b ∧ corrId b = some i) := by
  simp only [step] at hu ⊢
  split at hu
  · simp at hu
  · split at hu
    · simp at hu
    · rename_i c hp hl
      simp only [hp, hl, Bool.false_eq_true, if_false]
      obtain ⟨k1, k2⟩ := C06_no_crosstalk (feed s.rbuf chunk).frames s
      have hobs := handleFrames_obs s (feed s.rbuf chunk).frames
      have hlostfire : ∀ (s' : St) k i res, Ob.fire k i res ∉ (lostStep s').2 := by
        intro s' k i res
        simp only [lostStep, connect_, tryConnect]
        split <;> (try split) <;> simp
      split
      · refine ⟨?_, ?_⟩
        · intro r hr hc hb
          have := k1 r hr hb
          simp only [lostStep, connect_, tryConnect]
          have hm : { r with sent := false } ∈ ((handleFrames s (feed s.rbuf chunk).frames).1.reqs.filter (fun r => !r.cancelled)).map
              (fun r => { r with sent := false }) :=
            List.mem_map.mpr ⟨r, List.mem_filter.mpr ⟨this, by simp [hc]⟩, rfl⟩
          split <;> (try split) <;> exact hm
        · intro k i res hm
          rcases List.mem_append.mp hm with hm | hm
          · obtain ⟨b, hb, h1, h2, _⟩ := k2 k i res hm
            exact ⟨b, hb, h1, h2⟩
          · exact absurd hm (hlostfire _ k i res)
      · rename_i hr
        -- no exception escaped: contradiction with `hu`
        exfalso
        have hrz := handleFrames_raise (feed s.rbuf chunk).frames s
        rw [if_neg hr] at hu
        split at hu
        · rcases List.mem_append.mp hu with hu | hu
          · exact hr (hrz hu)
          · simp at hu
        · exact hr (hrz hu)

example : Ob.raiseUnderflow ∈ (step ⟨fun _ => 1⟩ (run ⟨fun _ => 1⟩ (St.init 1 9092) [.make 5 true, .connOk]) (.bytesIn [0, 0, 0, 2, 7, 7])).2 := by
  decide

/-- A reply reaches the request it answers: the routing monitor (a frame that is the first one
    carrying the id of a request written on the current connection, and that echoes that request's
    serial, fires that request or nobody — never a request made later with the same id) accepts
    every trace of the model.  This is what the tombstone of a cancelled request and the
    duplicate-id check are for. -/
theorem C06_answered_request (cfg : Cfg) (host port : Nat) (evs : List Ev) :
    routesOk (trace cfg (St.init host port) evs) = true := by
  simp only [routesOk]
  rw [routes_run cfg evs _ _ 0 (sinv_init host port) (rinv_init host port)]
  rfl

/-- The model the driver executes (`Afkak/BrokerClientR.lean`, with the loops of `_sendQueued`, `close()`
    and `dataReceived` written out so that callbacks can run inside them) IS the flat model of the
    theorems above whenever no callback is registered: same observations (markers dropped) for every
    event list, from some amount of fuel on. -/
theorem C06_reentrant_model_conservative (cfg : Cfg) (host port : Nat) (evs : List Ev) :
    ∃ N, ∀ fuel, N ≤ fuel →
      (Afkak.BrokerClientR.traceRWith cfg fuel (Afkak.BrokerClientR.StR.init host port) (evs.map .flat)).map
          (fun t => Afkak.BrokerClientR.plain t.2)
        = (trace cfg (St.init host port) evs).map (·.2) :=
  Afkak.BrokerClientR.traceR_flat cfg evs (Afkak.BrokerClientR.StR.init host port) rfl rfl rfl (sinv_init host port)

/-- C06 with RE-ENTRANT callbacks (`Afkak/BrokerClientR.lean`): whatever finite sequences of calls
    (`close`, `disconnect`, cancel another request, `makeRequest`) the callbacks attached to request
    Deferreds make when they fire — from inside `_sendQueued`'s loop, `close()`'s pop loop, between two
    packets of one `dataReceived`, nested to any depth — and with an endpoint that may even connect
    from inside `cancel()`: every Deferred fires only after it was handed out and at most once (no
    second firing is ever attempted), `ok b` only with a packet carrying its id, and every Deferred
    unfired when a `close()` goes ahead has fired when that call returns.  Hypothesis (decidable on the
    trace): the fuel of the interpreter sufficed, i.e. no `fuelOut` marker; the driver runs with
    100000 and would print it. -/
theorem C06_reentrant_partial (cfg : Cfg) (fuel host port : Nat) (evs : List Afkak.BrokerClientR.EvR)
    (hfuel : ∀ t ∈ Afkak.BrokerClientR.traceRWith cfg fuel (Afkak.BrokerClientR.StR.init host port) evs,
      Afkak.BrokerClientR.ObR.fuelOut ∉ t.2) :
    r06 (Afkak.BrokerClientR.traceRWith cfg fuel (Afkak.BrokerClientR.StR.init host port) evs) = true := by
  simp only [r06]
  rw [Afkak.BrokerClientR.r06_trace cfg fuel evs _ _ 0 (Afkak.BrokerClientR.top6_init host port) hfuel]
  rfl

/-! The hypothesis of `C06_reentrant_partial` is satisfiable with nested callbacks at work (fuel 20): the
callback of request 1 cancels request 2 and closes the client from inside `_sendQueued`; the close fires
request 3, whose callback makes a request on the closed client. -/
example : ∀ t ∈ Afkak.BrokerClientR.traceRWith ⟨fun _ => 1⟩ 20 (Afkak.BrokerClientR.StR.init 1 9092)
      [.make 1 false (some [.cancel 2, .close]), .make 2 false none, .make 3 true (some [.make 4 true]), .flat .connOk,
       .flat .lost],
    Afkak.BrokerClientR.ObR.fuelOut ∉ t.2 := by decide +kernel

/-- The re-entrant interpreter terminates: for every configuration, start state and event list there is
    an amount of fuel from which on no step of the run reaches the bottom of the interpreter (the
    callbacks are finite lists of actions; a callback runs at most once; a potential — table size, live
    entries, weight of the registered callbacks — bounds the nesting depth). -/
theorem C06_reentrant_terminates (cfg : Cfg) (host port : Nat) (evs : List Afkak.BrokerClientR.EvR) :
    ∃ N, ∀ fuel, N ≤ fuel →
      ∀ t ∈ Afkak.BrokerClientR.traceRWith cfg fuel (Afkak.BrokerClientR.StR.init host port) evs,
        Afkak.BrokerClientR.ObR.fuelOut ∉ t.2 :=
  Afkak.BrokerClientR.fuel_suffices cfg evs _

/-- "Exactly once" under RE-ENTRANT callbacks (and the stubborn / synchronous endpoints): at the end of
    every run of the re-entrant model in which the fuel sufficed — and some amount always does
    (`C06_reentrant_terminates`) — the Deferreds handed out are partitioned into those that fired,
    each exactly once in the recorded trace, and those still in the table and not cancelled: nothing
    is orphaned, nothing fires twice, whatever the callbacks did. -/
theorem C06_reentrant_partition (cfg : Cfg) (fuel host port : Nat) (evs : List Afkak.BrokerClientR.EvR)
    (hfuel : ∀ t ∈ Afkak.BrokerClientR.traceRWith cfg fuel (Afkak.BrokerClientR.StR.init host port) evs,
      Afkak.BrokerClientR.ObR.fuelOut ∉ t.2) :
    let s := Afkak.BrokerClientR.runRWith cfg fuel (Afkak.BrokerClientR.StR.init host port) evs
    let F := Afkak.BrokerClientR.firedR (Afkak.BrokerClientR.traceRWith cfg fuel (Afkak.BrokerClientR.StR.init host port) evs)
    F.Nodup ∧ (∀ k ∈ F, k < s.core.nmake) ∧
    (∀ k, k < s.core.nmake → ((∃ r ∈ s.core.reqs, r.serial = k ∧ r.cancelled = false) ↔ k ∉ F)) :=
  Afkak.BrokerClientR.partitionR cfg fuel host port evs hfuel

/-- C06 with RE-ENTRANT callbacks, unconditionally (formerly the open statement): for every
    configuration and every event list of the re-entrant model — callbacks that are any finite lists
    of `close` / `disconnect` / `cancel id` / `make id expect`, nested to any depth, with or without the
    endpoint that connects from inside `cancel()`, with endpoints that answer `connect()` synchronously
    (success or failure inside `makeRequest` / `_connectionLost` / the retry timer) — from some amount of fuel on the stream monitor `r06`
    accepts the trace: a Deferred fires only after it was handed out, at most once (no second firing
    is even attempted), `ok b` only with a packet carrying its id, and every Deferred unfired when a
    `close()` goes ahead has fired when that call returns. -/
theorem C06_reentrant (cfg : Cfg) (host port : Nat) (evs : List Afkak.BrokerClientR.EvR) :
    ∃ N, ∀ fuel, N ≤ fuel →
      r06 (Afkak.BrokerClientR.traceRWith cfg fuel (Afkak.BrokerClientR.StR.init host port) evs) = true := by
  obtain ⟨N, hN⟩ := C06_reentrant_terminates cfg host port evs
  exact ⟨N, fun fuel hf => C06_reentrant_partial cfg fuel host port evs (hN fuel hf)⟩

/-- "A frame announcing an impossible length terminates the connection instead of being buffered", for a transport that
    KEEPS DELIVERING after `loseConnection()` (a TLS transport, a simulated one): `dataReceived` as written, called
    for every chunk of ANY chunk list whatever happened before, only ever hands `stringReceived` packets that are frames
    of the byte stream received so far parsed from its start — after an over-long prefix it never resynchronises
    inside the stream, so no request can complete with bytes that never were a response frame.  (`framesGenuine` is
    evaluated on the packets the real `KafkaProtocol` / `KafkaBootstrapProtocol` deliver, with a transport that keeps
    delivering.) -/
theorem C06_only_genuine_frames (chunks : List Bytes) : framesGenuine [] (feedTrace [] chunks) = true :=
  Afkak.Frame.feedTrace_genuine chunks [] [] [] (Afkak.Frame.cont_init _)

/-- non-vacuity: a frame, an over-long prefix, then in LATER reads bytes that would parse as a frame if the loop
    restarted after the prefix: the genuine frame is re-delivered (the whole buffer is kept), nothing else is -/
example : feedTrace [] [[0, 0, 0, 1, 7, 0x80, 0, 0, 0], [0, 0, 0, 1, 9], [0, 0, 0, 1, 5]]
    = [([0, 0, 0, 1, 7, 0x80, 0, 0, 0], [[7]]), ([0, 0, 0, 1, 9], [[7]]), ([0, 0, 0, 1, 5], [[7]])] := by decide +kernel
example : framesGenuine [] [([0, 0, 0, 1, 7, 0x80, 0, 0, 0], [[7]]), ([0, 0, 0, 1, 9], [[9]])] = false := by decide +kernel

/-- Framing is PER CONNECTION ("frames split or coalesced arbitrarily by the transport are reassembled exactly", across
    connection losses).  `connBytes` is the concatenation of the chunks handed to the protocol of the connection that
    is current at the end of the run (a ghost, reset whenever a connection is established or goes away).  For every
    event list:
    * while no connection exists the receive buffer is empty — a partial frame pending when a connection drops is
      gone, it cannot reach the next connection;
    * while the connection is being read, `_unprocessed` is exactly what `IntNStringReceiver`'s loop (`parse`) leaves
      of THIS connection's bytes, none of which announced an over-long packet;
    * and the packets the next chunk hands to `handleResponse` (`(feed rbuf chunk).frames`, which is what `step` runs
      `handleFrames` on) are exactly those by which the parse of (this connection's bytes ++ chunk) extends the
      parse of this connection's bytes; the limit is exceeded by the one iff by the other.
    So over its lifetime a connection delivers the parse of the bytes IT received, however they were cut and
    whatever earlier connections received (`C06_all_chunkings` is the chunking half; this is the connection half). -/
theorem C06_frames_per_connection (cfg : Cfg) (host port : Nat) (evs : List Ev) :
    let s := run cfg (St.init host port) evs
    let acc := connBytes cfg (St.init host port) [] evs
    (s.proto = none → acc = [] ∧ s.rbuf = []) ∧
    (s.proto ≠ none → s.losing = false →
      (parse Afkak.Consts.kafkaMaxLength acc).exceeded = false ∧
      s.rbuf = (parse Afkak.Consts.kafkaMaxLength acc).rest ∧
      ∀ chunk : Bytes,
        (parse Afkak.Consts.kafkaMaxLength (acc ++ chunk)).frames
          = (parse Afkak.Consts.kafkaMaxLength acc).frames ++ (feed s.rbuf chunk).frames ∧
        (parse Afkak.Consts.kafkaMaxLength (acc ++ chunk)).exceeded = (feed s.rbuf chunk).exceeded) := by
  intro s acc
  have h := cinv_run cfg evs (St.init host port) [] (sinv_init host port) (cinv_init host port)
  refine ⟨h.idle, fun hp hl => ?_⟩
  obtain ⟨h1, h2⟩ := h.reading hp hl
  exact ⟨h1, h2, fun chunk => next_chunk_frames _ _ h hp hl chunk⟩

/-- How the transport cuts the byte stream is unobservable AT THE BROKER CLIENT: on a connection that is being read
    and is still being read after `dataReceived(c₁)` (no over-long prefix, no exception), `dataReceived(c₁)` followed by
    `dataReceived(c₂)` does exactly what one `dataReceived(c₁ ++ c₂)` does — the same Deferreds fire with the same
    packets in the same order, the same log lines and `lose`, the same state afterwards (up to the content of a
    receive buffer that is never read again when the second part announced an over-long packet).  By induction on
    the number of cuts: any chunking of a connection's bytes fires what the unchunked stream fires. -/
theorem C06_chunk_split_unobservable (cfg : Cfg) (s : St) (c : Nat) (c1 c2 : Bytes) (hp : s.proto = some c) (hl : s.losing = false)
    (h1 : (step cfg s (.bytesIn c1)).1.proto = some c) (h2 : (step cfg s (.bytesIn c1)).1.losing = false) :
    (step cfg s (.bytesIn (c1 ++ c2))).2 = (step cfg s (.bytesIn c1)).2 ++ (step cfg (step cfg s (.bytesIn c1)).1 (.bytesIn c2)).2 ∧
    { (step cfg s (.bytesIn (c1 ++ c2))).1 with rbuf := [] }
      = { (step cfg (step cfg s (.bytesIn c1)).1 (.bytesIn c2)).1 with rbuf := [] } ∧
    ((step cfg (step cfg s (.bytesIn c1)).1 (.bytesIn c2)).1.losing = false →
      (step cfg s (.bytesIn (c1 ++ c2))).1 = (step cfg (step cfg s (.bytesIn c1)).1 (.bytesIn c2)).1) :=
  split_unobservable cfg s c c1 c2 hp hl h1 h2

/-- non-vacuity: the response to request 5 cut inside its correlation id -/
example : let s := run ⟨fun _ => 1⟩ (St.init 1 9092) [.make 5 true, .make 6 true, .connOk]
    s.proto = some 0 ∧ s.losing = false ∧
    (step ⟨fun _ => 1⟩ s (.bytesIn [0, 0, 0, 4, 0, 0])).1.proto = some 0 ∧
    (step ⟨fun _ => 1⟩ s (.bytesIn [0, 0, 0, 4, 0, 0])).1.losing = false ∧
    (step ⟨fun _ => 1⟩ s (.bytesIn ([0, 0, 0, 4, 0, 0] ++ [0, 5, 0, 0, 0, 4, 0, 0, 0, 6]))).2
      = [.fire 0 5 (.ok [0, 0, 0, 5]), .fire 1 6 (.ok [0, 0, 0, 6])] := by decide +kernel

/-- every connection starts with an empty receive buffer, whatever the previous connection left unparsed -/
theorem C06_fresh_buffer_per_connection (cfg : Cfg) (s : St) (h : s.connector = .attempt) :
    (step cfg s .connOk).1.rbuf = [] ∧ (step cfg s .connOk).1.proto = some s.nconn := by
  simp only [step, h, if_true]
  split <;> simp [sendQueued]

/-- non-vacuity / the `shared receive buffer` scenario: connection 0 is lost inside the response frame to request 5
    (7 of its 8 bytes had arrived); on connection 1 the request is re-sent and its complete response arrives: it is
    delivered, the stale bytes are not prepended. -/
example : (trace ⟨fun _ => 1⟩ (St.init 1 9092)
      [.make 5 true, .connOk, .bytesIn [0, 0, 0, 4, 0, 0, 0], .lost, .connOk, .bytesIn [0, 0, 0, 4, 0, 0, 0, 5]]).map (·.2) =
    [[.connect 1 9092], [.write 0 0 5], [], [.connect 1 9092], [.write 1 0 5], [.fire 0 5 (.ok [0, 0, 0, 5])]] := by
  decide +kernel
example : connBytes ⟨fun _ => 1⟩ (St.init 1 9092) []
      [.make 5 true, .connOk, .bytesIn [0, 0, 0, 4, 0, 0, 0], .lost, .connOk, .bytesIn [0, 0, 0, 4, 0, 0], .bytesIn [0, 5, 9]]
    = [0, 0, 0, 4, 0, 0, 0, 5, 9] := by decide +kernel

/-- C06 with RE-ENTRANT callbacks, WITHOUT any fuel qualifier.  `traceRω` / `runRω` (`AfkakProofs/BrokerClient/
    FuelFree.lean`) run every step of the re-entrant model with the amount of fuel that step needs (`evBound`, an
    explicit function of the state and the event); the fuel is only the device that makes the interpreter structurally
    recursive.  For every configuration and every event list (callbacks = any finite lists of `close` / `disconnect` /
    `cancel id` / `make id expect`, nested to any depth, stubborn and synchronous endpoints included):
    * the stream monitor `r06` accepts the run (fires only after hand-out, at most once — no second firing is even
      attempted —, `ok b` only with a packet carrying its id, everything unfired when a `close()` goes ahead has
      fired when that call returns);
    * at its end the Deferreds handed out are partitioned into fired-exactly-once and still-in-the-table-uncancelled
      (nothing orphaned, nothing twice);
    * and every fuel-indexed run with enough fuel IS this run — observations and final state. -/
theorem C06_reentrant_fuel_free (cfg : Cfg) (host port : Nat) (evs : List Afkak.BrokerClientR.EvR) :
    r06 (Afkak.BrokerClientR.traceRω cfg (Afkak.BrokerClientR.StR.init host port) evs) = true ∧
    (let s := Afkak.BrokerClientR.runRω cfg (Afkak.BrokerClientR.StR.init host port) evs
     let F := Afkak.BrokerClientR.firedR (Afkak.BrokerClientR.traceRω cfg (Afkak.BrokerClientR.StR.init host port) evs)
     F.Nodup ∧ (∀ k ∈ F, k < s.core.nmake) ∧
     (∀ k, k < s.core.nmake → ((∃ r ∈ s.core.reqs, r.serial = k ∧ r.cancelled = false) ↔ k ∉ F))) ∧
    (∃ N, ∀ fuel, N ≤ fuel →
      Afkak.BrokerClientR.traceRWith cfg fuel (Afkak.BrokerClientR.StR.init host port) evs
          = Afkak.BrokerClientR.traceRω cfg (Afkak.BrokerClientR.StR.init host port) evs ∧
      Afkak.BrokerClientR.runRWith cfg fuel (Afkak.BrokerClientR.StR.init host port) evs
          = Afkak.BrokerClientR.runRω cfg (Afkak.BrokerClientR.StR.init host port) evs) :=
  ⟨Afkak.BrokerClientR.r06_ω cfg host port evs, Afkak.BrokerClientR.partition_ω cfg host port evs,
   Afkak.BrokerClientR.traceRWith_eq_ω cfg evs _⟩

/-- "A response is never delivered to a different request / only the frame bearing its id completes a request", WITH
    re-entrant callbacks (audit round 2, C06-1): in ANY state of the re-entrant model, with any fuel, for ANY event —
    callbacks nested to any depth, stubborn and synchronous endpoints included — a Deferred fires with response bytes,
    at top level or inside a callback, only in a `dataReceived` step on a readable connection, and then with a packet
    that THIS call completed (a frame `feed` yields from `_unprocessed` and the chunk) whose first four bytes are the
    request's correlation id.  So a frame with an unknown id fires nobody, nothing fires `ok` in any other kind of step,
    and no callback can make a Deferred fire with bytes that are not a frame of this very call.  (The R-analogue of
    `C06_own_response`; the stream monitor `r06` checks only the id.) -/
theorem C06_reentrant_own_response (cfg : Cfg) (fuel : Nat) (s : Afkak.BrokerClientR.StR) (e : Afkak.BrokerClientR.EvR)
    (k : Nat) (i : Int) (b : Bytes)
    (h : Afkak.BrokerClientR.ObR.ob (.fire k i (.ok b)) ∈ (Afkak.BrokerClientR.stepRWith cfg fuel s e).2) :
    ∃ chunk conn, e = .flat (.bytesIn chunk) ∧ s.core.proto = some conn ∧ s.core.losing = false ∧
      b ∈ (feed s.core.rbuf chunk).frames ∧ corrId b = some i :=
  Afkak.BrokerClientR.own_response_R cfg fuel s e i b _ h ⟨k, rfl⟩

/-- non-vacuity: the reply to request 1 arrives; its callback makes request 3 and cancels request 2 from inside the firing -/
example : (Afkak.BrokerClientR.traceR ⟨fun _ => 1⟩ (Afkak.BrokerClientR.StR.init 1 9092)
      [.make 1 true (some [.make 3 true, .cancel 2]), .make 2 true none, .flat .connOk,
       .flat (.bytesIn [0, 0, 0, 4, 0, 0, 0, 1])]).map (·.2) =
    [[.ob (.connect 1 9092), .made 0 1], [.made 1 2], [.ob (.write 0 0 1), .ob (.write 0 1 2)],
     [.ob (.fire 0 1 (.ok [0, 0, 0, 1])), .hookBegin 0, .ob (.write 0 2 3), .made 2 3, .ob (.fire 1 2 (.err .cancelled)),
      .hookEnd]] := by decide +kernel


/-- The same for the very function the DRIVER executes (`stepR` = fuel 100000, `traceR`): whenever the driver's fuel
    covers the explicit per-step bound along the run (`fuelOk`, a decidable check on the scenario; the generated
    scenarios need a few hundred), the driver's run IS the fuel-free run, and `r06` accepts it. -/
theorem C06_reentrant_driver (cfg : Cfg) (host port : Nat) (evs : List Afkak.BrokerClientR.EvR)
    (hok : Afkak.BrokerClientR.fuelOk cfg Afkak.BrokerClientR.fuel (Afkak.BrokerClientR.StR.init host port) evs = true) :
    Afkak.BrokerClientR.traceR cfg (Afkak.BrokerClientR.StR.init host port) evs
        = Afkak.BrokerClientR.traceRω cfg (Afkak.BrokerClientR.StR.init host port) evs ∧
    r06 (Afkak.BrokerClientR.traceR cfg (Afkak.BrokerClientR.StR.init host port) evs) = true := by
  have e : Afkak.BrokerClientR.traceR cfg (Afkak.BrokerClientR.StR.init host port) evs
      = Afkak.BrokerClientR.traceRω cfg (Afkak.BrokerClientR.StR.init host port) evs := by
    rw [Afkak.BrokerClientR.traceR_eq_with]
    exact (Afkak.BrokerClientR.of_fuelOk cfg _ evs _ hok).1
  exact ⟨e, by rw [e]; exact Afkak.BrokerClientR.r06_ω cfg host port evs⟩

/-- non-vacuity of `fuelOk`: the nested-callback scenario above needs 73 by the bound (20 in fact); the driver has 100000 -/
example : Afkak.BrokerClientR.fuelOk ⟨fun _ => 1⟩ 73 (Afkak.BrokerClientR.StR.init 1 9092)
      [.make 1 false (some [.cancel 2, .close]), .make 2 false none, .make 3 true (some [.make 4 true]), .flat .connOk,
       .flat .lost] = true := by decide +kernel

/-- Bootstrap connection, any number of requests, any event list: every request Deferred fires
    exactly once — with the packet carrying its id, by its own cancel, or with the connection-lost
    reason — and an over-long prefix drops the connection (the non-strict bootstrap monitor). -/
theorem C06_bootstrap_monitor_sound (evs : List Bootstrap.Ev) :
    bootAccepts false (Bootstrap.trace Bootstrap.St.init evs) = true := by
  simp only [bootAccepts]
  rw [← Bootstrap.absB_init, Bootstrap.simB_run _ evs Bootstrap.binv_init]
  rfl

/-- What acceptance by the bootstrap monitor MEANS, for any trace — the model's or one recorded from the real
    `KafkaBootstrapProtocol` —, either strictness: the serials that fired (in order, with repetitions if there were any)
    together with the requests the monitor still counts as live are a permutation of the serials handed out
    (`0 … bootMade tr - 1`), and after the connection was lost nothing is live.  So no Deferred fired twice, none
    fired that was not handed out, none is orphaned, and once the connection is lost every one has fired exactly
    once. -/
theorem C06_bootstrap_exactly_once_of_accepted (strict : Bool) (tr : List (Bootstrap.Ev × List Bootstrap.Ob)) (m : BSt)
    (h : brun strict BSt.init tr = some m) :
    (bootFired tr ++ m.live.map (·.serial)).Perm (List.range (bootMade tr)) ∧ (m.lost = true → m.live = []) :=
  bootAccepts_exactly_once strict tr m h

/-- Bootstrap connection, exactly once, for every event list of the model: the fired serials are distinct and were
    handed out; a Deferred handed out has fired iff it is no longer pending-and-uncancelled in `_pending`; and once the
    connection is lost (`_failed` set) the fired serials are exactly all the serials handed out, each once. -/
theorem C06_bootstrap_exactly_once (evs : List Bootstrap.Ev) :
    let tr := Bootstrap.trace Bootstrap.St.init evs
    let s := Bootstrap.run Bootstrap.St.init evs
    (bootFired tr).Nodup ∧ (∀ k ∈ bootFired tr, k < bootMade tr) ∧
    (∀ k, k < bootMade tr → (k ∈ bootFired tr ↔ ¬ ∃ l ∈ Bootstrap.absBLive s.pending, l.serial = k)) ∧
    (s.failed = true → (bootFired tr).Perm (List.range (bootMade tr))) := by
  intro tr s
  have hr : brun false BSt.init tr = some (Bootstrap.absB s) := by
    rw [← Bootstrap.absB_init]; exact Bootstrap.simB_run _ evs Bootstrap.binv_init
  obtain ⟨hp, hl⟩ := bootAccepts_exactly_once false tr _ hr
  have hnd := hp.nodup_iff.mpr List.nodup_range
  obtain ⟨n1, _, n3⟩ := List.nodup_append.mp hnd
  have hlive : (Bootstrap.absB s).live = Bootstrap.absBLive s.pending := rfl
  rw [hlive] at hp hl n3
  refine ⟨n1, fun k hk => ?_, fun k hk => ⟨fun hf ⟨l, hl1, hl2⟩ => ?_, fun hn => ?_⟩, fun hf => ?_⟩
  · have := hp.mem_iff.mp (List.mem_append_left _ hk)
    simpa using this
  · exact n3 k hf k (hl2 ▸ List.mem_map_of_mem hl1) rfl
  · have := hp.mem_iff.mpr (List.mem_range.mpr hk)
    rcases List.mem_append.mp this with h | h
    · exact h
    · obtain ⟨l, hl1, hl2⟩ := List.mem_map.mp h
      exact absurd ⟨l, hl1, hl2⟩ hn
  · have : Bootstrap.absBLive s.pending = [] := hl hf
    rw [this] at hp
    simpa using hp

/-- non-vacuity: three requests; one answered, one cancelled, one failed by the loss of the connection -/
example : bootFired (Bootstrap.trace Bootstrap.St.init
      [.request [0, 3, 0, 0, 0, 0, 0, 2], .request [0, 3, 0, 0, 0, 0, 0, 3], .request [0, 3, 0, 0, 0, 0, 0, 4], .cancel 1,
       .bytesIn [0, 0, 0, 5, 0, 0, 0, 2, 0x44], .lost .lost]) = [1, 0, 2] := by decide

/-- `connectionLost(reason)` on a bootstrap connection: every pending, uncancelled request fails with THAT reason
    (nothing else fires), `_pending` is dropped, and from then on every `request()` fails at once with the same
    reason (`_failed`), writes nothing and raises nothing. -/
theorem C06_bootstrap_lost_reason (s : Bootstrap.St) (ps : List Bootstrap.Pend) (r : Bootstrap.Reason)
    (hp : s.pending = some ps) :
    (Bootstrap.step s (.lost r)).2 = (ps.filter (fun p => !p.cancelled)).map (fun p => .fire p.serial (.connLost r)) ∧
    (Bootstrap.step s (.lost r)).1.pending = none ∧
    ∀ (evs : List Bootstrap.Ev) (payload : Bytes),
      (∀ e ∈ evs, ∃ p, e = .request p) →
      (Bootstrap.step (Bootstrap.run (Bootstrap.step s (.lost r)).1 evs) (.request payload)).2
        = [.fire (Bootstrap.run (Bootstrap.step s (.lost r)).1 evs).nreq (.connLost r)] := by
  refine ⟨by simp [Bootstrap.step, hp], by simp [Bootstrap.step, hp], ?_⟩
  intro evs payload hev
  have key : ∀ (evs : List Bootstrap.Ev) (t : Bootstrap.St), t.failed = true → t.reason = r → (∀ e ∈ evs, ∃ p, e = .request p) →
      (Bootstrap.run t evs).failed = true ∧ (Bootstrap.run t evs).reason = r := by
    intro evs
    induction evs with
    | nil => intro t h1 h2 _; exact ⟨h1, h2⟩
    | cons e es ih =>
      intro t h1 h2 he
      obtain ⟨p, rfl⟩ := he e (by simp)
      simp only [Bootstrap.run]
      apply ih
      · simp [Bootstrap.step, h1]
      · simp [Bootstrap.step, h1, h2]
      · intro e' he'; exact he e' (by simp [he'])
  obtain ⟨k1, k2⟩ := key evs (Bootstrap.step s (.lost r)).1 (by simp [Bootstrap.step, hp]) (by simp [Bootstrap.step, hp]) hev
  generalize Bootstrap.run (Bootstrap.step s (.lost r)).1 evs = t at k1 k2 ⊢
  simp [Bootstrap.step, k1, k2]

example : (Bootstrap.trace Bootstrap.St.init
      [.request [0, 3, 0, 0, 0, 0, 0, 2], .lost .lost, .request [0, 3, 0, 0, 0, 0, 0, 3]]).map (·.2)
    = [[.write 0], [.fire 0 (.connLost .lost)], [.fire 1 (.connLost .lost)]] := by decide

/-- Single-request use of a bootstrap connection (what `KafkaClient` does): if the first packet of
    the broker's byte stream is a legal frame carrying the request's correlation id, the request
    fires exactly once, with exactly that packet — however the stream is cut and whatever follows
    (duplicates, unsolicited packets that make the protocol drop the connection, over-long
    prefixes). -/
theorem C06_bootstrap_single (p f1 rest : Bytes) (chunks : List Bytes) (hf : f1.length < 2 ^ 31)
    (hcid : Bootstrap.respCid f1 = Bootstrap.reqCid p) (hc : chunks.flatten = encode f1 ++ rest) :
    Bootstrap.firesOf (Bootstrap.trace Bootstrap.St.init (.request p :: chunks.map .bytesIn)) = [(0, .ok f1)] := by
  have hle : f1.length ≤ Afkak.Consts.kafkaMaxLength := by
    have : (2:Nat) ^ 31 - 1 ≤ Afkak.Consts.kafkaMaxLength := by decide
    omega
  have hstep : Bootstrap.step Bootstrap.St.init (.request p) =
      ({ Bootstrap.St.init with nreq := 1, pending := some [⟨Bootstrap.reqCid p, 0, false⟩] }, [.write 0]) := by
    simp [Bootstrap.step, Bootstrap.St.init]
  simp only [Bootstrap.trace, Bootstrap.firesOf, List.flatMap_cons, hstep]
  have := Bootstrap.bootstrap_single_core (Bootstrap.reqCid p) f1 rest hle hcid chunks
    { Bootstrap.St.init with nreq := 1, pending := some [⟨Bootstrap.reqCid p, 0, false⟩] } rfl rfl (by simp [Bootstrap.St.init]; omega)
    (by simpa [Bootstrap.St.init] using hc)
  simp only [Bootstrap.firesOf] at this
  simp [bootFires, this]

/-- Bootstrap connection, "a frame whose id belongs to a cancelled request changes the outcome of no other
    request": a chunk that completes one packet carrying the id of a request that was cancelled on this
    connection (every pending entry with that id is cancelled) fires nothing, does NOT make the protocol drop the
    connection, and removes only that entry from `_pending` — the other requests stay pending.  (The monitor
    `bstep` demands the same of the implementation: `lose` only for an over-long prefix or a packet counted by
    `bootDrops`, i.e. one that no request made on this connection, cancelled or not, is still waiting for.) -/
theorem C06_bootstrap_cancelled_id_harmless (s : Bootstrap.St) (ps : List Bootstrap.Pend) (chunk f : Bytes)
    (hp : s.pending = some ps) (hl : s.losing = false)
    (hfr : (feed s.rbuf chunk).frames = [f]) (hex : (feed s.rbuf chunk).exceeded = false)
    (hk : ps.any (fun p => p.cid == Bootstrap.respCid f) = true)
    (hc : ∀ p ∈ ps, p.cid = Bootstrap.respCid f → p.cancelled = true) :
    (Bootstrap.step s (.bytesIn chunk)).2 = [] ∧
    (Bootstrap.step s (.bytesIn chunk)).1.losing = false ∧
    (Bootstrap.step s (.bytesIn chunk)).1.pending = some (ps.filter (fun p => p.cid != Bootstrap.respCid f)) := by
  have hnone : ps.filter (fun p => p.cid == Bootstrap.respCid f && !p.cancelled) = [] := by
    rw [List.filter_eq_nil_iff]
    intro p hp'
    by_cases h : p.cid = Bootstrap.respCid f
    · simp [h, hc p hp' h]
    · simp [h]
  simp [Bootstrap.step, hp, hl, hfr, hex, Bootstrap.deliver, Bootstrap.stringReceived, hk, hnone]

/-- non-vacuity: two requests, the first cancelled, its late reply arrives: the second is still pending -/
example :
    let s := Bootstrap.run Bootstrap.St.init [.request [0, 3, 0, 0, 0, 0, 0, 2], .request [0, 3, 0, 0, 0, 0, 0, 3], .cancel 0]
    (feed s.rbuf [0, 0, 0, 5, 0, 0, 0, 2, 0x44]).frames = [[0, 0, 0, 2, 0x44]] ∧
    s.pending = some [⟨[0, 0, 0, 2], 0, true⟩, ⟨[0, 0, 0, 3], 1, false⟩] ∧
    (Bootstrap.step s (.bytesIn [0, 0, 0, 5, 0, 0, 0, 2, 0x44])).1.pending = some [⟨[0, 0, 0, 3], 1, false⟩] := by decide

/-- The code violates the full-strength bootstrap statement (`Open/C06.lean`): two requests pending,
    the reply to the first and then a packet with an id nobody asked for — the protocol drops the
    connection and the second request is lost with it. -/
theorem C06_bootstrap_no_crosstalk_counterexample : ¬ Open.C06_bootstrap_no_crosstalk := by
  intro h
  have := h [.request [0, 3, 0, 0, 0, 0, 0, 2], .request [0, 3, 0, 0, 0, 0, 0, 3],
             .bytesIn [0, 0, 0, 5, 0, 0, 0, 2, 0x44, 0, 0, 0, 2, 0, 1], .lost .done]
  revert this
  decide

/-- The part of it that holds: as long as the protocol itself never drops the connection
    (`lose` is never observed — no packet with an unknown id, no over-long prefix), the strict
    monitor accepts: nothing but its own packet, its own cancel or the loss of the connection decides a
    request's outcome. -/
theorem C06_bootstrap_no_crosstalk_partial (evs : List Bootstrap.Ev)
    (hq : (Bootstrap.trace Bootstrap.St.init evs).all (fun t => !t.2.contains .lose) = true) :
    bootAccepts true (Bootstrap.trace Bootstrap.St.init evs) = true := by
  have hs := C06_bootstrap_monitor_sound evs
  simp only [bootAccepts] at hs ⊢
  generalize Bootstrap.trace Bootstrap.St.init evs = tr at hs hq
  generalize BSt.init = m at hs
  induction tr generalizing m with
  | nil => rfl
  | cons t ts ih =>
    simp only [List.all_cons, Bool.and_eq_true] at hq
    simp only [brun] at hs ⊢
    have hstep : bstep true m t = bstep false m t := by
      obtain ⟨e, os⟩ := t
      have hnl : os.count .lose = 0 := by
        rw [List.count_eq_zero]
        intro hm
        have := hq.1
        simp only [Bool.not_eq_eq_eq_not, Bool.not_true] at this
        rw [← List.contains_iff_mem, this] at hm
        exact Bool.false_ne_true hm
      cases e <;> simp [bstep, hnl]
    rw [hstep]
    cases hb : bstep false m t with
    | none => simp [hb] at hs
    | some m' =>
      simp only [hb] at hs ⊢
      exact ih hq.2 m' hs

example : (Bootstrap.trace Bootstrap.St.init [.request [0, 3, 0, 0, 0, 0, 0, 2], .bytesIn [0, 0, 0, 5, 0, 0, 0, 2, 0x44]]).all
    (fun t => !t.2.contains .lose) = true := by decide
example : Bootstrap.respCid [0, 0, 0, 2, 0x44] = Bootstrap.reqCid [0, 3, 0, 0, 0, 0, 0, 2] := by decide


/-! ## Framing × broker client, on raw bytes, per connection (`Afkak/BrokerClientBytes.lean`)

The per-connection fold `lstep` cuts a trace into one log per connection — ALL the bytes that connection's protocol was
handed, as one string, and the `ok` firings while it was current — and checks every `dataReceived` against the framing
loop run ONCE over that whole string (`parseAll`).  It knows nothing of `_unprocessed`, of the request table or of how the
bytes were cut. -/
section Bytes
open Afkak.BrokerClientBytes

/-- Whatever trace the C06 monitor accepts — the model's or one recorded from the real `_KafkaBrokerClient` — passes the
    whole-stream per-connection check (pure reasoning about the two monitors; no model state involved). -/
theorem C06_bytes_of_accepted (tr : List (Ev × List Ob)) (h : accepts tr = true) : bytesOk tr = true :=
  bytesOk_of_accepts tr h

/-- … so every trace of the model does: any event list (make/cancel/close/disconnect/lost/connect results/clock in any
    interleaving with the bytes), any chunking, any retry policy. -/
theorem C06_bytes_monitor_sound (cfg : Cfg) (host port : Nat) (evs : List Ev) :
    bytesOk (trace cfg (St.init host port) evs) = true :=
  bytesOk_of_accepts _ (C06_monitor_sound cfg host port evs)

/-- What `bytesOk` MEANS, for any trace whatsoever (no model, no other monitor): every `ok` firing of the trace is
    recorded, in order, in the log of the connection that was current; every payload a Deferred fired with on a
    connection is one of the frames of the parse — from its start, in one go — of the bytes THAT connection received
    (so never bytes of an earlier connection, never bytes read from a misaligned position, never anything at or after an
    over-long prefix, where that parse stops), and its first four bytes are the request's correlation id; and a connection
    whose byte stream reaches an over-long prefix has been dropped. -/
theorem C06_bytes_meaning (tr : List (Ev × List Ob)) (h : bytesOk tr = true) :
    tr.flatMap (fun t => okFires t.2) = (connLogs tr).flatMap (·.oks) ∧
    ∀ g ∈ connLogs tr,
      (∀ x ∈ g.oks, x.2.2 ∈ (parseAll g.bytes).frames ∧ corrId x.2.2 = some x.2.1) ∧
      ((parseAll g.bytes).exceeded = true → g.dropped = true) :=
  bytesOk_meaning tr h

/-- `bytesOk`, step by step, for ANY trace (audit round 2, C06-3): a Deferred fires with response bytes only in a
    `dataReceived` step of the connection that is current, which has not been told to go, and with a packet that THIS
    call completed — one of `newFrames` (bytes of that connection before the call) (the chunk), i.e. of the frames by
    which the whole-stream parse grows through this chunk — carrying its correlation id.  (A re-used id cannot be answered
    by an earlier frame of the same connection.) -/
theorem C06_bytes_meaning_at (pre post : List (Ev × List Ob)) (e : Ev) (os : List Ob)
    (h : bytesOk (pre ++ (e, os) :: post) = true) (x : Nat × Int × Bytes) (hx : x ∈ okFires os) :
    ∃ chunk g, e = .bytesIn chunk ∧ (lrun LSt.init pre).cur = some g ∧ g.dropped = false ∧
      x.2.2 ∈ newFrames g.bytes chunk ∧ corrId x.2.2 = some x.2.1 :=
  bytesOk_at pre post e os h x hx


/-- C06 sentences 1+2 end to end on raw bytes, for every event list of the model: each Deferred fires at most once
    (`firedOf`: all firings, of any kind), and a Deferred that fires with response bytes does so with a frame of the
    whole-stream parse of the bytes of the connection it was answered on, carrying its correlation id. -/
theorem C06_bytes_end_to_end (cfg : Cfg) (host port : Nat) (evs : List Ev) :
    let tr := trace cfg (St.init host port) evs
    (firedOf tr).Nodup ∧
    tr.flatMap (fun t => okFires t.2) = (connLogs tr).flatMap (·.oks) ∧
    ∀ g ∈ connLogs tr,
      (∀ x ∈ g.oks, x.2.2 ∈ (parseAll g.bytes).frames ∧ corrId x.2.2 = some x.2.1) ∧
      ((parseAll g.bytes).exceeded = true → g.dropped = true) := by
  intro tr
  obtain ⟨h1, h2⟩ := C06_bytes_meaning tr (C06_bytes_monitor_sound cfg host port evs)
  exact ⟨C06_at_most_once cfg host port evs, h1, h2⟩

/-- non-vacuity: connection 0 is lost inside the reply to request 5 (7 of 8 bytes in); on connection 1 the reply arrives
    cut in two, followed by an over-long prefix.  Two logs; the payload is a frame of connection 1's bytes alone. -/
example : connLogs (trace ⟨fun _ => 1⟩ (St.init 1 9092)
      [.make 5 true, .connOk, .bytesIn [0, 0, 0, 4, 0, 0, 0], .lost, .connOk, .bytesIn [0, 0, 0, 4, 0, 0],
       .bytesIn [0, 5, 0x80, 0, 0, 0, 9]]) =
    [⟨0, [0, 0, 0, 4, 0, 0, 0], [], false⟩, ⟨1, [0, 0, 0, 4, 0, 0, 0, 5, 0x80, 0, 0, 0, 9], [(0, 5, [0, 0, 0, 5])], true⟩] := by
  decide +kernel
example : (parseAll [0, 0, 0, 4, 0, 0, 0, 5, 0x80, 0, 0, 0, 9]).frames = [[0, 0, 0, 5]] ∧
    (parseAll [0, 0, 0, 4, 0, 0, 0, 5, 0x80, 0, 0, 0, 9]).exceeded = true := by decide +kernel
/-- the fold does reject: a Deferred fired with bytes that are no frame of its connection's stream (here: the stale
    bytes of connection 0 prepended), and a firing outside a `dataReceived` -/
example : bytesOk [(.connOk, []), (.bytesIn [0, 0, 0, 4, 0, 0, 0], []), (.lost, []), (.connOk, []),
      (.bytesIn [5, 0, 0, 0], [.fire 0 5 (.ok [0, 0, 0, 5])])] = false := by decide +kernel
example : bytesOk [(.connOk, []), (.lost, [.fire 0 5 (.ok [0, 0, 0, 5])])] = false := by decide +kernel

/-- "A frame split across a connection loss never leaks into the next connection": in ANY state with a readable
    connection, a chunk that completes no packet and announces no over-long one (a partial frame) followed by the loss of
    the connection is observably and in its effect on the state exactly the loss alone — so every continuation (the
    reconnect, the re-sent requests, the bytes of the next connection) runs as if the partial frame had never arrived. -/
theorem C06_bytes_partial_frame_dies (cfg : Cfg) (s : St) (c : Nat) (chunk : Bytes) (hp : s.proto = some c) (hl : s.losing = false)
    (hf : (feed s.rbuf chunk).frames = []) (hx : (feed s.rbuf chunk).exceeded = false) (post : List Ev) :
    (step cfg s (.bytesIn chunk)).2 = [] ∧
    (step cfg (step cfg s (.bytesIn chunk)).1 .lost).2 = (step cfg s .lost).2 ∧
    trace cfg (run cfg s [.bytesIn chunk, .lost]) post = trace cfg (run cfg s [.lost]) post := by
  obtain ⟨h1, h2⟩ := partial_frame_dies cfg s c chunk hp hl hf hx
  refine ⟨h1, by rw [h2], ?_⟩
  simp only [run]
  rw [h2]

example : let s := run ⟨fun _ => 1⟩ (St.init 1 9092) [.make 5 true, .connOk]
    s.proto = some 0 ∧ s.losing = false ∧ (feed s.rbuf [0, 0, 0, 4, 0, 0, 0]).frames = [] ∧
    (feed s.rbuf [0, 0, 0, 4, 0, 0, 0]).exceeded = false := by decide +kernel

/-- "An oversize prefix ends that connection without delivering anything after it": in ANY state with a readable
    connection, a chunk with which the stream reaches an over-long prefix gets `loseConnection()` called (or, if an
    earlier packet of the same chunk was too short to carry an id, the exception drops the connection), and from then
    on, whatever happens — more bytes, requests, cancels, timers, close — no Deferred fires with response bytes until a
    NEW connection has been established.  (What the chunk delivered BEFORE the prefix is `C06_oversize`.) -/
theorem C06_bytes_oversize_ends_connection (cfg : Cfg) (s : St) (c : Nat) (chunk : Bytes) (hp : s.proto = some c)
    (hl : s.losing = false) (hx : (feed s.rbuf chunk).exceeded = true) (es : List Ev) (hes : Ev.connOk ∉ es) :
    (Ob.lose c ∈ (step cfg s (.bytesIn chunk)).2 ∨ Ob.raiseUnderflow ∈ (step cfg s (.bytesIn chunk)).2) ∧
    ∀ t ∈ trace cfg (step cfg s (.bytesIn chunk)).1 es, ∀ k i b, Ob.fire k i (.ok b) ∉ t.2 := by
  obtain ⟨h1, h2⟩ := oversize_deaf cfg s c chunk hp hl hx
  exact ⟨h2, fun t ht => deaf_trace cfg es _ h1 hes t ht⟩

example : let s := run ⟨fun _ => 1⟩ (St.init 1 9092) [.make 5 true, .connOk]
    s.proto = some 0 ∧ s.losing = false ∧ (feed s.rbuf [0x80, 0, 0, 0]).exceeded = true := by decide +kernel

/-- "A response is never delivered to a different request", counted: in every reachable state one `dataReceived` fires
    no more Deferreds with response bytes than it completed packets — a packet fires at most one Deferred. -/
theorem C06_bytes_one_per_frame (cfg : Cfg) (host port : Nat) (evs : List Ev) (c : Nat) (chunk : Bytes) :
    let s := run cfg (St.init host port) evs
    s.proto = some c → s.losing = false →
    (okFires (step cfg s (.bytesIn chunk)).2).length ≤ (feed s.rbuf chunk).frames.length := by
  intro s hp hl
  have hs : SInv s := sinv_run cfg (St.init host port) evs (sinv_init host port)
  rw [step_bytesIn cfg s c chunk hp hl]
  have h := oks_le_frames (feed s.rbuf chunk).frames s hs
  have hl0 : ∀ s' : St, okFires (lostStep s').2 = [] := by
    intro s'
    simp only [lostStep, connect_, tryConnect]
    split
    · rfl
    · split <;> rfl
  simp only [bytesStep]
  split
  · rw [okFires_append, hl0, List.append_nil]; exact h
  · split
    · rw [okFires_append]; simpa [okFires] using h
    · exact h


/-- "Frames split or coalesced arbitrarily by the transport are reassembled exactly", at the broker client, with NO side
    condition: in ANY state, for ANY non-empty list of chunks, one `dataReceived` per chunk and ONE `dataReceived` with their
    concatenation produce the same observations — the same Deferreds fire with the same packets in the same order, the same
    log lines, the same `lose` / exception / reconnect — up to the `badOp` markers of calls a transport that has stopped
    reading never makes (`vis` drops them), and end in the same state, up to a receive buffer that is never read again
    (`Eqv`: equal but for `rbuf`, and equal including `rbuf` whenever the connection is still being read).
    `C06_chunk_split_unobservable` is the two-chunk case under the hypothesis that the connection stays readable. -/
theorem C06_bytes_any_chunking (cfg : Cfg) (s : St) (c : Bytes) (cs : List Bytes) :
    vis (obs cfg s ((c :: cs).map .bytesIn)) = vis (step cfg s (.bytesIn (c :: cs).flatten)).2 ∧
    Eqv (run cfg s ((c :: cs).map .bytesIn)) (step cfg s (.bytesIn (c :: cs).flatten)).1 :=
  rechunk cfg cs c s

/-- non-vacuity: two replies and an over-long prefix, cut inside an id, inside a length prefix and after the over-long one -/
example : let s := run ⟨fun _ => 1⟩ (St.init 1 9092) [.make 5 true, .make 6 true, .connOk]
    obs ⟨fun _ => 1⟩ s ([[0, 0, 0, 4, 0, 0], [0, 5, 0, 0], [0, 4, 0, 0, 0, 6, 0x80, 0, 0, 0], [1, 2]].map .bytesIn)
      = [.fire 0 5 (.ok [0, 0, 0, 5]), .fire 1 6 (.ok [0, 0, 0, 6]), .lose 0, .badOp] ∧
    (step ⟨fun _ => 1⟩ s (.bytesIn [0, 0, 0, 4, 0, 0, 0, 5, 0, 0, 0, 4, 0, 0, 0, 6, 0x80, 0, 0, 0, 1, 2])).2
      = [.fire 0 5 (.ok [0, 0, 0, 5]), .fire 1 6 (.ok [0, 0, 0, 6]), .lose 0] := by decide +kernel


/-- … and whatever follows: after ANY non-empty chunking of a byte string versus its concatenation, EVERY continuation
    (requests, cancels, losses, reconnects, more bytes, close) produces the same observations (`badOp` markers apart) and
    ends in the same state (a dead receive buffer apart): how the transport cut the stream can never be told, neither at
    the time nor later.  (Every event respects `Eqv`: `eqv_step`.) -/
theorem C06_bytes_chunking_never_observable (cfg : Cfg) (s : St) (c : Bytes) (cs : List Bytes) (post : List Ev) :
    vis (obs cfg s ((c :: cs).map .bytesIn ++ post)) = vis (obs cfg s (.bytesIn (c :: cs).flatten :: post)) ∧
    Eqv (run cfg s ((c :: cs).map .bytesIn ++ post)) (run cfg s (.bytesIn (c :: cs).flatten :: post)) :=
  rechunk_then cfg s c cs post


/-- Bootstrap connection on raw bytes: for every event list, every `dataReceived` fires `ok` only with packets which that
    call completed in the parse — once, from the start — of ALL the bytes the connection has received, and nothing fires
    `ok` in any other step (`Boot.bootBytesOk`, evaluated by the driver on the traces of the real
    `KafkaBootstrapProtocol`). -/
theorem C06_bootstrap_bytes (evs : List Bootstrap.Ev) :
    Boot.bootBytesOk (Bootstrap.trace Bootstrap.St.init evs) = true := by
  have := (Boot.binv_run evs Bootstrap.St.init Boot.BL.init Boot.binv_init).good
  simp [Boot.bootBytesOk, this]

/-- what that means, for any trace: every payload a request Deferred ever fired with is a frame of the whole-stream parse
    of the bytes the connection received -/
theorem C06_bootstrap_bytes_meaning (tr : List (Bootstrap.Ev × List Bootstrap.Ob)) (h : Boot.bootBytesOk tr = true) :
    ∀ t ∈ tr, ∀ b ∈ Boot.okPayloads t.2, b ∈ (parseAll (Boot.brunL Boot.BL.init tr).bytes).frames :=
  Boot.bootBytes_meaning tr Boot.BL.init (by simpa [Boot.bootBytesOk] using h)

example : Boot.bootBytesOk [(.request [0, 3, 0, 0, 0, 0, 0, 2], [.write 0]), (.bytesIn [0, 0, 0, 5, 0, 0], []),
      (.bytesIn [0, 2, 0x44], [.fire 0 (.ok [0, 0, 0, 2, 0x44])])] = true ∧
    Boot.bootBytesOk [(.request [0, 3, 0, 0, 0, 0, 0, 2], [.write 0]), (.bytesIn [0, 0, 0, 5, 0, 0], []),
      (.bytesIn [0, 2, 0x44], [.fire 0 (.ok [0, 0, 2, 0x44])])] = false := by decide +kernel

end Bytes

/-! Non-vacuity: a run in which Deferreds do fire — one by its own response (delivered in two
chunks, after an unsolicited frame), one by cancel, one by close — and a late response to the
cancelled request fires nothing. -/
def demo : List Ev :=
  [.make 5 true, .make 6 true, .make 7 true, .connOk, .bytesIn [0, 0, 0, 4, 0, 0, 0, 9, 0, 0, 0, 5, 0, 0],
   .bytesIn [0, 5, 1], .cancel 6, .bytesIn [0, 0, 0, 4, 0, 0, 0, 6], .close]
example : (trace ⟨fun _ => 1⟩ (St.init 1 9092) demo).map (·.2) =
    [[.connect 1 9092], [], [], [.write 0 0 5, .write 0 1 6, .write 0 2 7], [.unexpected 9],
     [.fire 0 5 (.ok [0, 0, 0, 5, 1])], [.fire 1 6 (.err .cancelled)], [], [.lose 0, .fire 2 7 (.err .clientError)]] := by
  decide
example : firedOf (trace ⟨fun _ => 1⟩ (St.init 1 9092) demo) = [0, 1, 2] := by decide

/-! Re-entrant callbacks (open statement `C06_reentrant` in `Open/C06.lean`): a concrete run of the re-entrant model — request 2 expects no reply and its callback
closes the client while the queue is being written; the monitor `r06` accepts it, and without callbacks
the two models agree on `demo`. -/
example : ((Afkak.BrokerClientR.traceR ⟨fun _ => 1⟩ (Afkak.BrokerClientR.StR.init 1 9092)
      [.make 1 true none, .make 2 false (some [.close]), .make 3 true none, .flat .connOk, .flat .lost]).map (·.2)) =
    [[.ob (.connect 1 9092), .made 0 1], [.made 1 2], [.made 2 3],
     [.ob (.write 0 0 1), .ob (.write 0 1 2), .ob (.fire 1 2 .none), .hookBegin 1, .closing, .ob (.lose 0),
      .ob (.fire 2 3 (.err .clientError)), .ob (.fire 0 1 (.err .clientError)), .hookEnd],
     [.ob .down]] := by decide +kernel
example : r06 (Afkak.BrokerClientR.traceR ⟨fun _ => 1⟩ (Afkak.BrokerClientR.StR.init 1 9092)
      [.make 1 true none, .make 2 false (some [.close]), .make 3 true none, .flat .connOk, .flat .lost]) = true := by
  decide +kernel
example : (Afkak.BrokerClientR.traceR ⟨fun _ => 1⟩ (Afkak.BrokerClientR.StR.init 1 9092) (demo.map .flat)).map
      (fun t => Afkak.BrokerClientR.plain t.2) = (trace ⟨fun _ => 1⟩ (St.init 1 9092) demo).map (·.2) := by
  decide +kernel

/-! Non-vacuity (framing) -/
example : ∃ a b c d : UInt8, 2 ^ 31 ≤ be32 a b c d := ⟨0x80, 0, 0, 0, by decide⟩
example : feedAll [] [[0, 0], [0, 2, 7], [9, 0, 0, 0, 1], [5]] = ⟨[[7, 9], [5]], [], false⟩ := by decide
example : [[0, 0], [0, 2, 7], [9, 0, 0, 0, 1], [5]].flatten = encodeAll [[(7 : UInt8), 9], [5]] := by decide
example : (feedAll [] [[0, 0, 0, 1, 7, 0xff], [0xff, 0xff, 0xff, 0, 0, 0, 1, 5]]).frames = [[7]]
    ∧ (feedAll [] [[0, 0, 0, 1, 7, 0xff], [0xff, 0xff, 0xff, 0, 0, 0, 1, 5]]).exceeded = true := by decide

end Afkak.Props.C06

/- OBLIGATIONS
C06_monitor_sound
C06_at_most_once_of_accepted
C06_at_most_once
C06_exactly_once
C06_close_completes_all
C06_delivery
C06_all_chunkings
C06_frames_per_connection
C06_fresh_buffer_per_connection
C06_chunk_split_unobservable
C06_only_genuine_frames
C06_causes
C06_own_response
C06_no_crosstalk
C06_reassembly
C06_oversize
C06_short_frame
C06_answered_request
C06_bootstrap_monitor_sound
C06_bootstrap_exactly_once_of_accepted
C06_bootstrap_exactly_once
C06_bootstrap_lost_reason
C06_bootstrap_single
C06_bootstrap_cancelled_id_harmless
C06_bootstrap_no_crosstalk_counterexample
C06_bootstrap_no_crosstalk_partial
C06_reentrant_model_conservative
C06_reentrant_partial
C06_reentrant_terminates
C06_reentrant_partition
C06_reentrant
C06_reentrant_fuel_free
C06_reentrant_driver
C06_reentrant_own_response
C06_bytes_of_accepted
C06_bytes_monitor_sound
C06_bytes_meaning
C06_bytes_meaning_at
C06_bytes_end_to_end
C06_bytes_partial_frame_dies
C06_bytes_oversize_ends_connection
C06_bytes_one_per_frame
C06_bytes_any_chunking
C06_bytes_chunking_never_observable
C06_bootstrap_bytes
C06_bootstrap_bytes_meaning
-/
/- OPEN_STATEMENTS
C06_bootstrap_no_crosstalk
-/
