import Afkak.Monitor.C18
import AfkakProofs.Partitioner
import AfkakProofs.MurmurGen
import AfkakProofs.Partitioner.GenEq
import AfkakProofs.Partitioner.Listing
/-!
# C18 — Partitioners are deterministic, in range, Java-compatible and fair
Property theorems only; helper lemmas live in `AfkakProofs/`.
-/
namespace Afkak.Props.C18
open Afkak.Partitioner Afkak.Murmur Afkak.Monitor.C18

/-- The Python murmur2 computes the Java client's murmur2 on every key a Java array can hold. -/
theorem C18_murmur_java (key : List UInt8) (h : key.length < 2^32) :
    pureMurmur2 key = (murmur2Java key).toNat :=
  pureMurmur2_eq_java key h

/-- The model term REGENERATED on every run from the AST of `afkak/partitioner.py: pure_murmur2`
    (`Afkak.Consts.genPureMurmur2`, emitted by `harness/lib/pure_translate.py`; `none` = IndexError)
    equals the hand-written model for every byte string and every seed: the function as written
    never raises IndexError and computes `pureMurmur2`.  A change of the source function changes the
    generated term and breaks this obligation (or the extractor) unless it is semantically void. -/
theorem C18_generated_murmur_eq_model (bs : List UInt8) (seed : Nat) :
    Afkak.Consts.genPureMurmur2 bs seed = some (pureMurmur2 bs seed) :=
  gen_eq bs seed

/-- Hence the source-derived term, at the source's default seed, computes the Java client's murmur2. -/
theorem C18_generated_murmur_java (key : List UInt8) (h : key.length < 2^32) :
    Afkak.Consts.genPureMurmur2 key Afkak.Consts.murmurSeed = some (murmur2Java key).toNat := by
  rw [C18_generated_murmur_eq_model, ← C18_murmur_java key h]

/-- `Afkak.Consts.genHashedPartition` — regenerated on every run from the AST of
    `HashedPartitioner.partition` (`self._hash(key)` is its input `h`): the mask, the modulo by
    `len(partitions)` (ZeroDivisionError = `none`) and the list lookup — equals the hand-written
    model for every key and every list, the empty list included. -/
theorem C18_generated_partition_eq_model (key : List UInt8) (ps : List Int) :
    Afkak.Consts.genHashedPartition (pureMurmur2 key) ps = hashed key ps :=
  gen_hashed key ps

/-- The two source-derived terms composed (hash at the source's default seed, then select) are the
    model of `HashedPartitioner.partition` on a bytes key: every theorem below about `hashed` is a
    theorem about the translated source text of `pure_murmur2` and `partition`. -/
theorem C18_generated_pipeline_eq_model (key : List UInt8) (ps : List Int) :
    (Afkak.Consts.genPureMurmur2 key Afkak.Consts.murmurSeed).bind (fun h => Afkak.Consts.genHashedPartition h ps)
      = hashed key ps := by
  rw [C18_generated_murmur_eq_model, Option.bind_some]
  exact gen_hashed key ps

/-- The hashed partitioner's result is always a member of the supplied non-empty list. -/
theorem C18_in_range (key : List UInt8) (ps : List Int) (h : ps ≠ []) :
    ∃ p, hashed key ps = some p ∧ p ∈ ps :=
  hashed_some key ps h

/-- The hashed partitioner co-locates a key with the Java client: it returns the element at index
    `toPositive(murmur2(key)) % n`; in particular the result depends only on key bytes and list,
    and satisfies the monitor that is run on the implementation's outputs. -/
theorem C18_java_colocated (key : List UInt8) (ps : List Int) (hk : key.length < 2^32) (h : ps ≠ []) :
    ∃ p, hashed key ps = some p ∧ hashOk key ps p = true := by
  obtain ⟨p, hp, _⟩ := hashed_some key ps h
  refine ⟨p, hp, ?_⟩
  have hl : ps.length ≠ 0 := by simpa using h
  rw [hashed_eq_java key ps hk h] at hp
  simp [hashOk, hl, hp]

/-- Text and UTF-8 byte forms of a key agree: a text key selects exactly what its UTF-8 encoding
    (RFC 3629, no normalisation) selects as a bytes key.  (True by the definition of `keyBytes`,
    which is the model of `_hash`'s coercion; the correspondence check is what ties that model to
    the code, with the model's own UTF-8 encoder as the oracle.) -/
theorem C18_text_bytes_agree (cps : List Nat) (b : List UInt8) (ps : List Int)
    (h : Afkak.Assign.utf8Encode cps = .ok b) : hashedKey (.text cps) ps = hashedKey (.bytes b) ps := by
  simp [hashedKey, keyBytes, h]

/-- The result depends only on the key's bytes and the partition list — not on the key's form,
    not on any state, not on earlier calls. -/
theorem C18_depends_only_on_bytes_and_list (k1 k2 : Key) (ps : List Int) (h : keyBytes k1 = keyBytes k2) :
    hashedKey k1 ps = hashedKey k2 ps := by
  simp [hashedKey, h]

/-- For a key of either form with a UTF-8 encoding shorter than 2^32 and a non-empty list, the
    choice exists, is in range and is the Java client's choice for those bytes. -/
theorem C18_key_java_colocated (k : Key) (b : List UInt8) (ps : List Int) (hb : keyBytes k = some b)
    (hk : b.length < 2^32) (h : ps ≠ []) :
    ∃ p, hashedKey k ps = some p ∧ p ∈ ps ∧ hashKeyOk k ps p = true := by
  obtain ⟨p, hp, hok⟩ := C18_java_colocated b ps hk h
  obtain ⟨p', hp', hm⟩ := hashed_some b ps h
  have : p' = p := by rw [hp] at hp'; exact (Option.some.inj hp').symm
  subst this
  exact ⟨p', by simp [hashedKey, hb, hp], hm, by simp [hashKeyOk, hb, hok]⟩

/-- Round-robin fairness: from ANY reachable (well-formed) state — in sync with the list or about
    to be refreshed by it, any random start — a window of `k·n` consecutive selections with an
    unchanged ascending list of `n` partitions chooses each partition exactly `k` times. -/
theorem C18_rr_fair (st : RR) (hw : WF st) (ps : List Int) (hs : ps.Pairwise (· ≤ ·)) (hne : ps ≠ [])
    (start : Option Nat) (k : Nat) :
    ∃ picks st', rrPicks st ps start (k * ps.length) = some (picks, st') ∧
      ∀ p, picks.count p = k * ps.count p :=
  rr_fair st hw ps hs hne start k

/-- Every state the partitioner can reach is well-formed (so `C18_rr_fair` applies after any
    history of selections with arbitrary lists): construction and every selection preserve `WF`. -/
theorem C18_rr_reachable_wf :
    (∀ ps start st, setPartitions ps start = some st → WF st) ∧
    (∀ st st' ps start x, WF st → rrPartition st ps start = some (x, st') → WF st') ∧
    (∀ st ps, WF st → WF (rrAfterError st ps)) :=
  ⟨fun _ _ _ h => setPartitions_wf h, fun _ _ _ _ _ hw h => rrPartition_wf hw h,
   fun st ps hw => rrAfterError_wf st ps hw⟩

/-- A changed list restarts a fair cycle over the new list: the selection that carries the new
    ascending list returns a member of it and leaves a state in sync with it. -/
theorem C18_rr_restart (st : RR) (hw : WF st) (ps : List Int) (hs : ps.Pairwise (· ≤ ·))
    (hne : ps ≠ []) (start : Option Nat) :
    ∃ x st', rrPartition st ps start = some (x, st') ∧ x ∈ ps ∧ RRInv st' ps :=
  rrPartition_inv st hs hne start (fun h => h ▸ hw)

/-- With an ascending list and no duplicates "exactly `k` times" is literal. -/
theorem C18_rr_fair_nodup (st : RR) (hw : WF st) (ps : List Int) (hs : ps.Pairwise (· ≤ ·))
    (hne : ps ≠ []) (hnd : ps.Nodup) (start : Option Nat) (k : Nat) :
    ∃ picks st', rrPicks st ps start (k * ps.length) = some (picks, st') ∧
      ∀ p ∈ ps, picks.count p = k := by
  obtain ⟨picks, st', h, hc⟩ := rr_fair st hw ps hs hne start k
  refine ⟨picks, st', h, fun p hp => ?_⟩
  rw [hc p, hnd.count, if_pos hp, Nat.mul_one]

/-- The producer keeps one partitioner per topic: under ANY interleaving of selections for other
    topics (any lists, any starts), if the selections for topic `t` in the window are `k·n` calls
    with the same ascending list of `n` partitions, each partition is chosen exactly `k` times for
    `t` — other topics' traffic cannot disturb `t`'s cycle. -/
theorem C18_producer_per_topic_fair (m : PMap) (t : String) (st : RR) (hg : m.get t = some st)
    (hw : WF st) (ps : List Int) (hs : ps.Pairwise (· ≤ ·)) (hne : ps ≠ []) (start : Option Nat)
    (k : Nat) (cs : List Call)
    (hcs : cs.filter (fun c => c.topic = t) = List.replicate (k * ps.length) ⟨t, ps, start⟩) :
    ∃ picks : List Int, picksOf t m cs = picks.map some ∧ ∀ p, picks.count p = k * ps.count p := by
  obtain ⟨picks, st', hp, hc⟩ := rr_fair st hw ps hs hne start k
  refine ⟨picks, ?_, hc⟩
  rw [picksOf_filter t m m rfl cs, hcs]
  exact picksOf_replicate t m st hg ps start _ picks st' hp

/-- Every partitioner the producer holds stays well-formed, whatever calls are made. -/
theorem C18_producer_wf (m m' : PMap) (t : String) (ps : List Int) (start : Option Nat) (x : Int)
    (hm : ∀ t st, m.get t = some st → WF st)
    (h : nextPartitionRR m t ps start = some (x, m')) : ∀ t' st, m'.get t' = some st → WF st := by
  intro t' st' hg
  unfold nextPartitionRR at h
  cases hgo : getOrNew m t ps start with
  | none => rw [hgo] at h; exact absurd h (by simp)
  | some s =>
    rw [hgo] at h
    simp only at h
    have hws : WF s := by
      unfold getOrNew at hgo
      cases hmt : m.get t with
      | none => rw [hmt] at hgo; exact setPartitions_wf hgo
      | some s0 => rw [hmt] at hgo; simp only [Option.some.injEq] at hgo; subst hgo; exact hm t _ hmt
    cases hr : rrPartition s ps start with
    | none => rw [hr] at h; exact absurd h (by simp)
    | some r =>
      obtain ⟨y, s'⟩ := r
      rw [hr] at h
      simp only [Option.some.injEq, Prod.mk.injEq] at h
      obtain ⟨_, rfl⟩ := h
      by_cases he : t' = t
      · subst he
        rw [PMap.get_set_same] at hg
        simp only [Option.some.injEq] at hg; subst hg
        exact rrPartition_wf hws hr
      · rw [PMap.get_set_other _ _ _ _ he] at hg
        exact hm t' st' hg

/-- A call for topic `t` that RAISES (`Producer._next_partition` as written: the constructor's or
    `.partition`'s `_set_partitions` has already run when `randint`/`next` raises) leaves only
    well-formed state behind: whatever is then stored for `t` is `WF` (so `C18_rr_fair`,
    `C18_rr_restart` and `C18_producer_per_topic_fair` apply again from it), an existing partitioner
    `st0` is left exactly as `rrAfterError st0 ps`, and every other topic's entry is unchanged. -/
theorem C18_producer_after_error (m : PMap) (t : String) (ps : List Int) (start : Option Nat)
    (hm : ∀ t st, m.get t = some st → WF st) :
    (∀ st, (nextPartitionRRAfterError m t ps start).get t = some st → WF st) ∧
    (∀ st0, m.get t = some st0 →
      (nextPartitionRRAfterError m t ps start).get t = some (rrAfterError st0 ps)) ∧
    (∀ t', t' ≠ t → (nextPartitionRRAfterError m t ps start).get t' = m.get t') := by
  refine ⟨fun st hg => ?_, fun st0 h0 => ?_, fun t' hne => nextPartitionRRAfterError_other m ps start hne⟩
  · unfold nextPartitionRRAfterError at hg
    cases hmt : m.get t with
    | some s0 =>
      rw [hmt] at hg
      simp only [PMap.get_set_same, Option.some.injEq] at hg
      subst hg
      exact rrAfterError_wf s0 ps (hm t s0 hmt)
    | none =>
      rw [hmt] at hg
      cases hsp : setPartitions ps start with
      | none => rw [hsp] at hg; simp only at hg; rw [hmt] at hg; exact absurd hg (by simp)
      | some s1 =>
        rw [hsp] at hg
        simp only [PMap.get_set_same, Option.some.injEq] at hg
        subst hg
        exact rrAfterError_wf s1 ps (setPartitions_wf hsp)
  · unfold nextPartitionRRAfterError
    rw [h0]
    exact PMap.get_set_same _ _ _

/-! Non-vacuity: concrete states and inputs meeting the hypotheses. -/
example : WF { parts := [0, 1, 2], rot := rotateN 2 [0, 1, 2] } := by show (rotateN 2 [0,1,2]).Perm [0,1,2]; exact rotateN_perm 2 _
example : ([0, 1, 5] : List Int).Pairwise (· ≤ ·) ∧ ([0, 1, 5] : List Int) ≠ [] := by decide
example : rrPicks { parts := [9], rot := [9] } [0, 1, 5] (some 2) 6
    = some ([5, 0, 1, 5, 0, 1], { parts := [0, 1, 5], rot := [5, 0, 1] }) := by decide +kernel

example : (PMap.get [("a", ⟨[0,1], [1,0]⟩)] "a" = some ⟨[0,1], [1,0]⟩) ∧
    ([⟨"a", [0,1], none⟩, ⟨"b", [7], none⟩, ⟨"a", [0,1], none⟩] : List Call).filter (fun c => c.topic = "a")
      = List.replicate (1 * 2) ⟨"a", [0,1], none⟩ := by decide

/-! The producer after a raising call, as observed on the code (`[0, RuntimeError, 0, 1]`, the other
topic undisturbed; with `randomStart` a constructor that raises stores nothing). -/
example : picksOf "t" [] [⟨"t", [0,1], none⟩, ⟨"u", [7,8], none⟩, ⟨"t", [], none⟩, ⟨"t", [0,1], none⟩,
    ⟨"u", [7,8], none⟩, ⟨"t", [0,1], none⟩] = [some 0, none, some 0, some 1] := by decide
example : nextPartitionRRAfterError [("t", ⟨[0,1], [1,0]⟩), ("u", ⟨[7,8], [8,7]⟩)] "t" [] none
    = [("t", ⟨[], []⟩), ("u", ⟨[7,8], [8,7]⟩)] := by decide
example : nextPartitionRR [] "t" [] none = none ∧ nextPartitionRRAfterError [] "t" [] none = [("t", ⟨[], []⟩)] ∧
    nextPartitionRR [] "t" [] (some 0) = none ∧ nextPartitionRRAfterError [] "t" [] (some 0) = [] := by decide

example : keyBytes (.text [0x41, 0x30a]) = some [0x41, 0xcc, 0x8a] ∧ keyBytes (.text [0xc5]) = some [0xc3, 0x85] ∧
    keyBytes (.text [0xd800]) = none := by decide

/-! Tests of the Java transcription (TESTS, not theorems): the vectors of the Java client's own
`UtilsTest.testMurmur2` (signed ints shown as their 32-bit patterns) and of
`afkak/test/test_partitioner.py`. -/
example : (murmur2Java "21".toUTF8.toList).toNat = 2^32 - 973932308 := by decide +kernel
example : (murmur2Java "foobar".toUTF8.toList).toNat = 2^32 - 790332482 := by decide +kernel
example : (murmur2Java "a-little-bit-long-string".toUTF8.toList).toNat = 2^32 - 985981536 := by decide +kernel
example : (murmur2Java "a-little-bit-longer-string".toUTF8.toList).toNat = 2^32 - 1486304829 := by decide +kernel
example : (murmur2Java "lkjh234lh9fiuh90y23oiuhsafujhadof229phr9h19h89h8".toUTF8.toList).toNat = 2^32 - 58897971 := by decide +kernel
example : (murmur2Java "abc".toUTF8.toList).toNat = 479470107 := by decide +kernel
example : (murmur2Java []).toNat = 275646681 := by decide +kernel
example : (murmur2Java "testing".toUTF8.toList).toNat = 2291530147 := by decide +kernel
example : (murmur2Java "987654321".toUTF8.toList).toNat = 577579727 := by decide +kernel
example : (murmur2Java "The rain in Spain falls mainly on the plain.".toUTF8.toList).toNat = 2823782121 := by decide +kernel
-- a vector with bytes ≥ 0x80 in every position incl. the 3-byte tail (test_key_unicode's key, 15 bytes)
example : (murmur2Java [236, 138, 172, 238, 134, 136, 235, 147, 162, 232, 138, 172, 238, 162, 128]).toNat = 3978338664 := by decide +kernel
example : (murmur2Java "lasquinceletras".toUTF8.toList).toNat = 4030895744 := by decide +kernel

/-- Cross-layer (client cache -> producer -> partitioner).  A metadata entry that lists the partitions
    `0 … n-1` of a topic in ANY order leaves, as `topic_partitions[topic]` (what `_next_partition` hands to
    the partitioner), an ascending list over which the hashed partitioner picks the Java client's
    `toPositive(murmur2(key)) % n`: the broker's listing order cannot move a key. -/
theorem C18_listing_order_irrelevant (c : Afkak.ClientCache.Cache) (tm : Afkak.ClientCache.TopicMeta) (n : Nat)
    (key : List UInt8) (hk : key.length < 2^32) (hn : n ≠ 0) (h : (tm.parts.map (·.part)).Perm (ids n)) :
    ∃ ps, Afkak.ClientCache.get? tm.name (Afkak.ClientCache.mergeTopic c tm).topicParts = some ps ∧
      ps.Pairwise (· ≤ ·) ∧ hashed key ps = some (Int.ofNat (javaIndex key n)) ∧
      hashOk key ps (Int.ofNat (javaIndex key n)) = true := by
  have hne : tm.parts ≠ [] := by
    intro h0
    rw [h0] at h
    have := h.length_eq
    simp [ids_length] at this
    exact hn this.symm
  have hnd : (tm.parts.map (·.part)).Nodup := h.nodup_iff.mpr (ids_nodup n)
  refine ⟨sortInts (tm.parts.map (·.part)), Afkak.ClientCache.mergeTopic_topicParts c tm hne hnd, sortInts_sorted _,
    hashed_listing_java key _ n hk hn h, ?_⟩
  rw [sortInts_listing h]
  have hi : javaIndex key n < n := Nat.mod_lt _ (Nat.pos_of_ne_zero hn)
  simp [hashOk, ids_length, ids_getElem? n _ hi, hn]

/-- ... and the round-robin partitioner, from any reachable state, chooses each of the `n` partitions exactly
    `k` times in `k·n` selections over that list, whatever the listing order was. -/
theorem C18_listing_rr_fair (c : Afkak.ClientCache.Cache) (tm : Afkak.ClientCache.TopicMeta) (n : Nat) (hn : n ≠ 0)
    (h : (tm.parts.map (·.part)).Perm (ids n)) (st : RR) (hw : WF st) (start : Option Nat) (k : Nat) :
    ∃ ps picks st', Afkak.ClientCache.get? tm.name (Afkak.ClientCache.mergeTopic c tm).topicParts = some ps ∧
      rrPicks st ps start (k * n) = some (picks, st') ∧ ∀ i, i < n → picks.count (Int.ofNat i) = k := by
  have hne : tm.parts ≠ [] := by
    intro h0
    rw [h0] at h
    have := h.length_eq
    simp [ids_length] at this
    exact hn this.symm
  have hnd : (tm.parts.map (·.part)).Nodup := h.nodup_iff.mpr (ids_nodup n)
  have hps := Afkak.ClientCache.mergeTopic_topicParts c tm hne hnd
  rw [sortInts_listing h] at hps
  have hne' : ids n ≠ [] := by
    intro h0; have := ids_length n; rw [h0] at this; exact hn this.symm
  obtain ⟨picks, st', hp, hc⟩ := C18_rr_fair_nodup st hw (ids n) (ids_sorted n) hne' (ids_nodup n) start k
  rw [ids_length] at hp
  exact ⟨ids n, picks, st', hps, hp, fun i hi => hc _ (mem_ids.mpr ⟨i, hi, rfl⟩)⟩

/-! Non-vacuity: a listing out of order. -/
example : (([⟨0, 2, 1⟩, ⟨0, 0, 1⟩, ⟨5, 3, -1⟩, ⟨0, 1, 2⟩] : List Afkak.ClientCache.PartMeta).map (·.part)).Perm (ids 4) := by decide
example : Afkak.ClientCache.get? "t" (Afkak.ClientCache.mergeTopic {} ⟨"t", 0, [⟨0, 2, 1⟩, ⟨0, 0, 1⟩, ⟨5, 3, -1⟩, ⟨0, 1, 2⟩]⟩).topicParts
    = some [0, 1, 2, 3] := by decide

end Afkak.Props.C18

/- OBLIGATIONS
C18_murmur_java
C18_generated_murmur_eq_model
C18_generated_murmur_java
C18_generated_partition_eq_model
C18_generated_pipeline_eq_model
C18_in_range
C18_java_colocated
C18_rr_fair
C18_rr_reachable_wf
C18_rr_restart
C18_rr_fair_nodup
C18_producer_per_topic_fair
C18_producer_wf
C18_producer_after_error
C18_text_bytes_agree
C18_depends_only_on_bytes_and_list
C18_key_java_colocated
C18_listing_order_irrelevant
C18_listing_rr_fair
-/
