import Afkak.Monitor.C04
import AfkakProofs.Wire.Requests
import AfkakProofs.Wire.ProduceReq
import AfkakProofs.Wire.GroupPayloads
import AfkakProofs.Wire.Glue
import AfkakProofs.Wire.TotalProduce
import AfkakProofs.Wire.TotalGroup
import AfkakProofs.Wire.Compressed
import AfkakProofs.Wire.CreateSet
import AfkakProofs.Wire.MsgSetTotal
import AfkakProps.C05
import AfkakProps.Open.C04
import AfkakProofs.Wire.GenEq
import AfkakProofs.Wire.GenEqCodec
import AfkakProofs.Wire.GenEqGrouped
import AfkakProofs.Wire.GenEqAssign
/-!
# C04 — every request on the wire conforms to the Kafka protocol grammar

`Afkak.Monitor.C04.X args frame` is the property for one frame: it parses under the independent
grammar (`Afkak/Wire/Spec.lean`), completely, to exactly the caller's values (`ok`), does not
(`fail`), or the arguments have no representation in the grammar (`outOfRange`).  The driver
evaluates it on the frames the REAL encoders emit.  The theorems below prove, for ALL arguments,
that a frame the model encoder emits never fails it, and is `ok` whenever the value is one the
grammar can carry; the version theorems are about `KafkaClient`'s choice for every advertised table.
-/
namespace Afkak.Props.C04
open Afkak Afkak.Wire Afkak.Codec Afkak.Consts Afkak.Monitor.C04

set_option synthInstance.maxSize 100000

/-! ## conformance of the emitted frames -/

/-- Metadata v0: whatever topics the caller names, the emitted frame parses to the header
    (key 3, version 0, the caller's correlation id and client id) and exactly those topics. -/
theorem C04_metadata_conforms (cid : Bytes) (corr : Int) (topics : List (Option Bytes)) (frame : Bytes)
    (h : encodeMetadataRequest cid corr topics = .ok frame) :
    Monitor.C04.metadata cid corr topics frame ≠ .fail := by
  unfold Monitor.C04.metadata
  apply conforms_of_enc
  intro v hv
  cases ht : topics.mapM id with
  | none => simp [ht] at hv
  | some ts =>
    simp only [ht, Option.map_some, Option.some.injEq] at hv
    subst hv
    exact metadata_bytes h ht

/-- FindCoordinator v0 -/
theorem C04_find_coordinator_conforms (cid : Bytes) (corr : Int) (group : Option Bytes) (frame : Bytes)
    (h : encodeConsumerMetadataRequest cid corr group = .ok frame) :
    Monitor.C04.findCoordinator cid corr group frame ≠ .fail := by
  unfold Monitor.C04.findCoordinator
  apply conforms_of_enc
  intro v hv
  cases group with
  | none => simp at hv
  | some g =>
    simp only [Option.map_some, Option.some.injEq] at hv
    subst hv
    exact findCoordinator_bytes h

/-- Heartbeat v0 -/
theorem C04_heartbeat_conforms (cid : Bytes) (corr : Int) (group : Option Bytes) (gen : Int)
    (member : Option Bytes) (frame : Bytes)
    (h : encodeHeartbeatRequest cid corr group gen member = .ok frame) :
    Monitor.C04.heartbeat cid corr group gen member frame ≠ .fail := by
  unfold Monitor.C04.heartbeat
  apply conforms_of_enc
  intro v hv
  cases group <;> cases member <;> simp at hv
  subst hv
  exact heartbeat_bytes h

/-- LeaveGroup v0 -/
theorem C04_leave_group_conforms (cid : Bytes) (corr : Int) (group member : Option Bytes) (frame : Bytes)
    (h : encodeLeaveGroupRequest cid corr group member = .ok frame) :
    Monitor.C04.leaveGroup cid corr group member frame ≠ .fail := by
  unfold Monitor.C04.leaveGroup
  apply conforms_of_enc
  intro v hv
  cases group <;> cases member <;> simp at hv
  subst hv
  exact leaveGroup_bytes h

/-- JoinGroup v0: group, session timeout, member id, protocol type and every
    (protocol name, metadata) pair, in the caller's order. -/
theorem C04_join_group_conforms (cid : Bytes) (corr : Int) (p : JoinGroupReq) (frame : Bytes)
    (h : encodeJoinGroupRequest cid corr p = .ok frame) :
    Monitor.C04.joinGroup cid corr p frame ≠ .fail := by
  unfold Monitor.C04.joinGroup
  apply conforms_of_enc
  intro v hv
  cases hg : p.group <;> cases hm : p.memberId <;> cases ht : p.protocolType <;>
    cases hps : pairs p.groupProtocols <;> simp [hg, hm, ht, hps] at hv
  subst hv
  exact joinGroup_bytes h hg hm ht hps

/-- SyncGroup v0 -/
theorem C04_sync_group_conforms (cid : Bytes) (corr : Int) (group : Option Bytes) (gen : Int)
    (member : Option Bytes) (asg : List (Option Bytes × Option Bytes)) (frame : Bytes)
    (h : encodeSyncGroupRequest cid corr group gen member asg = .ok frame) :
    Monitor.C04.syncGroup cid corr group gen member asg frame ≠ .fail := by
  unfold Monitor.C04.syncGroup
  apply conforms_of_enc
  intro v hv
  cases group <;> cases member <;> cases hps : pairs asg <;> simp [hps] at hv
  subst hv
  exact syncGroup_bytes h hps

/-- ApiVersions v0: the body is empty and the header carries the version the caller named
    (this is finding F4, repaired). -/
theorem C04_api_versions_conforms (cid : Bytes) (corr key ver : Int) (frame : Bytes)
    (h : encodeApiVersionsRequest cid corr key ver = .ok frame) :
    Monitor.C04.apiVersions cid corr key ver frame ≠ .fail := by
  unfold Monitor.C04.apiVersions
  apply conforms_of_enc
  intro v hv
  by_cases hk : key = 18 ∧ ver = 0
  · simp only [hk, and_self, if_true, Option.some.injEq] at hv
    subst hv
    obtain ⟨rfl, rfl⟩ := hk
    exact apiVersions_bytes h
  · simp [hk] at hv

/-! ## the topic-grouped requests -/

/-- **Produce v0 / v1 / v2**: the frame parses to the header (key 0, the clamped version, the caller's
    correlation and client id), acks, timeout and the payloads nested by topic — every message with its
    format, attributes, timestamp, key and value (null ≠ empty), under a checksum that verifies, in
    the caller's per-partition order.  `ext.crc` is any checksum function, `ext.nowMs` the clock that
    stamps format-1 messages without a timestamp. -/
theorem C04_produce_conforms : C04_produce_conforms_stmt := by
  intro ext cid corr ps acks timeout ver frame h
  unfold Monitor.C04.produce
  apply conforms_of_enc
  intro v hv
  cases hiv : implementedVersion ver with
  | none => simp [hiv] at hv
  | some iv =>
    cases hk : keyed ProduceReq.topic ProduceReq.partition (fun p => specEntries ext.nowMs p.messages) ps with
    | none => simp [hiv, hk] at hv
    | some l =>
      simp only [hiv, hk] at hv
      split at hv
      · cases hv
      · cases hv
        exact produce_bytes h hiv hk

/-- Fetch v0 / v1 / v2 (replica id −1) -/
theorem C04_fetch_conforms : C04_fetch_conforms_stmt := by
  intro cid corr ps wait minb ver frame h
  unfold Monitor.C04.fetch
  apply conforms_of_enc
  intro v hv
  cases hiv : implementedVersion ver with
  | none => simp [hiv] at hv
  | some iv =>
    cases hk : keyed FetchReq.topic FetchReq.partition (fun p => some (p.offset, p.maxBytes)) ps with
    | none => simp [hiv, hk] at hv
    | some l =>
      simp only [hiv, hk, Option.some.injEq] at hv
      subst hv
      exact fetch_bytes h hiv hk

/-- ListOffsets v0 -/
theorem C04_list_offsets_conforms : C04_list_offsets_conforms_stmt := by
  intro cid corr ps frame h
  unfold Monitor.C04.listOffsets
  apply conforms_of_enc
  intro v hv
  cases hk : keyed OffsetReq.topic OffsetReq.partition (fun p => some (p.time, p.maxOffsets)) ps with
  | none => simp [hk] at hv
  | some l =>
    simp only [hk, Option.map_some, Option.some.injEq] at hv
    subst hv
    exact listOffsets_bytes h hk

/-- OffsetCommit v1 -/
theorem C04_offset_commit_conforms : C04_offset_commit_conforms_stmt := by
  intro cid corr g gen c ps frame h
  unfold Monitor.C04.offsetCommit
  apply conforms_of_enc
  intro v hv
  cases g with
  | none => simp at hv
  | some g =>
    cases c with
    | none => simp at hv
    | some c =>
      cases hk : keyed OffsetCommitReq.topic OffsetCommitReq.partition (fun p => some (p.offset, p.timestamp, p.metadata)) ps with
      | none => simp [hk] at hv
      | some l =>
        simp only [hk, Option.some.injEq] at hv
        subst hv
        exact offsetCommit_bytes h hk

/-- OffsetFetch v1 -/
theorem C04_offset_fetch_conforms : C04_offset_fetch_conforms_stmt := by
  intro cid corr g ps frame h
  unfold Monitor.C04.offsetFetch
  apply conforms_of_enc
  intro v hv
  cases g with
  | none => simp at hv
  | some g =>
    cases hk : keyed OffsetFetchReq.topic OffsetFetchReq.partition (fun _ => some ()) ps with
    | none => simp [hk] at hv
    | some l =>
      simp only [hk, Option.some.injEq] at hv
      subst hv
      exact offsetFetch_bytes h hk

/-- the subscription a member sends inside JoinGroup -/
theorem C04_subscription_conforms : C04_subscription_conforms_stmt := by
  intro ver topics ud data h
  unfold Monitor.C04.subscription
  apply conforms_of_enc
  intro v hv
  cases ht : topics.mapM id with
  | none => simp [ht] at hv
  | some ts =>
    simp only [ht, Option.map_some, Option.some.injEq] at hv
    subst hv
    exact subscription_bytes h ht

/-- the assignment the leader sends inside SyncGroup -/
theorem C04_assignment_conforms : C04_assignment_conforms_stmt := by
  intro ver asg ud data h
  unfold Monitor.C04.assignment
  apply conforms_of_enc
  intro v hv
  cases ha : asg.mapM (fun (p : Option Bytes × List Int) => p.1.map (fun t => (t, p.2))) with
  | none => simp [ha] at hv
  | some a =>
    simp only [ha, Option.map_some, Option.some.injEq] at hv
    subst hv
    exact assignment_bytes h ha

/-- **Per-partition order is preserved, nothing is lost or duplicated**: the Python grouping
    (`defaultdict(dict)`) of payloads that passes the encoders' guard (no payload was lost to a repeated
    (topic, partition) key) is the protocol's nesting. -/
theorem C04_order_preserved : C04_order_preserved_stmt := by
  intro α topic partition xs l h hcnt
  have hnd := keyed_nodup topic partition (fun x => some x) xs l h (payloadCount_eq_iff_nodup topic partition xs hcnt)
  rw [group_eq_lifted topic partition xs l h hnd, lifted_eq_regroup]

/-- **Checksums are valid, null is not empty, attributes and timestamps are kept**: every message the
    encoder emits is byte for byte the grammar's encoding of the caller's message, hence parses back
    to it under the grammar (whose message codec verifies the CRC over exactly the bytes after it). -/
theorem C04_crc_valid : C04_crc_valid_stmt := by
  intro ext m bytes h
  cases hs : specMsg ext.nowMs m with
  | none =>
    -- a message the grammar cannot carry is never emitted
    exfalso
    unfold specMsg at hs
    unfold encodeMessage at h
    split at hs
    · rename_i hneg
      by_cases h0 : m.magic = 0
      · rw [if_pos h0] at h
        split at h
        · rename_i hb k v hhb hk hv
          have hok := ((pack_eq _ _ _).mp hhb).1
          simp only [fieldsOk, fieldSpec, and_true] at hok
          have := (attrs_nat hok.2).1
          omega
        · cases h
        · cases h
        · cases h
      · rw [if_neg h0] at h
        by_cases h1 : m.magic = 1
        · rw [if_pos h1] at h
          cases hts : m.timestamp with
          | none =>
            simp only [hts] at h
            split at h
            · rename_i hb k v hhb hk hv
              have hok := ((pack_eq _ _ _).mp hhb).1
              simp only [fieldsOk, fieldSpec, and_true] at hok
              have := (attrs_nat hok.2.1).1
              omega
            · cases h
            · cases h
            · cases h
          | some ts =>
            simp only [hts] at h
            split at h
            · rename_i hb k v hhb hk hv
              have hok := ((pack_eq _ _ _).mp hhb).1
              simp only [fieldsOk, fieldSpec, and_true] at hok
              have := (attrs_nat hok.2.1).1
              omega
            · cases h
            · cases h
            · cases h
        · rw [if_neg h1] at h
          cases h
    · by_cases h0 : m.magic = 0
      · simp [h0] at hs
      · by_cases h1 : m.magic = 1
        · simp [h1] at hs
        · rw [if_neg h0, if_neg h1] at h
          cases h
  | some sm =>
    refine ⟨sm, rfl, ?_⟩
    intro hv
    rw [message_bytes ext m sm bytes h hs]
    exact (Spec.message ext.crc).law sm hv

/-! Non-vacuity: concrete in-range arguments for which the encoder emits a frame and the monitor
says `ok` (so the theorems above are not about an empty set of frames). -/
example : ∃ frame, encodeMetadataRequest [99, 105, 100] 7 [some [116], some []] = .ok frame
    ∧ Monitor.C04.metadata [99, 105, 100] 7 [some [116], some []] frame = .ok := ⟨_, rfl, by decide⟩
example : ∃ frame, encodeHeartbeatRequest [] (-2147483648) (some [103]) 2147483647 (some []) = .ok frame
    ∧ Monitor.C04.heartbeat [] (-2147483648) (some [103]) 2147483647 (some []) frame = .ok := ⟨_, rfl, by decide⟩
example : ∃ frame, encodeJoinGroupRequest [] 1 ⟨some [103], 30000, some [], some [99], [(some [114], some [0, 1])]⟩ = .ok frame
    ∧ Monitor.C04.joinGroup [] 1 ⟨some [103], 30000, some [], some [99], [(some [114], some [0, 1])]⟩ frame = .ok :=
  ⟨_, rfl, by decide⟩
/-- a produce request with two topics (interleaved payloads), null / empty keys and values, both
    message formats in a v2 request: emitted, and the monitor says `ok` -/
def exampleExt : Ext :=
  { crc := fun bs => bs.length * 2654435761 + 7, gzip := fun _ => .error .extMissing, gunzip := fun _ => .error .extMissing,
    snappy := fun _ => .error .notImplemented, unsnappy := fun _ => .error .notImplemented, nowMs := 1500000000123 }
def examplePayloads : List ProduceReq :=
  [⟨some [116], 0, [⟨0, 0, none, some [1, 2], none⟩, ⟨1, 0, some [], none, none⟩]⟩,
   ⟨some [117], 3, []⟩,
   ⟨some [116], 1, [⟨1, 8, some [107], some [], some (-1)⟩]⟩]
example : ∃ frame, encodeProduceRequest exampleExt [99] 5 examplePayloads (-1) 1000 8 = .ok frame
    ∧ Monitor.C04.produce exampleExt.crc exampleExt.nowMs [99] 5 examplePayloads (-1) 1000 8 frame = .ok :=
  ⟨_, rfl, by decide +kernel⟩
example : ∃ frame, encodeFetchRequest [] 1 [⟨some [116], 2, 9223372036854775807, 4096⟩, ⟨some [116], 0, 0, 1⟩] 100 4096 11 = .ok frame
    ∧ Monitor.C04.fetch [] 1 [⟨some [116], 2, 9223372036854775807, 4096⟩, ⟨some [116], 0, 0, 1⟩] 100 4096 11 frame = .ok :=
  ⟨_, rfl, by decide +kernel⟩
/-- a magic-1 message in a Produce v0 request is outside the grammar (and outside what the producer sends) -/
example : ∃ frame, encodeProduceRequest exampleExt [] 1 [⟨some [116], 0, [⟨1, 0, none, none, some 5⟩]⟩] 1 1 0 = .ok frame
    ∧ Monitor.C04.produce exampleExt.crc exampleExt.nowMs [] 1 [⟨some [116], 0, [⟨1, 0, none, none, some 5⟩]⟩] 1 1 0 frame = .outOfRange :=
  ⟨_, rfl, by decide +kernel⟩
/-- an out-of-range correlation id is rejected (no frame at all) -/
example : encodeMetadataRequest [] 2147483648 [] = .error .structError := rfl

/-! ## version selection -/

/-- For EVERY advertised table (any order, any other entries, any position of the entry): if the
    first entry for Produce (resp. Fetch) advertises `min ≤ 0` and `max ≥ 2`, then
    * the lookup returns that entry's `max` (by api key, not by position — finding F5, repaired);
    * the header of the request carries version 2, which is advertised and implemented;
    * the reply is decoded by exactly the decoder of version 2. -/
theorem C04_version_choice (t : List ApiVersion) (key : Int) (v : ApiVersion) (rest : List ApiVersion)
    (_hkey : key = produceKey ∨ key = fetchKey)
    (hfirst : t.filter (fun e => e.apiKey = key) = v :: rest)
    (hmin : v.minVersion ≤ 0) (hmax : 2 ≤ v.maxVersion) :
    lookupVersion key (.table t) = some v.maxVersion
    ∧ (produceClamp v.maxVersion).1 = 2 ∧ fetchClamp v.maxVersion = 2
    ∧ versionChosenOk t key 2 = true
    ∧ (∀ data, decodeProduceResponse data v.maxVersion = decodeProduceResponse data 2)
    ∧ (∀ ext depth data, decodeFetchResponse ext depth data v.maxVersion = decodeFetchResponse ext depth data 2) := by
  have hv : v ∈ t.filter (fun e => e.apiKey = key) := by rw [hfirst]; exact List.mem_cons_self
  have hvt : v ∈ t := (List.mem_filter.mp hv).1
  have hvk : v.apiKey = key := by simpa using (List.mem_filter.mp hv).2
  refine ⟨?_, ?_, ?_, ?_, ?_, ?_⟩
  · simp only [lookupVersion, hfirst]
  · unfold produceClamp
    split
    · rfl
    · rename_i hc; simp only [produceClampAt] at hc; omega
  · unfold fetchClamp
    split
    · rfl
    · rename_i hc; simp only [fetchClampAt] at hc; omega
  · simp only [versionChosenOk, replyImplemented, Bool.and_eq_true, List.any_eq_true, decide_eq_true_eq]
    exact ⟨by decide, v, hvt, ⟨⟨hvk, by omega⟩, by omega⟩⟩
  · intro data
    simp only [decodeProduceResponse, produceRespV0Is, produceRespV2From]
    have h1 : ¬ v.maxVersion = 0 := by omega
    have h2 : v.maxVersion ≥ 1 := by omega
    simp [h1, h2]
  · intro ext depth data
    simp only [decodeFetchResponse, fetchRespV0Is, fetchRespV2From]
    have h1 : ¬ v.maxVersion = 0 := by omega
    have h2 : v.maxVersion ≥ 2 := by omega
    simp [h1, h2]

/-- The choice does not depend on the order of the table: for tables that list each api key once,
    any permutation gives the same version. -/
theorem C04_version_choice_order (t t' : List ApiVersion) (key : Int) (hp : t.Perm t')
    (hnd : (t.map (·.apiKey)).Nodup) :
    lookupVersion key (.table t) = lookupVersion key (.table t') := by
  have hf : (t.filter (fun e => e.apiKey = key)).Perm (t'.filter (fun e => e.apiKey = key)) := hp.filter _
  have hlen : ∀ (l : List ApiVersion), (l.map (·.apiKey)).Nodup → (l.filter (fun e => e.apiKey = key)).length ≤ 1 := by
    intro l
    induction l with
    | nil => simp
    | cons a as ih =>
      intro hn
      simp only [List.map_cons, List.nodup_cons] at hn
      by_cases ha : a.apiKey = key
      · have : as.filter (fun e => e.apiKey = key) = [] := by
          rw [List.filter_eq_nil_iff]
          intro b hb hbk
          simp only [decide_eq_true_eq] at hbk
          exact hn.1 (List.mem_map.mpr ⟨b, hb, by rw [hbk, ha]⟩)
        simp [ha, this]
      · simp only [List.filter_cons, ha, decide_false, Bool.false_eq_true, if_false]
        exact ih hn.2
  have h1 := hlen t hnd
  have hnd' : (t'.map (·.apiKey)).Nodup := (hp.map _).nodup_iff.mp hnd
  have h2 := hlen t' hnd'
  cases hA : t.filter (fun e => e.apiKey = key) with
  | nil =>
    cases hB : t'.filter (fun e => e.apiKey = key) with
    | nil => simp only [lookupVersion, hA, hB]
    | cons b bs => rw [hA, hB] at hf; exact absurd hf.length_eq (by simp)
  | cons a as =>
    cases hB : t'.filter (fun e => e.apiKey = key) with
    | nil => rw [hA, hB] at hf; exact absurd hf.length_eq (by simp)
    | cons b bs =>
      rw [hA] at h1; rw [hB] at h2
      have has : as = [] := by cases as <;> simp_all
      have hbs : bs = [] := by cases bs <;> simp_all
      subst has; subst hbs
      rw [hA, hB] at hf
      have hab : a = b := by simpa using hf.eq_singleton
      simp only [lookupVersion, hA, hB, hab]

/-- Fallback: three unanswered discoveries, or a reply carrying an error code, leave the client in
    the legacy state, in which every request carries version 0 and the producer uses message
    format 0 — also for the batch that was built BEFORE the discovery ran (finding F17, repaired). -/
theorem C04_fallback_zero :
    fetchApiVersions [.unavailable, .unavailable, .unavailable] = some (.ok .legacy)
    ∧ (∀ err vs, err ≠ 0 → handleApiVersionUpdate err vs = .legacy)
    ∧ (∀ key, lookupVersion key .legacy = some 0)
    ∧ (produceClamp 0 = (0, 0) ∧ fetchClamp 0 = 0)
    ∧ (producerMagic .undiscovered = 0 ∧ producerMagic .legacy = 0)
    ∧ (∀ key, getApiVersion .undiscovered key [.unavailable, .unavailable, .unavailable] = some (.ok (.legacy, 0))) := by
  refine ⟨rfl, ?_, ?_, by decide, by decide, ?_⟩
  · intro err vs h; simp [handleApiVersionUpdate, h]
  · intro key; rfl
  · intro key; rfl

/-- A reply whose error code is not zero also ends in the fallback (the error code is read as the
    int16 it is — finding F3, repaired: error 35 with an empty table). -/
theorem C04_fallback_on_error_code :
    ∀ key, getApiVersion .undiscovered key [.reply [0, 0, 0, 1, 0, 35, 0, 0, 0, 0]] = some (.ok (.legacy, 0)) := by
  intro key
  have hd : decodeApiVersionsResponse [0, 0, 0, 1, 0, 35, 0, 0, 0, 0] = .ok (35, []) := by decide +kernel
  simp only [getApiVersion, fetchApiVersions, apiVersionAttempts, fetchLoop, hd, handleApiVersionUpdate]
  rfl

/-- **The public `fetch_api_versions()` keeps a successful discovery** (it used to forget it: a second
    call answered `ApiVersionResponse(-1, [])` and left the client in the fallback state for good;
    repaired): called with a discovered table it performs no request, answers with that table and
    leaves it; in the fallback state it stays there; from the undiscovered state it leaves the state
    the discovery loop computes.  So the version chosen after any number of calls is the one
    `C04_version_choice` speaks about. -/
theorem C04_refetch_keeps_table :
    (∀ v vs attempts, fetchApiVersionsCall (.table (v :: vs)) attempts = some (.ok (.table (v :: vs), 0, v :: vs)))
    ∧ (∀ attempts, fetchApiVersionsCall .legacy attempts = some (.ok (.legacy, -1, [])))
    ∧ (∀ attempts, fetchApiVersionsCall (.table []) attempts = some (.ok (.legacy, -1, [])))
    ∧ (∀ attempts, (fetchApiVersionsCall .undiscovered attempts).map (fun r => r.map (·.1)) = fetchApiVersions attempts)
    ∧ (∀ key, lookupVersion key (.table []) = lookupVersion key .legacy ∧ producerMagic (.table []) = producerMagic .legacy) := by
  refine ⟨?_, ?_, ?_, ?_, ?_⟩
  · intro v vs attempts; rfl
  · intro attempts; rfl
  · intro attempts; rfl
  · intro attempts; exact fetchLoopCall_state _ attempts
  · intro key; exact ⟨rfl, rfl⟩

/-! ## the glue of `KafkaClient.send_produce_request` / `send_fetch_request` -/

/-- **The decoder applied to the reply is the decoder for the version written in the request header**,
    for EVERY discovery state and EVERY outcome of the discovery (table in any order, error code, no
    answer, already discovered, discovery disabled): whatever version `get_api_version` hands out,
    * encoder and decoder are handed the same number (no decoder when `acks = 0`);
    * the header of the request the encoder writes carries `clamp(version)` under key 0;
    * the decoder, handed `version`, is the decoder of `clamp(version)`. -/
theorem C04_glue_produce (st st' : ApiVersionsState) (attempts : List Attempt) (acks vEnc : Int) (vDec : Option Int)
    (h : sendProduceVersions st attempts acks = some (.ok (st', vEnc, vDec))) :
    (vDec = if acks = 0 then none else some vEnc)
    ∧ getApiVersion st produceKey attempts = some (.ok (st', vEnc))
    ∧ (∀ ext cid corr ps timeout frame, encodeProduceRequest ext cid corr ps acks timeout vEnc = .ok frame →
        ∃ rest, Spec.header.dec frame = some (⟨0, (produceClamp vEnc).1, corr, some cid⟩, rest))
    ∧ (∀ data, decodeProduceResponse data vEnc = decodeProduceResponse data (produceClamp vEnc).1) := by
  unfold sendProduceVersions at h
  have hk : glueProduceKey = produceKey := rfl
  rw [hk] at h
  cases hg : getApiVersion st produceKey attempts with
  | none => simp [hg] at h
  | some r =>
    cases r with
    | error e => simp [hg] at h
    | ok p =>
      obtain ⟨s2, v⟩ := p
      simp only [hg, Option.some.injEq, Except.ok.injEq, Prod.mk.injEq] at h
      obtain ⟨rfl, rfl, rfl⟩ := h
      exact ⟨rfl, rfl, fun ext cid corr ps timeout frame hf => produce_header hf, fun data => decodeProduceResponse_clamp data v⟩

/-- the same for Fetch (key 1) -/
theorem C04_glue_fetch (st st' : ApiVersionsState) (attempts : List Attempt) (vEnc vDec : Int)
    (h : sendFetchVersions st attempts = some (.ok (st', vEnc, vDec))) :
    vDec = vEnc
    ∧ getApiVersion st fetchKey attempts = some (.ok (st', vEnc))
    ∧ (∀ cid corr ps wait minb frame, encodeFetchRequest cid corr ps wait minb vEnc = .ok frame →
        ∃ rest, Spec.header.dec frame = some (⟨1, fetchClamp vEnc, corr, some cid⟩, rest))
    ∧ (∀ ext depth data, decodeFetchResponse ext depth data vDec = decodeFetchResponse ext depth data (fetchClamp vEnc)) := by
  unfold sendFetchVersions at h
  have hk : glueFetchKey = fetchKey := rfl
  rw [hk] at h
  cases hg : getApiVersion st fetchKey attempts with
  | none => simp [hg] at h
  | some r =>
    cases r with
    | error e => simp [hg] at h
    | ok p =>
      obtain ⟨s2, v⟩ := p
      simp only [hg, Option.some.injEq, Except.ok.injEq, Prod.mk.injEq] at h
      obtain ⟨rfl, rfl, rfl⟩ := h
      exact ⟨rfl, rfl, fun cid corr ps wait minb frame hf => fetch_header hf,
        fun ext depth data => decodeFetchResponse_clamp ext depth data v⟩

/-- every way a discovery can end: still waiting for an answer, the decoder's exception escaping
    (the state stays undiscovered), the legacy fallback, or an advertised table -/
theorem C04_discovery_outcomes (attempts : List Attempt) :
    fetchApiVersions attempts = none ∨ (∃ e, fetchApiVersions attempts = some (.error e)) ∨
    fetchApiVersions attempts = some (.ok .legacy) ∨ ∃ t, fetchApiVersions attempts = some (.ok (.table t)) :=
  fetchLoop_outcomes _ attempts

example : sendProduceVersions .undiscovered [.unavailable, .reply [0, 0, 0, 1, 0, 0, 0, 0, 0, 2, 0, 18, 0, 0, 0, 3, 0, 0, 0, 0, 0, 8]] 1
    = some (.ok (.table [⟨18, 0, 3⟩, ⟨0, 0, 8⟩], 8, some 8)) := by decide +kernel
example : sendFetchVersions .legacy [] = some (.ok (.legacy, 0, 0)) := by decide

/-- Before the fix of F5 a table that was not in key order gave the wrong version; the lookup is by
    key: here the table lists ApiVersions first and Produce last. -/
example : lookupVersion 0 (.table [⟨18, 0, 3⟩, ⟨1, 0, 11⟩, ⟨3, 0, 9⟩, ⟨0, 0, 8⟩]) = some 8 := by decide

/-- **The fallback, for every sequence of attempts** (the two named shapes of `C04_fallback_zero` /
    `C04_fallback_on_error_code` are instances):
    * a discovery that ends normally ends in the fallback state or in the table of a reply whose error code is 0;
    * as many unanswered attempts as the loop allows end in the fallback state, whatever follows;
    * fewer unanswered attempts followed by a reply with a non-zero error code end in the fallback state;
    * in the fallback state every request carries version 0, the producer writes format 0, and both
      clamps keep 0;
    * a reply the decoder REJECTS (truncated, garbled) does not fall back: the decoder's exception
      fails the call and the state stays undiscovered, so the next call runs the discovery again. -/
theorem C04_fallback_general :
    (∀ attempts st, fetchApiVersions attempts = some (.ok st) →
      st = .legacy ∨ ∃ data vs, Attempt.reply data ∈ attempts ∧ decodeApiVersionsResponse data = .ok (0, vs) ∧ st = .table vs)
    ∧ (∀ rest, fetchApiVersions (List.replicate apiVersionAttempts .unavailable ++ rest) = some (.ok .legacy))
    ∧ (∀ k data err vs rest, k < apiVersionAttempts → decodeApiVersionsResponse data = .ok (err, vs) → err ≠ 0 →
        fetchApiVersions (List.replicate k .unavailable ++ .reply data :: rest) = some (.ok .legacy))
    ∧ (∀ key attempts, getApiVersion .legacy key attempts = some (.ok (.legacy, 0)))
    ∧ (producerMagic .legacy = 0 ∧ produceClamp 0 = (0, 0) ∧ fetchClamp 0 = 0)
    ∧ (∀ k data e rest key, k < apiVersionAttempts → decodeApiVersionsResponse data = .error e →
        getApiVersion .undiscovered key (List.replicate k .unavailable ++ .reply data :: rest) = some (.error e)) := by
  refine ⟨?_, ?_, ?_, ?_, by decide, ?_⟩
  · intro attempts st h; exact fetchLoop_ok_char _ attempts st h
  · intro rest; exact fetchLoop_all_unavailable _ rest
  · intro k data err vs rest hk hd he; exact fetchLoop_error_code _ k data err vs rest hk hd he
  · intro key attempts; rfl
  · intro k data e rest key hk hd
    simp only [getApiVersion, fetchApiVersions, fetchLoop_garbled _ k data e rest hk hd]

/-- **Version 1 replies are not implemented**, and the monitor does not count version 1 as
    implemented: the fetch decoder raises `UnboundLocalError` on every input when handed version 1
    (the produce decoder reads the version-2 layout).  A table advertising `max = 1` for Fetch makes
    the client send version 1 — such tables (and tables with `min > 0` or without an entry for the API)
    are outside the property's quantifier (`min ≤ 0`, `max ≥ 2`) and `versionVerdict` does not judge them. -/
theorem C04_reply_v1_not_implemented :
    (∀ ext depth data, decodeFetchResponse ext depth data 1 = ([], .error .unboundLocal))
    ∧ (∀ data, decodeProduceResponse data 1 = decodeProduceResponse data 2)
    ∧ (∀ t key, versionChosenOk t key 1 = false)
    ∧ (∀ t key hv ms, inQuantifier t key = false → versionVerdict t key hv ms = .outOfRange) := by
  refine ⟨?_, ?_, ?_, ?_⟩
  · intro ext depth data; rfl
  · intro data; rfl
  · intro t key; rfl
  · intro t key hv ms h; simp [versionVerdict, h]

/-- the boundary of the quantifier, made visible: `max = 1` ⇒ header version 1; no entry ⇒ 0 with
    format 1; `min = 3` ⇒ version 2 although not advertised -/
example : sendFetchVersions (.table [⟨1, 0, 1⟩]) [] = some (.ok (.table [⟨1, 0, 1⟩], 1, 1))
    ∧ versionVerdict [⟨1, 0, 1⟩] 1 1 [] = .outOfRange := by decide
example : sendProduceVersions (.table [⟨18, 0, 3⟩]) [] 1 = some (.ok (.table [⟨18, 0, 3⟩], 0, some 0))
    ∧ producerMagic (.table [⟨18, 0, 3⟩]) = 1 ∧ versionVerdict [⟨18, 0, 3⟩] 0 0 [1] = .outOfRange := by decide
example : lookupVersion 0 (.table [⟨0, 3, 9⟩]) = some 9 ∧ (produceClamp 9).1 = 2
    ∧ versionVerdict [⟨0, 3, 9⟩] 0 2 [1] = .outOfRange := by decide

/-- **Message format 1 only in Produce v2**: for every table in the quantifier the producer writes
    format 1 AND the request goes out as version 2; in every state in which the request goes out
    older than 2 without a table (undiscovered, fallback) the producer writes format 0.  Hence the
    monitor's `formatOk` holds for every frame the model of the flow can produce inside the
    quantifier. -/
theorem C04_format_matches_version (t : List ApiVersion) (v : ApiVersion) (rest : List ApiVersion)
    (hfirst : t.filter (fun e => e.apiKey = produceKey) = v :: rest)
    (hmin : v.minVersion ≤ 0) (hmax : 2 ≤ v.maxVersion) :
    inQuantifier t produceKey = true
    ∧ producerMagic (.table t) = 1
    ∧ lookupVersion produceKey (.table t) = some v.maxVersion
    ∧ produceClamp v.maxVersion = (2, 1)
    ∧ (∀ ms, versionVerdict t produceKey 2 ms = .ok)
    ∧ (producerMagic .undiscovered = 0 ∧ producerMagic .legacy = 0 ∧ producerMagic (.table []) = 0) := by
  have hv : v ∈ t.filter (fun e => e.apiKey = produceKey) := by rw [hfirst]; exact List.mem_cons_self
  have hvt : v ∈ t := (List.mem_filter.mp hv).1
  have hvk : v.apiKey = produceKey := by simpa using (List.mem_filter.mp hv).2
  have hq : inQuantifier t produceKey = true := by
    simp only [inQuantifier, hfirst, Bool.and_eq_true, decide_eq_true_eq]; exact ⟨hmin, hmax⟩
  have hc : versionChosenOk t produceKey 2 = true := by
    simp only [versionChosenOk, replyImplemented, Bool.and_eq_true, List.any_eq_true, decide_eq_true_eq]
    exact ⟨by decide, v, hvt, ⟨⟨hvk, by omega⟩, by omega⟩⟩
  refine ⟨hq, ?_, ?_, ?_, ?_, by decide⟩
  · cases t with
    | nil => simp at hvt
    | cons a as => rfl
  · simp only [lookupVersion, hfirst]
  · unfold produceClamp
    split
    · rfl
    · rename_i hcl; simp only [produceClampAt] at hcl; omega
  · intro ms
    simp [versionVerdict, hq, hc, formatOk]

/-- **The reply decoder is the decoder of the version in the header, and that decoder round-trips**
    (the C05 theorems, cited): whenever the version handed on is 0 or at least 2 — every version the
    client can choose inside the quantifier, and the fallback — the decoder the glue applies to the
    reply decodes the grammar's encoding (of that header version's response layout) of any
    well-formed value to exactly that value.  Version 1 is excluded: see
    `C04_reply_v1_not_implemented`. -/
theorem C04_glue_reply_roundtrip (vEnc : Int) :
    (vEnc = 0 → (produceClamp vEnc).1 = 0 ∧ fetchClamp vEnc = 0
      ∧ (∀ v e, Monitor.C05.expectedProduceV0 v = some (e, true) →
          ∃ g, decodeProduceResponse (Spec.produceResponseV0.enc v) vEnc = .ok g ∧ Props.C05.finished g e)
      ∧ (∀ (ext : Ext) (depth : Nat) v e,
          Monitor.C05.expectedFetchV0 ext.crc (fun b => (ext.gunzip (some b)).toOption) depth v = some (e, true) →
          Props.C05.finished (decodeFetchResponse ext (depth + 1) ((Spec.fetchResponseV0 ext.crc).enc v) vEnc) e))
    ∧ (2 ≤ vEnc → (produceClamp vEnc).1 = 2 ∧ fetchClamp vEnc = 2
      ∧ (∀ v e, Monitor.C05.expectedProduceV2 v = some (e, true) →
          ∃ g, decodeProduceResponse (Spec.produceResponseV2.enc v) vEnc = .ok g ∧ Props.C05.finished g e)
      ∧ (∀ (ext : Ext) (depth : Nat) v e,
          Monitor.C05.expectedFetchV2 ext.crc (fun b => (ext.gunzip (some b)).toOption) depth v = some (e, true) →
          Props.C05.finished (decodeFetchResponse ext (depth + 1) ((Spec.fetchResponseV2 ext.crc).enc v) vEnc) e)) := by
  constructor
  · intro h0
    subst h0
    exact ⟨by decide, by decide, Props.C05.C05_produce_v0_roundtrip, Props.C05.C05_fetch_v0_roundtrip⟩
  · intro h2
    refine ⟨?_, ?_, ?_, ?_⟩
    · unfold produceClamp; split
      · rfl
      · rename_i hc; simp only [produceClampAt] at hc; omega
    · unfold fetchClamp; split
      · rfl
      · rename_i hc; simp only [fetchClampAt] at hc; omega
    · intro v e he
      rw [decodeProduceResponse_clamp, show (produceClamp vEnc).1 = 2 from by
        unfold produceClamp; split
        · rfl
        · rename_i hc; simp only [produceClampAt] at hc; omega]
      exact Props.C05.C05_produce_v2_roundtrip v e he
    · intro ext depth v e he
      rw [decodeFetchResponse_clamp, show fetchClamp vEnc = 2 from by
        unfold fetchClamp; split
        · rfl
        · rename_i hc; simp only [fetchClampAt] at hc; omega]
      exact Props.C05.C05_fetch_v2_roundtrip ext depth v e he

/-- **Compressed produce payloads**: the single wrapper `create_message_set(requests, CODEC_GZIP, magic)`
    builds carries the gzip codec in its attributes, a null key, the format asked for, and as value the
    compressor's output for exactly the grammar's encoding of the requests' payloads (offset 0, the
    request's key, attributes 0, the clock's timestamp for format 1).  If the decompressor undoes the
    compressor, the wrapper's value therefore decompresses to bytes that parse under the grammar to
    exactly those entries (whenever the grammar can carry them).  The wrapper then goes into a produce
    request like any other message (`C04_produce_conforms`, `C04_crc_valid`). -/
theorem C04_compressed_payload (ext : Ext) (reqs : List (Option Bytes × List (Option Bytes))) (magic : Int)
    (ms : List Message) (h : createMessageSet ext reqs codecGzip magic = .ok ms) :
    ∃ w gz, ms = [w] ∧ w.attributes = codecGzip ∧ w.key = none ∧ w.value = some gz ∧ w.magic = magic
      ∧ (w.timestamp = if magic = 1 then some ext.nowMs else none)
      ∧ ext.gzip ((Spec.messageSet ext.crc).enc (plainEntries ext.nowMs magic reqs)) = .ok gz
      ∧ ((∀ b z, ext.gzip b = .ok z → ext.gunzip (some z) = .ok b) →
          (Spec.messageSet ext.crc).valid (plainEntries ext.nowMs magic reqs) = true →
          ∃ inner, ext.gunzip (some gz) = .ok inner
            ∧ (Spec.messageSet ext.crc).dec inner = some (plainEntries ext.nowMs magic reqs)) := by
  obtain ⟨w, gz, h1, h2, h3, h4, h5, h6, h7⟩ := createMessageSet_gzip ext reqs magic ms h
  refine ⟨w, gz, h1, h2, h3, h4, h5, h6, h7, ?_⟩
  intro hinv hvalid
  exact ⟨_, hinv _ _ h7, (Spec.messageSet ext.crc).law _ hvalid⟩

/-! ## completeness: the private encoders and every branch of `create_message_set` -/

/-- **`_encode_message_header`** (every request starts with it; the `*_conforms` theorems contain it
    as the first component of `Spec.request`): whatever follows, the bytes it writes parse under the
    grammar's header codec to exactly the caller's api key, version, correlation id and client id. -/
theorem C04_header_conforms (cid : Bytes) (corr key ver : Int) (x rest : Bytes)
    (h : encodeHeader cid corr key ver = .ok x) :
    Spec.header.dec (x ++ rest) = some (⟨key, ver, corr, some cid⟩, rest) :=
  header_parses h

/-- **`_encode_message_set(messages, offset, magic)` for EVERY `offset` and `magic` argument** (the
    produce encoder calls it with `offset=None`; `create_gzip_message` / `create_snappy_message` too):
    the bytes parse under the grammar to exactly the caller's messages, numbered `offset, offset+1, …`
    (all 0 when no offset is given).  This is the monitor the driver evaluates on what the REAL
    `_encode_message_set` returns (`mon-c04-set`). -/
theorem C04_message_set_conforms (ext : Ext) (ms : List Message) (offset : Option Int) (magic : Int) (data : Bytes)
    (h : encodeMessageSet ext ms offset magic = .ok data) :
    Monitor.C04.messageSet ext.crc ext.nowMs ms offset data ≠ .fail :=
  messageSet_conforms ext ms offset magic data h

/-- no spurious refusal: every set the grammar can carry is written (format 0 or 1), and the monitor says `ok` -/
theorem C04_message_set_total (ext : Ext) (ms : List Message) (offset : Option Int) (magic : Int)
    (hm : magic = 0 ∨ magic = 1) (entries : List (Int × Spec.Msg))
    (he : Monitor.C04.entriesAt ext.nowMs offset ms = some entries) (hv : (Spec.messageSet ext.crc).valid entries = true) :
    ∃ data, encodeMessageSet ext ms offset magic = .ok data
      ∧ Monitor.C04.messageSet ext.crc ext.nowMs ms offset data = .ok :=
  messageSet_total ext ms offset magic hm entries he hv

/-- non-vacuity: two format-1 messages numbered from 7: written, and the monitor says `ok` -/
example : ∃ data, encodeMessageSet exampleExt [⟨1, 8, none, some [], none⟩, ⟨1, 0, some [107], none, some (-1)⟩] (some 7) 1 = .ok data
    ∧ Monitor.C04.messageSet exampleExt.crc exampleExt.nowMs
        [⟨1, 8, none, some [], none⟩, ⟨1, 0, some [107], none, some (-1)⟩] (some 7) data = .ok :=
  ⟨_, rfl, by decide +kernel⟩

/-- **`create_message_set` for EVERY `codec` argument** (`C04_compressed_payload` is the gzip branch):
    `CODEC_NONE` hands on exactly the requests' payloads as messages (offset 0, attributes 0, the
    request's key, the format asked for, the clock's timestamp for format 1); `CODEC_SNAPPY` builds one
    wrapper with the snappy codec bits, a null key and the compressor's output for the grammar's
    encoding of those payloads (`create_snappy_message`); any other value returns nothing
    (`UnsupportedCodecError`). -/
theorem C04_create_message_set_codecs (ext : Ext) (reqs : List (Option Bytes × List (Option Bytes))) (magic : Int) :
    (∀ ms, createMessageSet ext reqs codecNone magic = .ok ms →
        specEntries ext.nowMs ms = some (plainEntries ext.nowMs magic reqs))
    ∧ (∀ ms, createMessageSet ext reqs codecSnappy magic = .ok ms →
        ∃ w sn, ms = [w] ∧ w.attributes = codecSnappy ∧ w.key = none ∧ w.value = some sn ∧ w.magic = magic
          ∧ (w.timestamp = if magic = 1 then some ext.nowMs else none)
          ∧ ext.snappy ((Spec.messageSet ext.crc).enc (plainEntries ext.nowMs magic reqs)) = .ok sn)
    ∧ (∀ codec, codec ≠ codecNone ∧ codec ≠ codecGzip ∧ codec ≠ codecSnappy →
        ∀ ms, createMessageSet ext reqs codec magic ≠ .ok ms) :=
  ⟨fun ms h => createMessageSet_none ext reqs magic ms h,
   fun ms h => createMessageSet_snappy ext reqs magic ms h,
   fun codec hc => createMessageSet_unsupported ext reqs codec magic hc⟩

/-- **The guard refuses exactly the lists that would lose a payload** (finding F18). -/
theorem C04_guard_exact : C04_guard_exact_stmt := by
  intro α topic partition xs
  exact payloadCount_eq_iff topic partition xs

/-- **No request is written from which a payload is missing**: all five broker-aware encoders raise
    `ValueError` on a list that names a (topic, partition) twice. -/
theorem C04_duplicate_refused : C04_duplicate_refused_stmt := by
  refine ⟨?_, ?_, ?_, ?_, ?_⟩
  · intro ext cid corr ps acks timeout ver h
    have hg := mt (payloadCount_eq_iff ProduceReq.topic ProduceReq.partition ps).mp h
    unfold encodeProduceRequest
    simp only
    rw [if_pos hg]
  · intro cid corr ps wait minb ver h
    have hg := mt (payloadCount_eq_iff FetchReq.topic FetchReq.partition ps).mp h
    unfold encodeFetchRequest
    simp only
    rw [if_pos hg]
  · intro cid corr ps h
    have hg := mt (payloadCount_eq_iff OffsetReq.topic OffsetReq.partition ps).mp h
    unfold encodeOffsetRequest
    simp only
    rw [if_pos hg]
  · intro cid corr g ps h
    have hg := mt (payloadCount_eq_iff OffsetFetchReq.topic OffsetFetchReq.partition ps).mp h
    unfold encodeOffsetFetchRequest
    simp only
    rw [if_pos hg]
  · intro cid corr g gen c ps h
    have hg := mt (payloadCount_eq_iff OffsetCommitReq.topic OffsetCommitReq.partition ps).mp h
    unfold encodeOffsetCommitRequest
    simp only [Option.isNone_some, Bool.false_eq_true, if_false]
    rw [if_pos hg]


/-- **No spurious refusal** (the other half of conformance): on every argument list the grammar can
    carry the encoder DOES write a frame, and the monitor's verdict on it is `ok`. -/
theorem C04_produce_total : C04_produce_total_stmt := by
  intro ext cid corr ps acks timeout ver v l hv hk hmag hnd hvalid hascii
  obtain ⟨frame, h⟩ := produce_total hv hk hnd hvalid hascii
  refine ⟨frame, h, ?_⟩
  unfold Monitor.C04.produce
  simp only [hv, hk]
  rw [if_neg (by simpa using hmag)]
  exact conforms_ok_of_enc _ _ _ hvalid (produce_bytes h hv hk)

theorem C04_fetch_total : C04_fetch_total_stmt := by
  intro cid corr ps wait minb ver v l hv hk hnd hvalid hascii
  obtain ⟨frame, h⟩ := fetch_total hv hk hnd hvalid hascii
  refine ⟨frame, h, ?_⟩
  unfold Monitor.C04.fetch
  simp only [hv, hk]
  exact conforms_ok_of_enc _ _ _ hvalid (fetch_bytes h hv hk)

theorem C04_list_offsets_total : C04_list_offsets_total_stmt := by
  intro cid corr ps l hk hnd hvalid hascii
  obtain ⟨frame, h⟩ := listOffsets_total hk hnd hvalid hascii
  refine ⟨frame, h, ?_⟩
  unfold Monitor.C04.listOffsets
  simp only [hk, Option.map_some]
  exact conforms_ok_of_enc _ _ _ hvalid (listOffsets_bytes h hk)

theorem C04_offset_fetch_total : C04_offset_fetch_total_stmt := by
  intro cid g corr ps l hk hnd hvalid hascii
  obtain ⟨frame, h⟩ := offsetFetch_total hk hnd hvalid hascii
  refine ⟨frame, h, ?_⟩
  unfold Monitor.C04.offsetFetch
  simp only [hk]
  exact conforms_ok_of_enc _ _ _ hvalid (offsetFetch_bytes h hk)

theorem C04_offset_commit_total : C04_offset_commit_total_stmt := by
  intro cid g c corr gen ps l hk hnd hvalid hascii
  obtain ⟨frame, h⟩ := offsetCommit_total hk hnd hvalid hascii
  refine ⟨frame, h, ?_⟩
  unfold Monitor.C04.offsetCommit
  simp only [hk]
  exact conforms_ok_of_enc _ _ _ hvalid (offsetCommit_bytes h hk)

theorem C04_metadata_total : C04_metadata_total_stmt := by
  intro cid corr topics ts ht hvalid hascii
  obtain ⟨frame, h⟩ := metadata_total ht hvalid hascii
  refine ⟨frame, h, ?_⟩
  unfold Monitor.C04.metadata
  simp only [ht, Option.map_some]
  exact conforms_ok_of_enc _ _ _ hvalid (metadata_bytes h ht)

theorem C04_group_requests_total : C04_group_requests_total_stmt := by
  refine ⟨?_, ?_, ?_, ?_⟩
  · intro cid g corr hvalid
    obtain ⟨frame, h⟩ := findCoordinator_total hvalid
    refine ⟨frame, h, ?_⟩
    unfold Monitor.C04.findCoordinator
    simp only [Option.map_some]
    exact conforms_ok_of_enc _ _ _ hvalid (findCoordinator_bytes h)
  · intro cid g m corr gen hvalid
    obtain ⟨frame, h⟩ := heartbeat_total hvalid
    refine ⟨frame, h, ?_⟩
    unfold Monitor.C04.heartbeat
    exact conforms_ok_of_enc _ _ _ hvalid (heartbeat_bytes h)
  · intro cid g m corr hvalid
    obtain ⟨frame, h⟩ := leaveGroup_total hvalid
    refine ⟨frame, h, ?_⟩
    unfold Monitor.C04.leaveGroup
    exact conforms_ok_of_enc _ _ _ hvalid (leaveGroup_bytes h)
  · intro cid corr hvalid
    obtain ⟨frame, h⟩ := apiVersions_total hvalid
    refine ⟨frame, h, ?_⟩
    unfold Monitor.C04.apiVersions
    simp only [and_self, if_true]
    exact conforms_ok_of_enc _ _ _ hvalid (apiVersions_bytes h)


theorem C04_join_sync_total : C04_join_sync_total_stmt := by
  refine ⟨?_, ?_⟩
  · intro cid corr p g m t ps hg hm ht hps hvalid hascii
    obtain ⟨frame, h⟩ := joinGroup_total hg hm ht hps hvalid hascii
    refine ⟨frame, h, ?_⟩
    unfold Monitor.C04.joinGroup
    simp only [hg, hm, ht, hps]
    exact conforms_ok_of_enc _ _ _ hvalid (joinGroup_bytes h hg hm ht hps)
  · intro cid g m corr gen asg ps hps hvalid
    obtain ⟨frame, h⟩ := syncGroup_total hps hvalid
    refine ⟨frame, h, ?_⟩
    unfold Monitor.C04.syncGroup
    simp only [hps]
    exact conforms_ok_of_enc _ _ _ hvalid (syncGroup_bytes h hps)

theorem C04_consumer_protocol_total : C04_consumer_protocol_total_stmt := by
  refine ⟨?_, ?_⟩
  · intro ver subs ud ts ht hvalid
    obtain ⟨data, h⟩ := subscription_total ht hvalid
    refine ⟨data, h, ?_⟩
    unfold Monitor.C04.subscription
    simp only [ht, Option.map_some]
    exact conforms_ok_of_enc _ _ _ hvalid (subscription_bytes h ht)
  · intro ver asg ud a ha hvalid hascii
    obtain ⟨data, h⟩ := assignment_total ha hvalid hascii
    refine ⟨data, h, ?_⟩
    unfold Monitor.C04.assignment
    simp only [ha, Option.map_some]
    exact conforms_ok_of_enc _ _ _ hvalid (assignment_bytes h ha)


theorem asciiTopics_mem {β : Type} {l : List (Bytes × β)} (h : asciiTopics l = true) : ∀ e ∈ l, isAscii e.1 = true :=
  List.all_eq_true.mp h

theorem C04_must_encode : C04_must_encode_stmt := by
  refine ⟨?_, ?_, ?_, ?_, ?_, ?_, ?_, ?_, ?_, ?_, ?_, ?_, ?_, ?_⟩
  · intro ext cid corr ps acks timeout ver h
    unfold mustProduce at h
    split at h
    · rename_i v l hv hk
      simp only [Bool.and_eq_true, Bool.not_eq_true', decide_eq_true_eq] at h
      exact C04_produce_total ext cid corr ps acks timeout ver v l hv hk
        (by intro hh; have := h.1.1.1; rw [hh.2, decide_eq_true hh.1] at this; cases this) h.1.1.2 h.1.2 (asciiTopics_mem h.2)
    · cases h
  · intro cid corr ps wait minb ver h
    unfold mustFetch at h
    split at h
    · rename_i v l hv hk
      simp only [Bool.and_eq_true, decide_eq_true_eq] at h
      exact C04_fetch_total cid corr ps wait minb ver v l hv hk h.1.1 h.1.2 (asciiTopics_mem h.2)
    · cases h
  · intro cid corr ps h
    unfold mustListOffsets at h
    split at h
    · rename_i l hk
      simp only [Bool.and_eq_true, decide_eq_true_eq] at h
      exact C04_list_offsets_total cid corr ps l hk h.1.1 h.1.2 (asciiTopics_mem h.2)
    · cases h
  · intro cid corr g ps h
    unfold mustOffsetFetch at h
    split at h
    · rename_i g' l hk
      simp only [Bool.and_eq_true, decide_eq_true_eq] at h
      exact C04_offset_fetch_total cid g' corr ps l hk h.1.1 h.1.2 (asciiTopics_mem h.2)
    · cases h
  · intro cid corr g gen c ps h
    unfold mustOffsetCommit at h
    split at h
    · rename_i g' c' l hk
      simp only [Bool.and_eq_true, decide_eq_true_eq] at h
      exact C04_offset_commit_total cid g' c' corr gen ps l hk h.1.1 h.1.2 (asciiTopics_mem h.2)
    · cases h
  · intro cid corr topics h
    unfold mustMetadata at h
    split at h
    · rename_i ts ht
      simp only [Bool.and_eq_true] at h
      exact C04_metadata_total cid corr topics ts ht h.1 (List.all_eq_true.mp h.2)
    · cases h
  · intro cid corr g h
    unfold mustFindCoordinator at h
    split at h
    · rename_i g'
      exact C04_group_requests_total.1 cid g' corr h
    · cases h
  · intro cid corr p h
    unfold mustJoinGroup at h
    split at h
    · rename_i g m t ps hg hm ht hps
      simp only [Bool.and_eq_true] at h
      exact C04_join_sync_total.1 cid corr p g m t ps hg hm ht hps h.1 (List.all_eq_true.mp h.2)
    · cases h
  · intro cid corr g gen m asg h
    unfold mustSyncGroup at h
    split at h
    · rename_i g' m' a hps
      exact C04_join_sync_total.2 cid g' m' corr gen asg a hps h
    · cases h
  · intro cid corr g gen m h
    unfold mustHeartbeat at h
    split at h
    · rename_i g' m'
      exact C04_group_requests_total.2.1 cid g' m' corr gen h
    · cases h
  · intro cid corr g m h
    unfold mustLeaveGroup at h
    split at h
    · rename_i g' m'
      exact C04_group_requests_total.2.2.1 cid g' m' corr h
    · cases h
  · intro cid corr key ver h
    unfold mustApiVersions at h
    simp only [Bool.and_eq_true, decide_eq_true_eq] at h
    obtain ⟨⟨rfl, rfl⟩, hv⟩ := h
    exact C04_group_requests_total.2.2.2 cid corr hv
  · intro ver subs ud h
    unfold mustSubscription at h
    split at h
    · rename_i ts ht
      exact C04_consumer_protocol_total.1 ver subs ud ts ht h
    · cases h
  · intro ver asg ud h
    unfold mustAssignment at h
    split at h
    · rename_i a ha
      simp only [Bool.and_eq_true] at h
      exact C04_consumer_protocol_total.2 ver asg ud a ha h.1 (List.all_eq_true.mp h.2)
    · cases h


/-- the hypotheses of the totality statements are satisfiable: a two-partition fetch of topic "t" -/
example : ∃ frame, encodeFetchRequest [99] 7 [⟨some [116], 0, 5, 1024⟩, ⟨some [116], 1, 6, 1024⟩] 100 1 2 = .ok frame
    ∧ Monitor.C04.fetch [99] 7 [⟨some [116], 0, 5, 1024⟩, ⟨some [116], 1, 6, 1024⟩] 100 1 2 frame = .ok :=
  C04_fetch_total [99] 7 _ 100 1 2 2 [([116], (0, (5, 1024))), ([116], (1, (6, 1024)))] rfl rfl (by decide) (by decide) (by decide)


/-! ## the model's writers ARE the source: terms regenerated from `/repo`'s AST on every run

`Afkak.Consts.gen*` (`Afkak/Generated/WiregenConsts.lean`) are emitted by
`harness/lib/wire_translate.py` from the AST of `afkak/_util.py` / `afkak/kafkacodec.py`, one line per
source statement.  Each equals the hand-written model function for ALL arguments, so every theorem
above about the model function is a theorem about the translated source text. -/

/-- `_util.write_int_string` -/
theorem C04_generated_write_int_string_eq_model (s : Option Bytes) :
    genWriteIntString s = writeIntString s := gen_writeIntString s

/-- `_util.write_short_bytes` -/
theorem C04_generated_write_short_bytes_eq_model (b : Option Bytes) :
    genWriteShortBytes b = writeShortBytes b := gen_writeShortBytes b

/-- `_util.write_short_ascii` -/
theorem C04_generated_write_short_ascii_eq_model (s : Option Bytes) :
    genWriteShortAscii s = writeShortAscii s := gen_writeShortAscii s

/-- `_util.write_short_text` -/
theorem C04_generated_write_short_text_eq_model (s : Option Bytes) :
    genWriteShortText s = writeShortText s := gen_writeShortText s

/-- `KafkaCodec._encode_message_header` (the request envelope of every request) -/
theorem C04_generated_encode_message_header_eq_model (cid : Bytes) (corr key ver : Int) :
    genEncodeMessageHeader cid corr key ver = encodeHeader cid corr key ver := gen_encodeHeader cid corr key ver

/-- `KafkaCodec.encode_api_versions_request`; the `ApiVersionRequest` is `(api_key, api_version)` -/
theorem C04_generated_encode_api_versions_request_eq_model (cid : Bytes) (corr key ver : Int) :
    genEncodeApiVersionsRequest cid corr (key, ver) = encodeApiVersionsRequest cid corr key ver :=
  gen_encodeApiVersions cid corr key ver

/-- `KafkaCodec.encode_consumermetadata_request` -/
theorem C04_generated_encode_consumermetadata_request_eq_model (cid : Bytes) (corr : Int) (g : Option Bytes) :
    genEncodeConsumermetadataRequest cid corr g = encodeConsumerMetadataRequest cid corr g :=
  gen_encodeConsumerMetadata cid corr g

/-- `KafkaCodec.encode_leave_group_request`; the payload is `(group, member_id)` -/
theorem C04_generated_encode_leave_group_request_eq_model (cid : Bytes) (corr : Int) (g m : Option Bytes) :
    genEncodeLeaveGroupRequest cid corr (g, m) = encodeLeaveGroupRequest cid corr g m :=
  gen_encodeLeaveGroup cid corr g m

/-- `KafkaCodec.encode_heartbeat_request`; the payload is `(group, generation_id, member_id)` -/
theorem C04_generated_encode_heartbeat_request_eq_model (cid : Bytes) (corr : Int) (g : Option Bytes) (gen : Int)
    (m : Option Bytes) :
    genEncodeHeartbeatRequest cid corr (g, gen, m) = encodeHeartbeatRequest cid corr g gen m :=
  gen_encodeHeartbeat cid corr g gen m

/-- `KafkaCodec.encode_sync_group_request` including its `for assignment in payload.group_assignment`
    loop; the payload is `(group, generation_id, member_id, [(member_id, member_metadata)])` -/
theorem C04_generated_encode_sync_group_request_eq_model (cid : Bytes) (corr : Int) (g : Option Bytes) (gen : Int)
    (m : Option Bytes) (ga : List (Option Bytes × Option Bytes)) :
    genEncodeSyncGroupRequest cid corr (g, gen, m, ga) = encodeSyncGroupRequest cid corr g gen m ga :=
  gen_encodeSyncGroup cid corr g gen m ga

/-- `KafkaCodec.encode_join_group_request` including its `for group_protocol in payload.group_protocols` loop -/
theorem C04_generated_encode_join_group_request_eq_model (cid : Bytes) (corr : Int) (p : JoinGroupReq) :
    genEncodeJoinGroupRequest cid corr (p.group, p.sessionTimeout, p.memberId, p.protocolType, p.groupProtocols)
      = encodeJoinGroupRequest cid corr p := gen_encodeJoinGroup cid corr p

/-- `KafkaCodec.encode_join_group_protocol_metadata` (the consumer protocol's subscription) -/
theorem C04_generated_encode_join_group_protocol_metadata_eq_model (version : Int) (subs : List (Option Bytes))
    (ud : Option Bytes) :
    genEncodeJoinGroupProtocolMetadata version subs ud = encodeJoinGroupProtocolMetadata version subs ud :=
  gen_encodeJoinGroupProtocolMetadata version subs ud

/-- `_util.group_by_topic_and_partition` (the grouping every broker-aware encoder starts with), for any
    payload type: the loop over a `defaultdict(dict)` never raises and computes the model's grouping
    (insertion order, a repeated (topic, partition) keeps its place and the last payload). -/
theorem C04_generated_group_by_topic_and_partition_eq_model {α : Type} (topic : α → Option Bytes)
    (partition : α → Int) (xs : List α) :
    genGroupByTopicAndPartition topic partition xs = .ok (groupByTopicPartition topic partition xs) :=
  gen_groupBy topic partition xs

/-- `kafkacodec._group_payloads`: the grouping plus the refusal (`ValueError`) of a list that names a
    (topic, partition) twice (`sum(len(..) for .. in grouped.values()) != len(payloads)`) -/
theorem C04_generated_group_payloads_eq_model {α : Type} (topic : α → Option Bytes) (partition : α → Int)
    (xs : List α) :
    genGroupPayloads topic partition xs =
      (if payloadCount (groupByTopicPartition topic partition xs) ≠ xs.length then .error .valueError
       else .ok (groupByTopicPartition topic partition xs)) := gen_groupPayloads topic partition xs

/-- `KafkaCodec.encode_fetch_request`: grouping, the `api_version >= 2` clamp, the header, the fixed
    fields and the two nested loops over topics and partitions -/
theorem C04_generated_encode_fetch_request_eq_model (cid : Bytes) (corr : Int) (payloads : List FetchReq)
    (mw mb ver : Int) :
    genEncodeFetchRequest FetchReq.topic FetchReq.partition FetchReq.offset FetchReq.maxBytes cid corr payloads mw mb ver
      = encodeFetchRequest cid corr payloads mw mb ver := gen_encodeFetch cid corr payloads mw mb ver

/-- `KafkaCodec.encode_offset_request` (ListOffsets) -/
theorem C04_generated_encode_offset_request_eq_model (cid : Bytes) (corr : Int) (payloads : List OffsetReq) :
    genEncodeOffsetRequest OffsetReq.topic OffsetReq.partition OffsetReq.time OffsetReq.maxOffsets cid corr payloads
      = encodeOffsetRequest cid corr payloads := gen_encodeOffset cid corr payloads

/-- `KafkaCodec.encode_offset_commit_request` (v1) including `assert consumer_id is not None` -/
theorem C04_generated_encode_offset_commit_request_eq_model (cid : Bytes) (corr : Int) (group : Option Bytes)
    (gen : Int) (consumer : Option Bytes) (payloads : List OffsetCommitReq) :
    genEncodeOffsetCommitRequest OffsetCommitReq.topic OffsetCommitReq.partition OffsetCommitReq.offset
        OffsetCommitReq.timestamp OffsetCommitReq.metadata cid corr group gen consumer payloads
      = encodeOffsetCommitRequest cid corr group gen consumer payloads :=
  gen_encodeOffsetCommit cid corr group gen consumer payloads

/-- `KafkaCodec.encode_offset_fetch_request` (v1) -/
theorem C04_generated_encode_offset_fetch_request_eq_model (cid : Bytes) (corr : Int) (group : Option Bytes)
    (payloads : List OffsetFetchReq) :
    genEncodeOffsetFetchRequest OffsetFetchReq.topic OffsetFetchReq.partition cid corr group payloads
      = encodeOffsetFetchRequest cid corr group payloads := gen_encodeOffsetFetch cid corr group payloads

/-- `KafkaCodec.encode_metadata_request` (a list of parts joined with `b"".join`) -/
theorem C04_generated_encode_metadata_request_eq_model (cid : Bytes) (corr : Int) (topics : List (Option Bytes)) :
    genEncodeMetadataRequest cid corr topics = encodeMetadataRequest cid corr topics :=
  gen_encodeMetadata cid corr topics

/-- `KafkaCodec.encode_sync_group_member_assignment` (what the group leader sends each member): the
    loop over `assignments.items()` with the counted format `">i%si" % len(partitions)` -/
theorem C04_generated_encode_sync_group_member_assignment_eq_model (version : Int)
    (asg : List (Option Bytes × List Int)) (ud : Option Bytes) :
    genEncodeSyncGroupMemberAssignment version asg ud = encodeSyncGroupMemberAssignment version asg ud :=
  gen_encodeSyncGroupMemberAssignment version asg ud

end Afkak.Props.C04

/- OBLIGATIONS
C04_metadata_conforms
C04_find_coordinator_conforms
C04_heartbeat_conforms
C04_leave_group_conforms
C04_join_group_conforms
C04_sync_group_conforms
C04_api_versions_conforms
C04_produce_conforms
C04_fetch_conforms
C04_list_offsets_conforms
C04_offset_commit_conforms
C04_offset_fetch_conforms
C04_subscription_conforms
C04_assignment_conforms
C04_order_preserved
C04_crc_valid
C04_version_choice
C04_version_choice_order
C04_fallback_zero
C04_fallback_on_error_code
C04_glue_produce
C04_glue_fetch
C04_discovery_outcomes
C04_refetch_keeps_table
C04_fallback_general
C04_reply_v1_not_implemented
C04_format_matches_version
C04_glue_reply_roundtrip
C04_compressed_payload
C04_header_conforms
C04_message_set_conforms
C04_message_set_total
C04_create_message_set_codecs
C04_guard_exact
C04_duplicate_refused
C04_produce_total
C04_fetch_total
C04_list_offsets_total
C04_offset_fetch_total
C04_offset_commit_total
C04_metadata_total
C04_group_requests_total
C04_join_sync_total
C04_consumer_protocol_total
C04_must_encode
C04_generated_write_int_string_eq_model
C04_generated_write_short_bytes_eq_model
C04_generated_write_short_ascii_eq_model
C04_generated_write_short_text_eq_model
C04_generated_encode_message_header_eq_model
C04_generated_encode_api_versions_request_eq_model
C04_generated_encode_consumermetadata_request_eq_model
C04_generated_encode_leave_group_request_eq_model
C04_generated_encode_heartbeat_request_eq_model
C04_generated_encode_sync_group_request_eq_model
C04_generated_encode_join_group_request_eq_model
C04_generated_encode_join_group_protocol_metadata_eq_model
C04_generated_group_by_topic_and_partition_eq_model
C04_generated_group_payloads_eq_model
C04_generated_encode_fetch_request_eq_model
C04_generated_encode_offset_request_eq_model
C04_generated_encode_offset_commit_request_eq_model
C04_generated_encode_offset_fetch_request_eq_model
C04_generated_encode_metadata_request_eq_model
C04_generated_encode_sync_group_member_assignment_eq_model
-/
/- OPEN_STATEMENTS
-/
