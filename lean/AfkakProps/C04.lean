import Afkak.Monitor.C04
import AfkakProofs.Wire.Requests
import AfkakProps.Open.C04
/-!
# C04 — every request on the wire conforms to the Kafka protocol grammar

`Afkak.Monitor.C04.X args frame` is the property for one frame: it parses under the independent
grammar (`Afkak/Wire/Spec.lean`), completely, to exactly the caller's values (`ok`), does not
(`fail`), or the arguments have no representation in the grammar (`outOfRange`).  The driver
evaluates it on the frames the REAL encoders emit.  The theorems below prove, for ALL arguments,
that a frame the model encoder emits never fails it, and is `ok` whenever the value is one the
grammar can carry; the version theorems are about `KafkaClient`'s choice for every advertised table.
-/
namespace Afkak.Props.C04
open Afkak Afkak.Wire Afkak.Codec Afkak.Consts Afkak.Monitor.C04

set_option synthInstance.maxSize 100000

/-! ## conformance of the emitted frames -/

/-- Metadata v0: whatever topics the caller names, the emitted frame parses to the header
    (key 3, version 0, the caller's correlation id and client id) and exactly those topics. -/
theorem C04_metadata_conforms (cid : Bytes) (corr : Int) (topics : List (Option Bytes)) (frame : Bytes)
    (h : encodeMetadataRequest cid corr topics = .ok frame) :
    Monitor.C04.metadata cid corr topics frame ≠ .fail := by
  unfold Monitor.C04.metadata
  apply conforms_of_enc
  intro v hv
  cases ht : topics.mapM id with
  | none => simp [ht] at hv
  | some ts =>
    simp only [ht, Option.map_some, Option.some.injEq] at hv
    subst hv
    exact metadata_bytes h ht

/-- FindCoordinator v0 -/
theorem C04_find_coordinator_conforms (cid : Bytes) (corr : Int) (group : Option Bytes) (frame : Bytes)
    (h : encodeConsumerMetadataRequest cid corr group = .ok frame) :
    Monitor.C04.findCoordinator cid corr group frame ≠ .fail := by
  unfold Monitor.C04.findCoordinator
  apply conforms_of_enc
  intro v hv
  cases group with
  | none => simp at hv
  | some g =>
    simp only [Option.map_some, Option.some.injEq] at hv
    subst hv
    exact findCoordinator_bytes h

/-- Heartbeat v0 -/
theorem C04_heartbeat_conforms (cid : Bytes) (corr : Int) (group : Option Bytes) (gen : Int)
    (member : Option Bytes) (frame : Bytes)
    (h : encodeHeartbeatRequest cid corr group gen member = .ok frame) :
    Monitor.C04.heartbeat cid corr group gen member frame ≠ .fail := by
  unfold Monitor.C04.heartbeat
  apply conforms_of_enc
  intro v hv
  cases group <;> cases member <;> simp at hv
  subst hv
  exact heartbeat_bytes h

/-- LeaveGroup v0 -/
theorem C04_leave_group_conforms (cid : Bytes) (corr : Int) (group member : Option Bytes) (frame : Bytes)
    (h : encodeLeaveGroupRequest cid corr group member = .ok frame) :
    Monitor.C04.leaveGroup cid corr group member frame ≠ .fail := by
  unfold Monitor.C04.leaveGroup
  apply conforms_of_enc
  intro v hv
  cases group <;> cases member <;> simp at hv
  subst hv
  exact leaveGroup_bytes h

/-- JoinGroup v0: group, session timeout, member id, protocol type and every
    (protocol name, metadata) pair, in the caller's order. -/
theorem C04_join_group_conforms (cid : Bytes) (corr : Int) (p : JoinGroupReq) (frame : Bytes)
    (h : encodeJoinGroupRequest cid corr p = .ok frame) :
    Monitor.C04.joinGroup cid corr p frame ≠ .fail := by
  unfold Monitor.C04.joinGroup
  apply conforms_of_enc
  intro v hv
  cases hg : p.group <;> cases hm : p.memberId <;> cases ht : p.protocolType <;>
    cases hps : pairs p.groupProtocols <;> simp [hg, hm, ht, hps] at hv
  subst hv
  exact joinGroup_bytes h hg hm ht hps

/-- SyncGroup v0 -/
theorem C04_sync_group_conforms (cid : Bytes) (corr : Int) (group : Option Bytes) (gen : Int)
    (member : Option Bytes) (asg : List (Option Bytes × Option Bytes)) (frame : Bytes)
    (h : encodeSyncGroupRequest cid corr group gen member asg = .ok frame) :
    Monitor.C04.syncGroup cid corr group gen member asg frame ≠ .fail := by
  unfold Monitor.C04.syncGroup
  apply conforms_of_enc
  intro v hv
  cases group <;> cases member <;> cases hps : pairs asg <;> simp [hps] at hv
  subst hv
  exact syncGroup_bytes h hps

/-- ApiVersions v0: the body is empty and the header carries the version the caller named
    (this is finding F4, repaired). -/
theorem C04_api_versions_conforms (cid : Bytes) (corr key ver : Int) (frame : Bytes)
    (h : encodeApiVersionsRequest cid corr key ver = .ok frame) :
    Monitor.C04.apiVersions cid corr key ver frame ≠ .fail := by
  unfold Monitor.C04.apiVersions
  apply conforms_of_enc
  intro v hv
  by_cases hk : key = 18 ∧ ver = 0
  · simp only [hk, and_self, if_true, Option.some.injEq] at hv
    subst hv
    obtain ⟨rfl, rfl⟩ := hk
    exact apiVersions_bytes h
  · simp [hk] at hv

/-! Non-vacuity: concrete in-range arguments for which the encoder emits a frame and the monitor
says `ok` (so the theorems above are not about an empty set of frames). -/
example : ∃ frame, encodeMetadataRequest [99, 105, 100] 7 [some [116], some []] = .ok frame
    ∧ Monitor.C04.metadata [99, 105, 100] 7 [some [116], some []] frame = .ok := ⟨_, rfl, by decide⟩
example : ∃ frame, encodeHeartbeatRequest [] (-2147483648) (some [103]) 2147483647 (some []) = .ok frame
    ∧ Monitor.C04.heartbeat [] (-2147483648) (some [103]) 2147483647 (some []) frame = .ok := ⟨_, rfl, by decide⟩
example : ∃ frame, encodeJoinGroupRequest [] 1 ⟨some [103], 30000, some [], some [99], [(some [114], some [0, 1])]⟩ = .ok frame
    ∧ Monitor.C04.joinGroup [] 1 ⟨some [103], 30000, some [], some [99], [(some [114], some [0, 1])]⟩ frame = .ok :=
  ⟨_, rfl, by decide⟩
/-- an out-of-range correlation id is rejected (no frame at all) -/
example : encodeMetadataRequest [] 2147483648 [] = .error .structError := rfl

/-! ## version selection -/

/-- For EVERY advertised table (any order, any other entries, any position of the entry): if the
    first entry for Produce (resp. Fetch) advertises `min ≤ 0` and `max ≥ 2`, then
    * the lookup returns that entry's `max` (by api key, not by position — finding F5, repaired);
    * the header of the request carries version 2, which is advertised and implemented;
    * the reply is decoded by exactly the decoder of version 2. -/
theorem C04_version_choice (t : List ApiVersion) (key : Int) (v : ApiVersion) (rest : List ApiVersion)
    (_hkey : key = produceKey ∨ key = fetchKey)
    (hfirst : t.filter (fun e => e.apiKey = key) = v :: rest)
    (hmin : v.minVersion ≤ 0) (hmax : 2 ≤ v.maxVersion) :
    lookupVersion key (.table t) = some v.maxVersion
    ∧ (produceClamp v.maxVersion).1 = 2 ∧ fetchClamp v.maxVersion = 2
    ∧ versionChosenOk t key 2 = true
    ∧ (∀ data, decodeProduceResponse data v.maxVersion = decodeProduceResponse data 2)
    ∧ (∀ ext depth data, decodeFetchResponse ext depth data v.maxVersion = decodeFetchResponse ext depth data 2) := by
  have hv : v ∈ t.filter (fun e => e.apiKey = key) := by rw [hfirst]; exact List.mem_cons_self
  have hvt : v ∈ t := (List.mem_filter.mp hv).1
  have hvk : v.apiKey = key := by simpa using (List.mem_filter.mp hv).2
  refine ⟨?_, ?_, ?_, ?_, ?_, ?_⟩
  · simp only [lookupVersion, hfirst]
  · unfold produceClamp
    split
    · rfl
    · rename_i hc; simp only [produceClampAt] at hc; omega
  · unfold fetchClamp
    split
    · rfl
    · rename_i hc; simp only [fetchClampAt] at hc; omega
  · simp only [versionChosenOk, Bool.and_eq_true, List.any_eq_true, decide_eq_true_eq]
    refine ⟨⟨by omega, by omega⟩, v, hvt, ⟨⟨hvk, by omega⟩, by omega⟩⟩
  · intro data
    simp only [decodeProduceResponse, produceRespV0Is, produceRespV2From]
    have h1 : ¬ v.maxVersion = 0 := by omega
    have h2 : v.maxVersion ≥ 1 := by omega
    simp [h1, h2]
  · intro ext depth data
    simp only [decodeFetchResponse, fetchRespV0Is, fetchRespV2From]
    have h1 : ¬ v.maxVersion = 0 := by omega
    have h2 : v.maxVersion ≥ 2 := by omega
    simp [h1, h2]

/-- The choice does not depend on the order of the table: for tables that list each api key once,
    any permutation gives the same version. -/
theorem C04_version_choice_order (t t' : List ApiVersion) (key : Int) (hp : t.Perm t')
    (hnd : (t.map (·.apiKey)).Nodup) :
    lookupVersion key (.table t) = lookupVersion key (.table t') := by
  have hf : (t.filter (fun e => e.apiKey = key)).Perm (t'.filter (fun e => e.apiKey = key)) := hp.filter _
  have hlen : ∀ (l : List ApiVersion), (l.map (·.apiKey)).Nodup → (l.filter (fun e => e.apiKey = key)).length ≤ 1 := by
    intro l
    induction l with
    | nil => simp
    | cons a as ih =>
      intro hn
      simp only [List.map_cons, List.nodup_cons] at hn
      by_cases ha : a.apiKey = key
      · have : as.filter (fun e => e.apiKey = key) = [] := by
          rw [List.filter_eq_nil_iff]
          intro b hb hbk
          simp only [decide_eq_true_eq] at hbk
          exact hn.1 (List.mem_map.mpr ⟨b, hb, by rw [hbk, ha]⟩)
        simp [ha, this]
      · simp only [List.filter_cons, ha, decide_false, Bool.false_eq_true, if_false]
        exact ih hn.2
  have h1 := hlen t hnd
  have hnd' : (t'.map (·.apiKey)).Nodup := (hp.map _).nodup_iff.mp hnd
  have h2 := hlen t' hnd'
  cases hA : t.filter (fun e => e.apiKey = key) with
  | nil =>
    cases hB : t'.filter (fun e => e.apiKey = key) with
    | nil => simp only [lookupVersion, hA, hB]
    | cons b bs => rw [hA, hB] at hf; exact absurd hf.length_eq (by simp)
  | cons a as =>
    cases hB : t'.filter (fun e => e.apiKey = key) with
    | nil => rw [hA, hB] at hf; exact absurd hf.length_eq (by simp)
    | cons b bs =>
      rw [hA] at h1; rw [hB] at h2
      have has : as = [] := by cases as <;> simp_all
      have hbs : bs = [] := by cases bs <;> simp_all
      subst has; subst hbs
      rw [hA, hB] at hf
      have hab : a = b := by simpa using hf.eq_singleton
      simp only [lookupVersion, hA, hB, hab]

/-- Fallback: three unanswered discoveries, or a reply carrying an error code, leave the client in
    the legacy state, in which every request carries version 0 and the producer uses message
    format 0 — also for the batch that was built BEFORE the discovery ran (finding F17, repaired). -/
theorem C04_fallback_zero :
    fetchApiVersions [.unavailable, .unavailable, .unavailable] = some (.ok .legacy)
    ∧ (∀ err vs, err ≠ 0 → handleApiVersionUpdate err vs = .legacy)
    ∧ (∀ key, lookupVersion key .legacy = some 0)
    ∧ (produceClamp 0 = (0, 0) ∧ fetchClamp 0 = 0)
    ∧ (producerMagic .undiscovered = 0 ∧ producerMagic .legacy = 0)
    ∧ (∀ key, getApiVersion .undiscovered key [.unavailable, .unavailable, .unavailable] = some (.ok (.legacy, 0))) := by
  refine ⟨rfl, ?_, ?_, by decide, by decide, ?_⟩
  · intro err vs h; simp [handleApiVersionUpdate, h]
  · intro key; rfl
  · intro key; rfl

/-- A reply whose error code is not zero also ends in the fallback (the error code is read as the
    int16 it is — finding F3, repaired: error 35 with an empty table). -/
theorem C04_fallback_on_error_code :
    ∀ key, getApiVersion .undiscovered key [.reply [0, 0, 0, 1, 0, 35, 0, 0, 0, 0]] = some (.ok (.legacy, 0)) := by
  intro key
  have hd : decodeApiVersionsResponse [0, 0, 0, 1, 0, 35, 0, 0, 0, 0] = .ok (35, []) := by decide +kernel
  simp only [getApiVersion, fetchApiVersions, apiVersionAttempts, fetchLoop, hd, handleApiVersionUpdate]
  rfl

/-- Before the fix of F5 a table that was not in key order gave the wrong version; the lookup is by
    key: here the table lists ApiVersions first and Produce last. -/
example : lookupVersion 0 (.table [⟨18, 0, 3⟩, ⟨1, 0, 11⟩, ⟨3, 0, 9⟩, ⟨0, 0, 8⟩]) = some 8 := by decide

end Afkak.Props.C04

/- OBLIGATIONS
C04_metadata_conforms
C04_find_coordinator_conforms
C04_heartbeat_conforms
C04_leave_group_conforms
C04_join_group_conforms
C04_sync_group_conforms
C04_api_versions_conforms
C04_version_choice
C04_version_choice_order
C04_fallback_zero
C04_fallback_on_error_code
-/
/- OPEN_STATEMENTS
C04_produce_conforms
C04_fetch_conforms
C04_list_offsets_conforms
C04_offset_commit_conforms
C04_offset_fetch_conforms
C04_subscription_conforms
C04_assignment_conforms
C04_order_preserved
C04_crc_valid
-/
