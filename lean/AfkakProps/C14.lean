import AfkakProofs.Consumer.Pure
import AfkakProofs.Consumer.Trace
import AfkakProofs.Consumer.B_C14e
import AfkakProofs.Consumer.A5_At6
import AfkakProps.Open.C14
/-!
# C14 — retries, offset-reset policy and buffer growth follow the contract
-/
namespace Afkak.Props.C14
open Afkak.Consumer Afkak.Consts Afkak.Monitor.C14 Afkak.Proofs.Consumer

/-- The delay before the retry after the `k`-th consecutive failure is `min(init·factor^k, max)`
    (`factor` is the constant the source contains now; the proof needs `1 ≤ factor`). -/
theorem C14_delay_closed_form (init maxD : Rat) (h0 : 0 ≤ init) (h1 : init ≤ maxD) (k : Nat) :
    delayAt init maxD k = min (init * requestRetryFactor ^ k) maxD :=
  delayAt_closed init maxD h0 h1 k

/-- Delays never decrease, never exceed the maximum, and grow strictly until the cap is reached. -/
theorem C14_delay_monotone (init maxD : Rat) (h0 : 0 < init) (h1 : init ≤ maxD) (k : Nat) :
    delayAt init maxD k ≤ delayAt init maxD (k + 1) ∧ delayAt init maxD k ≤ maxD ∧
      (delayAt init maxD (k + 1) < maxD → delayAt init maxD k < delayAt init maxD (k + 1)) :=
  ⟨(delayAt_mono init maxD h0.le h1 k).1, (delayAt_mono init maxD h0.le h1 k).2, delayAt_strict init maxD h0 h1 k⟩

/-- Buffer growth: ×16 while the buffer is at most 1 MiB, ×2 after, capped at the maximum; it fails
    exactly when a maximum is configured and already reached; it never shrinks; and every size up to the
    maximum (any size when there is none) is reached after finitely many growths. -/
theorem C14_growth (b : Nat) (mx : Option Nat) :
    (grow b none = some (if b ≤ 2 ^ 20 then b * 16 else b * 2)) ∧
    (∀ m, grow b (some m) = if b < m then some (min (if b ≤ 2 ^ 20 then b * 16 else b * 2) m) else none) ∧
    (grow b mx = none ↔ ∃ m, mx = some m ∧ m ≤ b) ∧
    (∀ b', 0 < b → grow b mx = some b' → b < b') ∧
    (∀ size, 0 < b → (∀ m, mx = some m → size ≤ m) → ∃ n, size ≤ growN mx n b) := by
  refine ⟨?_, ?_, grow_fails_iff b mx, fun b' hb h => grow_gt b b' mx hb h, fun size hb hs => grow_reaches mx b size hb hs⟩
  · rw [grow_none, growSmall_eq, growLarge_eq, growThreshold_eq]; split <;> rfl
  · intro m; rw [grow_some, growSmall_eq, growLarge_eq, growThreshold_eq]; split <;> (try split) <;> rfl

/-- A too-small answer (no complete message) never moves the fetch position, whatever state it
    arrives in (running or stopped, block in progress or not, buffer at its maximum or not): the
    message is fetched again with a larger buffer, never skipped. -/
theorem C14_never_skips (cfg : Cfg) (inner : Ops) (k : Nat) (s : St) :
    (handleFetchResponse cfg inner k { msgs := [], tail := .small } s).fetchOffset = s.fetchOffset := by
  have hretry : ∀ (a : Option Rat) (x : St), (retryFetch cfg a x).fetchOffset = x.fetchOffset := by
    intro a x; unfold retryFetch emit; grind
  have herr : ∀ (f : Fail) (x : St), (startErrback f x).fetchOffset = x.fetchOffset := by
    intro f x; unfold startErrback emit; grind
  unfold handleFetchResponse
  split
  · rfl
  · simp only []
    split
    · rfl
    · unfold fetchBody fetchTail
      simp only [extract, deliverBlock, List.isEmpty_nil, if_true]
      cases hg : grow s.bufferSize cfg.bufMax with
      | some b => simp only [hretry]
      | none =>
        simp only []
        split
        · unfold handleFetchError fetchErrorTail
          simp only [Fail.isOutOfRange, Bool.false_and, Bool.false_eq_true, if_false]
          repeat' split
          all_goals simp only [hretry, herr]
        · simp only [herr]

/-- … and the buffer announced by the next request is the grown one (or the start Deferred fails with
    `ConsumerFetchSizeTooSmall` exactly when the buffer is already at its maximum). -/
theorem C14_too_small_grows (cfg : Cfg) (inner : Ops) (k : Nat) (s : St) (hr : s.startD = .pending) (hb : s.msgBlock = false) :
    (∀ b, grow s.bufferSize cfg.bufMax = some b →
        (handleFetchResponse cfg inner k { msgs := [], tail := .small } s).bufferSize = b) ∧
    (grow s.bufferSize cfg.bufMax = none →
        (handleFetchResponse cfg inner k { msgs := [], tail := .small } s).out.head? = some (.ob (.startFired (.err .tooSmall)))) := by
  have hretry : ∀ (a : Option Rat) (x : St), (retryFetch cfg a x).bufferSize = x.bufferSize := by
    intro a x; unfold retryFetch emit; grind
  unfold handleFetchResponse fetchBody fetchTail
  simp only [extract, deliverBlock, List.isEmpty_nil, if_true, hr, hb]
  refine ⟨fun b hg => ?_, fun hg => ?_⟩
  · simp [hg, hretry]
  · simp [hg, hr, startErrback, errbackRaises, emit]

/-- Out-of-range offset: with no reset policy the failure is reported on the start Deferred and
    nothing is retried; with a policy the fetch position becomes the policy's value (earliest /
    latest) wherever the answer arrives. -/
theorem C14_reset_policy (cfg : Cfg) (t : Nat) (s : St) (hr : s.startD = .pending) :
    (cfg.reset = none →
        handleFetchError cfg (.ext .outOfRange t) s =
          { s with requestD := .none, startD := .called, out := .ob (.startFired (.err (.ext .outOfRange t))) :: s.out }) ∧
    (∀ r, cfg.reset = some r → (handleFetchError cfg (.ext .outOfRange t) s).fetchOffset = r) := by
  have hretry : ∀ (a : Option Rat) (x : St), (retryFetch cfg a x).fetchOffset = x.fetchOffset := by
    intro a x; unfold retryFetch emit; grind
  have herr : ∀ (f : Fail) (x : St), (startErrback f x).fetchOffset = x.fetchOffset := by
    intro f x; unfold startErrback emit; grind
  unfold handleFetchError fetchErrorTail
  refine ⟨fun h => ?_, fun r h => ?_⟩
  · simp [h, hr, Fail.isOutOfRange, startErrback, emit]
  · simp only [h, hr, Fail.isOutOfRange]
    repeat' split
    all_goals simp_all [hretry, herr]

/-- One back-off step: a failed fetch/offset request of a running consumer (no attempt limit reached,
    not out-of-range-without-policy) schedules a refetch after exactly the current `retry_delay`, and the
    next delay is `min(retry_delay * factor, max)`; together with `C14_delay_closed_form` the k-th
    consecutive failure waits `min(init * factor^k, max)`. -/
theorem C14_backoff_step (cfg : Cfg) (s : St) (hr : s.startD ≠ .none) (hs : s.stopping = false) (hd : s.shuttingDown = false)
    (ht : s.retryCall = .none) :
    retryFetch cfg none s =
      { s with out := .ob (.setTimer .retry s.retryDelay) :: s.out, retryDelay := nextDelay cfg.retryMax s.retryDelay,
               attempts := s.attempts + 1, retryCall := .pending (s.now + s.retryDelay) } := by
  have hr' : (s.startD == StartD.none) = false := by simpa using hr
  simp [retryFetch, emit, hs, hd, ht, hr']

/-- A successful FETCH reply that has to wait behind a block resets the delay to the initial one and the attempt count
    (offset look-ups: `C14_success_resets_offset`; the fetch reply that is handled at once is covered at trace level:
    `C14_delays` resets on every applied fetchOk/offsetOk/offsetFetchOk). -/
theorem C14_success_resets (cfg : Cfg) (inner : Ops) (k : Nat) (r : Reply) (s : St) (hr : s.startD ≠ .none) (hb : s.msgBlock = true) :
    (handleFetchResponse cfg inner k r s).retryDelay = cfg.retryInit ∧ (handleFetchResponse cfg inner k r s).attempts = 1 := by
  have hr' : (s.startD == StartD.none) = false := by simpa using hr
  simp [handleFetchResponse, hr', hb]

/-- A successful offset look-up (OffsetResponse or OffsetFetchResponse) of a running consumer resets the delay to the
    initial one and the attempt count to 1, whatever request goes out next. -/
theorem C14_success_resets_offset (cfg : Cfg) (isFetch : Bool) (off : Int) (s : St) (hr : s.startD ≠ .none) :
    (handleOffsetResponse cfg isFetch off s).retryDelay = cfg.retryInit ∧ (handleOffsetResponse cfg isFetch off s).attempts = 1 := by
  have hr' : (s.startD == StartD.none) = false := by simpa using hr
  have hd : ∀ x : St, (doFetch cfg x).retryDelay = x.retryDelay ∧ (doFetch cfg x).attempts = x.attempts := by
    intro x; unfold doFetch startErrback errbackRaises emit; grind
  unfold handleOffsetResponse offsetResponseTail
  simp only [hr', Bool.false_eq_true, if_false]
  rw [(hd _).1, (hd _).2]
  repeat' split
  all_goals exact ⟨rfl, rfl⟩

/-- Attempt limit: with `L > 0` and `L` attempts made, a failure is reported on the start Deferred and
    NO retry is scheduled; with `L = 0` a running consumer always schedules the retry. -/
theorem C14_attempt_limit_step (cfg : Cfg) (f : Fail) (s : St) (hr : s.startD = .pending) (hs : s.stopping = false)
    (hd : s.shuttingDown = false) (ht : s.retryCall = .none) (hf : f.isOutOfRange = false) :
    (cfg.maxAttempts ≠ 0 → cfg.maxAttempts ≤ s.attempts →
        handleFetchError cfg f s = { s with requestD := .none, startD := .called, out := .ob (.startFired (.err f)) :: s.out }) ∧
    (cfg.maxAttempts = 0 →
        (handleFetchError cfg f s).retryCall = .pending (s.now + s.retryDelay) ∧
        (handleFetchError cfg f s).out = .ob (.setTimer .retry s.retryDelay) :: s.out) := by
  refine ⟨fun h0 hle => ?_, fun h0 => ?_⟩
  · have : (cfg.maxAttempts != 0 && decide (s.attempts ≥ cfg.maxAttempts)) = true := by simp [h0, hle]
    simp [handleFetchError, fetchErrorTail, hr, hs, hf, this, startErrback, emit]
  · simp [handleFetchError, fetchErrorTail, hr, hs, hf, h0, retryFetch, hd, ht, emit]

/-- Trace level: the sizes announced in successive fetch requests follow the growth rule - a request repeats the
    previous size, or (only after a too-small answer) carries exactly the sixteen-fold / doubled / capped size;
    the start Deferred fails with ConsumerFetchSizeTooSmall only after a too-small answer at the maximum -
    on every trace: any configuration, any processor script, any events (restarts, late and cancelled replies,
    re-entrant calls included). -/
theorem C14_growth_trace (cfg : Cfg) (script : List PEntry) (evs : List Ev) :
    growthOk cfg.bufInit cfg.bufMax (trace cfg script evs) = true :=
  accepts_trace _ _ cfg script evs (run_gr cfg script evs).grOk

/-! Non-vacuity: the default configuration (128 KiB, no maximum) reaches a 20 MiB message in five growths
(2, 4, 8, 16, 32 MiB). -/
example : growN none 5 fetchBufferSizeBytes ≥ 20 * 2 ^ 20 ∧ growN none 4 fetchBufferSizeBytes < 20 * 2 ^ 20 := by decide
example : grow (2 ^ 20) (some (2 ^ 24)) = some (2 ^ 24) ∧ grow (2 ^ 24) (some (2 ^ 24)) = none := by decide

/-- Trace level: on every trace (any configuration with non-negative delays, any script, any events) the back-off
    delays after consecutive failed fetch/offset requests are `min(init·factor^k, max)`, growing up to the maximum,
    reset by a successful reply; immediate refetches (delay 0) happen only outside failure handling. -/
theorem C14_delays : Open.C14.C14_delays := by
  intro cfg script evs h0 h1
  have h := B.run_c cfg False script (fun h => h.elim) evs (fun h => h.elim)
  exact accepts_trace _ _ cfg script evs (h.2.2.1 ⟨h0, h1⟩).d1

/-- Trace level: a too-small answer that carried no complete message never changes the offset of the next fetch
    request, on every trace (any configuration, script, events: parked and late replies, restarts, failures between). -/
theorem C14_never_skips_trace : Open.C14.C14_never_skips_trace := by
  intro cfg script evs
  have h := B.run_c cfg False script (fun h => h.elim) evs (fun h => h.elim)
  exact accepts_trace _ _ cfg script evs h.2.1.n1

/-- Trace level: with an attempt limit `L > 0` no refetch is scheduled in the handling of the `L`-th (or a later) consecutive
    failed fetch/offset request (a reply whose message iteration raises counts as the first failure of a new run); with
    `L = 0` every failed request of a running consumer that is not shutting down (other than out-of-range without a reset
    policy) is followed by a scheduled refetch before the step is over - on every trace: any configuration, processor
    script and event list (restarts, re-entrant stop/shutdown/commit calls, parked and late replies, crashes included). -/
theorem C14_attempt_limit : Open.C14.C14_attempt_limit := by
  intro cfg script evs
  exact accepts_trace _ _ cfg script evs (T.run_a cfg script evs).1.ok

/-- "… the start Deferred FAILS after no more than that many consecutive failed attempts": from ANY reachable state with the
    start Deferred still pending and a fetch request outstanding, if the attempt limit is `L > 0` and `L - 1` consecutive
    failures have been counted (`T.failures` = the count of the trace monitor `atStep`; the consumer's own
    `_fetch_attempt_count` is never smaller), the next failure of that request is reported on the start Deferred - with that
    very failure - in the same step, and nothing is retried: no request outstanding, no refetch scheduled. -/
theorem C14_limit_reports_fetch (cfg : Cfg) (script : List PEntry) (evs : List Ev) (k : Nat) (ek : ErrKind) (tag : Nat) (c : Bool)
    (hL : cfg.maxAttempts ≠ 0) (hcr : (run cfg script evs).crashed = false)
    (hreq : (run cfg script evs).requestD = .pending k .fetch c) (hsd : (run cfg script evs).startD = .pending)
    (hcf : cfg.maxAttempts ≤ T.failures cfg (run cfg script evs) + 1) :
    (step cfg (run cfg script evs) (.fetchErr k ek tag)).out =
        .ob (.probe (run cfg script evs).lastProcessed (run cfg script evs).lastCommitted) ::
          .ob (.startFired (.err (.ext ek tag))) :: .ev (.fetchErr k ek tag) :: (run cfg script evs).out ∧
      (step cfg (run cfg script evs) (.fetchErr k ek tag)).startD = .called ∧
      (step cfg (run cfg script evs) (.fetchErr k ek tag)).requestD = .none ∧
      (step cfg (run cfg script evs) (.fetchErr k ek tag)).retryCall = .none :=
  T.step_fetchErr_limit cfg script evs k ek tag c hL hcr hreq hsd hcf

/-- … likewise for a failed offset look-up (OffsetRequest: `kind = .offsets`, event `offsetErr`; OffsetFetchRequest:
    `kind = .offsetFetch`, event `offsetFetchErr`). -/
theorem C14_limit_reports_offset (cfg : Cfg) (script : List PEntry) (evs : List Ev) (k : Nat) (ek : ErrKind) (tag : Nat) (c : Bool)
    (kind : ReqKind) (e : Ev) (he : (kind = .offsets ∧ e = .offsetErr k ek tag) ∨ (kind = .offsetFetch ∧ e = .offsetFetchErr k ek tag))
    (hL : cfg.maxAttempts ≠ 0) (hcr : (run cfg script evs).crashed = false)
    (hreq : (run cfg script evs).requestD = .pending k kind c) (hsd : (run cfg script evs).startD = .pending)
    (hcf : cfg.maxAttempts ≤ T.failures cfg (run cfg script evs) + 1) :
    (step cfg (run cfg script evs) e).out =
        .ob (.probe (run cfg script evs).lastProcessed (run cfg script evs).lastCommitted) ::
          .ob (.startFired (.err (.ext ek tag))) :: .ev e :: (run cfg script evs).out ∧
      (step cfg (run cfg script evs) e).startD = .called ∧
      (step cfg (run cfg script evs) e).requestD = .none ∧
      (step cfg (run cfg script evs) e).retryCall = .none :=
  T.step_offsetErr_limit cfg script evs k ek tag c kind e he hL hcr hreq hsd hcf

/-! Non-vacuity: limit 2, one failure, the refetch is out: the hypotheses hold (and the second failure is then reported). -/
example :
    let cfg : Cfg := { group := false, autoN := 0, autoS := 0, bufInit := 1, bufMax := none, retryInit := 0, retryMax := 0, maxAttempts := 2, reset := none }
    let s := run cfg [] [.start 5, .fetchErr 0 .kafka 1, .retryFire]
    s.crashed = false ∧ s.requestD = .pending 1 .fetch false ∧ s.startD = .pending ∧ cfg.maxAttempts ≤ T.failures cfg s + 1 := by
  decide +kernel

open Open.C14 (resetCfgOk saneOffsetEvent) in
example : resetCfgOk ({ group := false, autoN := 0, autoS := 0, bufInit := 1, bufMax := none, retryInit := 1, retryMax := 2, maxAttempts := 0, reset := some offsetLatest } : Cfg) = true ∧
    [Ev.start 5, .fetchErr 0 .outOfRange 1, .retryFire, .offsetOk 1 17].all saneOffsetEvent = true := by decide

/-- Trace level, for accepted configurations and Kafka offsets in OffsetResponses: an out-of-range answer to a fetch
    request is followed by exactly what the policy says - no policy: the failure is reported on the start Deferred and
    nothing is retried; earliest/latest: the next request is the OffsetRequest for that time, and fetching goes on
    exactly at the offset the broker names - on every trace. -/
theorem C14_reset_policy_trace : Open.C14.C14_reset_policy_trace := by
  intro cfg script evs hc he
  have hres : True → ∀ v, cfg.reset = some v → v = offsetEarliest ∨ v = offsetLatest := by
    intro _ v hv
    simpa [Open.C14.resetCfgOk, hv] using hc
  have hev : True → ∀ e ∈ evs, B.EvSane e := by
    intro _ e hmem
    have := List.all_eq_true.1 he e hmem
    cases e <;> simp_all [Open.C14.saneOffsetEvent, B.EvSane]
  have h := B.run_c cfg True script hres evs hev
  exact accepts_trace _ _ cfg script evs (h.2.2.2 trivial).r1

/-- Without the restriction to configurations the constructor accepts the statement is false: with `auto_offset_reset = 5`
    the model (like the code would, could such a consumer be built) goes on fetching at offset 5 after an out-of-range answer. -/
theorem C14_reset_policy_trace_unrestricted_counterexample : ¬ Open.C14.C14_reset_policy_trace_unrestricted := by
  intro h
  have := h ({ group := false, autoN := 0, autoS := 0, bufInit := 1, bufMax := none, retryInit := 0, retryMax := 0, maxAttempts := 0, reset := some 5 } : Cfg) [] [.start 9, .fetchErr 0 .outOfRange 1, .retryFire]
  revert this
  decide +kernel

end Afkak.Props.C14

/- OBLIGATIONS
C14_delay_closed_form
C14_delay_monotone
C14_growth
C14_never_skips
C14_too_small_grows
C14_reset_policy
C14_backoff_step
C14_success_resets
C14_success_resets_offset
C14_attempt_limit_step
C14_growth_trace
C14_delays
C14_never_skips_trace
C14_attempt_limit
C14_limit_reports_fetch
C14_limit_reports_offset
C14_reset_policy_trace
C14_reset_policy_trace_unrestricted_counterexample
-/
/- OPEN_STATEMENTS
-/
