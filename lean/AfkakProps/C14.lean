import AfkakProofs.Consumer.Pure
/-!
# C14 — retries, offset-reset policy and buffer growth follow the contract
-/
namespace Afkak.Props.C14
open Afkak.Consumer Afkak.Consts Afkak.Monitor.C14 Afkak.Proofs.Consumer

/-- The delay before the retry after the `k`-th consecutive failure is `min(init·factor^k, max)`
    (`factor` is the constant the source contains now; the proof needs `1 ≤ factor`). -/
theorem C14_delay_closed_form (init maxD : Rat) (h0 : 0 ≤ init) (h1 : init ≤ maxD) (k : Nat) :
    delayAt init maxD k = min (init * requestRetryFactor ^ k) maxD :=
  delayAt_closed init maxD h0 h1 k

/-- Delays never decrease, never exceed the maximum, and grow strictly until the cap is reached. -/
theorem C14_delay_monotone (init maxD : Rat) (h0 : 0 < init) (h1 : init ≤ maxD) (k : Nat) :
    delayAt init maxD k ≤ delayAt init maxD (k + 1) ∧ delayAt init maxD k ≤ maxD ∧
      (delayAt init maxD (k + 1) < maxD → delayAt init maxD k < delayAt init maxD (k + 1)) :=
  ⟨(delayAt_mono init maxD h0.le h1 k).1, (delayAt_mono init maxD h0.le h1 k).2, delayAt_strict init maxD h0 h1 k⟩

/-- Buffer growth: ×16 while the buffer is at most 1 MiB, ×2 after, capped at the maximum; it fails
    exactly when a maximum is configured and already reached; it never shrinks; and every size up to the
    maximum (any size when there is none) is reached after finitely many growths. -/
theorem C14_growth (b : Nat) (mx : Option Nat) :
    (grow b none = some (if b ≤ 2 ^ 20 then b * 16 else b * 2)) ∧
    (∀ m, grow b (some m) = if b < m then some (min (if b ≤ 2 ^ 20 then b * 16 else b * 2) m) else none) ∧
    (grow b mx = none ↔ ∃ m, mx = some m ∧ m ≤ b) ∧
    (∀ b', 0 < b → grow b mx = some b' → b < b') ∧
    (∀ size, 0 < b → (∀ m, mx = some m → size ≤ m) → ∃ n, size ≤ growN mx n b) := by
  refine ⟨?_, ?_, grow_fails_iff b mx, fun b' hb h => grow_gt b b' mx hb h, fun size hb hs => grow_reaches mx b size hb hs⟩
  · rw [grow_none, growSmall_eq, growLarge_eq, growThreshold_eq]; split <;> rfl
  · intro m; rw [grow_some, growSmall_eq, growLarge_eq, growThreshold_eq]; split <;> (try split) <;> rfl

/-! Non-vacuity: the default configuration (128 KiB, no maximum) reaches a 20 MiB message in five growths
(2, 4, 8, 16, 32 MiB). -/
example : growN none 5 fetchBufferSizeBytes ≥ 20 * 2 ^ 20 ∧ growN none 4 fetchBufferSizeBytes < 20 * 2 ^ 20 := by decide
example : grow (2 ^ 20) (some (2 ^ 24)) = some (2 ^ 24) ∧ grow (2 ^ 24) (some (2 ^ 24)) = none := by decide

end Afkak.Props.C14

/- OBLIGATIONS
C14_delay_closed_form
C14_delay_monotone
C14_growth
-/
/- OPEN_STATEMENTS
-/
