import Afkak.ClientNet
import Afkak.Monitor.C20
import AfkakProofs.Client.Net
import AfkakProps.Open.C20
/-!
# C20 — closing the client fails everything pending and releases every connection
Property theorems only; helper lemmas live in `AfkakProofs/Client/Net.lean`.
-/
namespace Afkak.Props.C20
open Afkak.ClientNet Afkak.ClientCache

/-- After close, whatever happens next — any API call, any completion from a broker client, any
    bootstrap connection event, any timer, a late reply, another close — the client does not connect,
    does not create a broker client, does not write a bootstrap request and does not hand a request to a
    broker client, and it stays closed.  (`NoBootConn`: no bootstrap connection attempt is still
    awaited; `close()` cancels them all, see the open statement `C20_close_leaves_no_bootstrap_pending`.) -/
theorem C20_no_connect_no_write_after_close (cfg : Cfg) (st : St) (env : Env) (e : Ev)
    (h : st.closing = true) (hb : NoBootConn st) :
    (step cfg st env e).1.closing = true ∧ ∀ o ∈ (step cfg st env e).2, o.connects = false :=
  step_closing cfg st env e h hb

/-- … and for ever: from a closed state in which no bootstrap connection attempt is awaited, NO sequence
    of later events (late replies, connection-closed notifications in any order, timers, new
    operations, another close) makes the client connect, create a broker client, write a bootstrap
    request or issue a request — the two facts are preserved by every step. -/
theorem C20_closed_for_ever (cfg : Cfg) (st : St) (h : st.closing = true) (hb : NoBootConn st)
    (pre : List (Env × Ev)) (e : Env × Ev) :
    let st' := pre.foldl (fun s x => (step cfg s x.1 x.2).1) st
    (∀ o ∈ (step cfg st' e.1 e.2).2, o.connects = false) ∧
    (∀ env ev, (step cfg st env ev).1.closing = true ∧ NoBootConn (step cfg st env ev).1) :=
  ⟨closed_forever cfg (pre ++ [e]) st h hb pre e [] rfl,
   fun env ev => ⟨(step_closing cfg st env ev h hb).1, step_closing_nbc cfg st env ev h hb⟩⟩

/-- The same for every synchronous action of the machine: once closing, nothing in any callback chain
    connects or issues a request (this is what makes the operations pending at close fail instead of
    falling through to another broker or to the bootstrap hosts — the fix of F13). -/
theorem C20_no_connect_in_any_callback (cfg : Cfg) (fuel : Nat) (st : St) (acts : List Act) (h : st.closing = true) :
    (runActs cfg fuel st acts []).1.closing = true ∧ ∀ o ∈ (runActs cfg fuel st acts []).2, o.connects = false :=
  runActs_closing cfg fuel st acts [] h (by simp)

/-- `close()` clears the routing metadata in every state; a second `close()` (which since 1d62725 returns
    the pending close Deferred instead of raising) leaves cache, clients and the closed flag as they are. -/
theorem C20_metadata_cleared (cfg : Cfg) (st : St) (o : Nat) :
    (exec cfg st (.finishClose o)).1.cache.t2b = [] ∧ (exec cfg st (.finishClose o)).1.cache.topicParts = [] ∧
    (exec cfg st (.finishClose o)).1.cache.topicErrs = [] ∧ (exec cfg st (.finishClose o)).1.cache.groups = [] ∧
    (∀ env, st.closing = true →
      (step cfg st env (.close o)).1.cache = st.cache ∧ (step cfg st env (.close o)).1.closing = true ∧
      (step cfg st env (.close o)).1.bcs = st.bcs) := by
  refine ⟨?_, ?_, ?_, ?_, ?_⟩
  · simp only [exec]; split <;> rfl
  · simp only [exec]; split <;> rfl
  · simp only [exec]; split <;> rfl
  · simp only [exec]; split <;> rfl
  · intro env h
    simp only [step, h, if_true]
    split
    · simp only [fuel, runActs, exec]
      split <;> simp [runActs, h]
    · exact ⟨rfl, rfl, rfl⟩

/-- A coordinator request (`_send_request_to_coordinator`: join, sync, heartbeat, leave) started after close
    fails inside the call with `ClientError` (the cached coordinator is looked up, `_get_brokerclient` refuses),
    at the level of a whole step: the operation's result is among the step's observations.  (Fresh request
    ids `x.r < length` hold in every reachable state.) -/
theorem C20_srtc_after_close_fails (cfg : Cfg) (st : St) (env : Env) (o : Nat) (g : String) (mt : Option Rat) (b : Broker)
    (hc : st.closing = true) (hg : get? g st.cache.groups = some b) (hs : ∀ x ∈ st.srtcs, x.r < st.srtcs.length) :
    Ob.result o (.fail .clientClosed) ∈ (step cfg st env (.srtc o g mt)).2 := by
  have hnone : List.find? (fun x => x.r == st.srtcs.length) st.srtcs = none := by
    apply List.find?_eq_none.mpr
    intro x hx; have := hs x hx; simp; omega
  simp [step, hg, fuel, runActs, exec, srtcGet, hnone, issueTo, Afkak.ClientNet.getBrokerClient, hc, setSrtc]

/-- New operations after close fail at once, synchronously inside the call: a metadata load reports
    `KafkaUnavailableError`, and nothing is sent. -/
theorem C20_new_ops_fail (cfg : Cfg) (st : St) (u : Nat) (x : Unaware) (h : st.closing = true) :
    (exec cfg st (.unawareStart u)) = (st, [], [.unawareDone u (.err .clientClosed)]) ∧
    (∀ lo all, unawareGet st u = some x → x.owner = .load all lo →
      (exec cfg st (.unawareDone u (.err .clientClosed))).2.2 = deliverLoad lo (.err .unavailable)) ∧
    deliverLoad (.api u) (.err .unavailable) = [.opResult u (.fail .unavailable)] := by
  refine ⟨by simp [exec, h], ?_, rfl⟩
  intro lo all hx ho
  simp [exec, hx, ho, Kind.isCancel]

/-- The code (and therefore the model) violates `C20_close_awaits_bootstrap_connections`: a fresh client
    loads metadata, the bootstrap host accepts, the client is closed — the bootstrap connection is told to
    close and the close Deferred fires in the same step, before any connection-lost notification. -/
theorem C20_close_awaits_bootstrap_connections_counterexample :
    ¬ Open.C20_close_awaits_bootstrap_connections := by
  intro h
  have := h { timeout := 10, disconnectOnTimeout := false, bootHosts := [("boot", 9092)] }
    [({ shuffles := [[], [0]] }, .load 0 []), ({}, .bootOk 0), ({}, .close 1)]
  revert this
  decide +kernel

/-- What does hold: if no bootstrap connection is open when `close()` is called (no broker-unaware
    request has a request in flight on a bootstrap host), the close step tells no bootstrap connection to
    close, so there is nothing the close Deferred could fail to wait for. -/
theorem C20_close_awaits_bootstrap_connections_partial (cfg : Cfg) (st : St) (env : Env) (o : Nat)
    (hc : st.closing = false) (hb : NoBootReq st) :
    ∀ ob ∈ (step cfg st env (.close o)).2, ob.isBootLose = false := by
  simp only [step, hc, Bool.false_eq_true, if_false]
  exact runActs_closing_nbr cfg fuel _ _ _ rfl (fun x hx => hb x hx) (by simp)

/-! Non-vacuity: a client with one connected broker and a request in flight is closed; the pending load
    fails in the same step, the broker client is closed, the close Deferred fires only when the broker
    client has gone, and a later load fails at once without any connection attempt. -/
example :
    let cfg : Cfg := { timeout := 10, disconnectOnTimeout := false, bootHosts := [("boot", 9092)] }
    let st0 : St := { cache := { brokers := [(1, ⟨1, "h1", 9092⟩)] } }
    let s1 := step cfg st0 { shuffles := [[0]] } (.load 0 ["t"])
    let s2 := step cfg s1.1 { shuffles := [[0]] } (.close 1)
    let s3 := step cfg s2.1 {} (.load 2 [])
    let s4 := step cfg s3.1 {} (.down 0)
    s2.2 = [.bcClose 0, .fired 0 (some .clientClosed), .cancelTimer (.mrtb 0), .result 0 .okNone] ∧
    s3.2 = [.result 2 (.fail .unavailable)] ∧ s4.2 = [.closeFired 1] ∧
    s2.1.closing = true ∧ NoBootConn s2.1 := by
  refine ⟨by decide +kernel, by decide +kernel, by decide +kernel, by decide +kernel, ?_⟩
  intro x hx j rest
  have : (step { timeout := 10, disconnectOnTimeout := false, bootHosts := [("boot", 9092)] }
      (step { timeout := 10, disconnectOnTimeout := false, bootHosts := [("boot", 9092)] }
        { cache := { brokers := [(1, ⟨1, "h1", 9092⟩)] } } { shuffles := [[0]] } (.load 0 ["t"])).1
      { shuffles := [[0]] } (.close 1)).1.unawares = [{ u := 0, kind := .metadata ["t"], st := .done, owner := .load false (.api 0) }] := by
    decide +kernel
  rw [this] at hx
  simp only [List.mem_singleton] at hx
  subst hx
  simp

end Afkak.Props.C20

/- OBLIGATIONS
C20_no_connect_no_write_after_close
C20_closed_for_ever
C20_no_connect_in_any_callback
C20_metadata_cleared
C20_new_ops_fail
C20_srtc_after_close_fails
C20_close_awaits_bootstrap_connections_counterexample
C20_close_awaits_bootstrap_connections_partial
-/
/- OPEN_STATEMENTS
C20_model_traces_satisfy_monitor
C20_close_leaves_no_bootstrap_pending
C20_close_awaits_bootstrap_connections
-/
