import Afkak.ClientNet
import Afkak.Monitor.C20
import AfkakProofs.Client.Net
import AfkakProofs.Client.B_BootClose
import AfkakProofs.Client.B_ComposeClose
import AfkakProofs.Client.B_MonC20
import AfkakProofs.Client.B_CloseAll
import AfkakProofs.Client.B5_ComposeAgree
import AfkakProofs.Client.B5_ComposeProj
import AfkakProofs.Client.B5_ReqClosed
import AfkakProofs.Client.B5_Cleared
import AfkakProofs.Client.A_Ids
import AfkakProofs.Client.B5_Ids
import AfkakProps.Open.C20
/-!
# C20 — closing the client fails everything pending and releases every connection
Property theorems only; helper lemmas live in `AfkakProofs/Client/Net.lean`.
-/
namespace Afkak.Props.C20
open Afkak.ClientNet Afkak.ClientCache

/-- After close, whatever happens next — any API call, any completion from a broker client, any
    bootstrap connection event, any timer, a late reply, another close — the client does not connect,
    does not create a broker client, does not write a bootstrap request and does not hand a request to a
    broker client, and it stays closed.  (`NoBootConn`: no bootstrap connection attempt is still
    awaited; `close()` cancels them all, see the open statement `C20_close_leaves_no_bootstrap_pending`.) -/
theorem C20_no_connect_no_write_after_close (cfg : Cfg) (st : St) (env : Env) (e : Ev)
    (h : st.closing = true) (hb : NoBootConn st) :
    (step cfg st env e).1.closing = true ∧ ∀ o ∈ (step cfg st env e).2, o.connects = false :=
  step_closing cfg st env e h hb

/-- … and for ever: from a closed state in which no bootstrap connection attempt is awaited, NO sequence
    of later events (late replies, connection-closed notifications in any order, timers, new
    operations, another close) makes the client connect, create a broker client, write a bootstrap
    request or issue a request — the two facts are preserved by every step. -/
theorem C20_closed_for_ever (cfg : Cfg) (st : St) (h : st.closing = true) (hb : NoBootConn st)
    (pre : List (Env × Ev)) (e : Env × Ev) :
    let st' := pre.foldl (fun s x => (step cfg s x.1 x.2).1) st
    (∀ o ∈ (step cfg st' e.1 e.2).2, o.connects = false) ∧
    (∀ env ev, (step cfg st env ev).1.closing = true ∧ NoBootConn (step cfg st env ev).1) :=
  ⟨closed_forever cfg (pre ++ [e]) st h hb pre e [] rfl,
   fun env ev => ⟨(step_closing cfg st env ev h hb).1, step_closing_nbc cfg st env ev h hb⟩⟩

/-- The same for every synchronous action of the machine: once closing, nothing in any callback chain
    connects or issues a request (this is what makes the operations pending at close fail instead of
    falling through to another broker or to the bootstrap hosts — the fix of F13). -/
theorem C20_no_connect_in_any_callback (cfg : Cfg) (fuel : Nat) (st : St) (acts : List Act) (h : st.closing = true) :
    (runActs cfg fuel st acts []).1.closing = true ∧ ∀ o ∈ (runActs cfg fuel st acts []).2, o.connects = false :=
  runActs_closing cfg fuel st acts [] h (by simp)

/-- `close()` clears the routing metadata in every state; a second `close()` (which since 1d62725 returns
    the pending close Deferred instead of raising) leaves cache, clients and the closed flag as they are. -/
theorem C20_metadata_cleared (cfg : Cfg) (st : St) (o : Nat) :
    (exec cfg st (.finishClose o)).1.cache.t2b = [] ∧ (exec cfg st (.finishClose o)).1.cache.topicParts = [] ∧
    (exec cfg st (.finishClose o)).1.cache.topicErrs = [] ∧ (exec cfg st (.finishClose o)).1.cache.groups = [] ∧
    (∀ env, st.closing = true →
      (step cfg st env (.close o)).1.cache = st.cache ∧ (step cfg st env (.close o)).1.closing = true ∧
      (step cfg st env (.close o)).1.bcs = st.bcs) := by
  refine ⟨?_, ?_, ?_, ?_, ?_⟩
  · simp only [exec]; split <;> rfl
  · simp only [exec]; split <;> rfl
  · simp only [exec]; split <;> rfl
  · simp only [exec]; split <;> rfl
  · intro env h
    simp only [step, h, if_true]
    split
    · simp only [fuel, runActs, exec]
      split <;> simp [runActs, h]
    · exact ⟨rfl, rfl, rfl⟩

/-- A coordinator request (`_send_request_to_coordinator`: join, sync, heartbeat, leave) started after close
    fails inside the call with `ClientError` (the cached coordinator is looked up, `_get_brokerclient` refuses),
    at the level of a whole step: the operation's result is among the step's observations.  (Fresh request
    ids `x.r < length` hold in every reachable state.)  NOTE (audit round 2): a cached coordinator and `closing` hold
    together only INSIDE the close step (before `reset_all_metadata()` runs) - between steps a closed client has no
    cached coordinator (`C20_metadata_stays_cleared`), and `_send_request_to_coordinator` then goes through the
    coordinator lookup and fails with CoordinatorNotAvailable (the harness diffs this against the code on every scenario
    that issues one after close); the step-level "fails at once" statement for reachable closed states is proved for
    metadata loads (`C20_load_after_close_fails_at_once`) and monitored for the other operations. -/
theorem C20_srtc_after_close_fails (cfg : Cfg) (st : St) (env : Env) (o : Nat) (g : String) (mt : Option Rat) (b : Broker)
    (hc : st.closing = true) (hg : get? g st.cache.groups = some b) (hs : ∀ x ∈ st.srtcs, x.r < st.srtcs.length) :
    Ob.result o (.fail .clientClosed) ∈ (step cfg st env (.srtc o g mt)).2 := by
  have hnone : List.find? (fun x => x.r == st.srtcs.length) st.srtcs = none := by
    apply List.find?_eq_none.mpr
    intro x hx; have := hs x hx; simp; omega
  simp [step, hg, fuel, runActs, exec, srtcGet, hnone, issueTo, Afkak.ClientNet.getBrokerClient, hc, setSrtc]

/-- New operations after close fail at once, synchronously inside the call: a metadata load reports
    `KafkaUnavailableError`, and nothing is sent. -/
theorem C20_new_ops_fail (cfg : Cfg) (st : St) (u : Nat) (x : Unaware) (h : st.closing = true) :
    (exec cfg st (.unawareStart u)) = (st, [], [.unawareDone u (.err .clientClosed)]) ∧
    (∀ lo all, unawareGet st u = some x → x.owner = .load all lo →
      (exec cfg st (.unawareDone u (.err .clientClosed))).2.2 = deliverLoad lo (.err .unavailable)) ∧
    deliverLoad (.api u) (.err .unavailable) = [.opResult u (.fail .unavailable)] := by
  refine ⟨by simp [exec, h], ?_, rfl⟩
  intro lo all hx ho
  simp [exec, hx, ho, Kind.isCancel]

/-- The code (and therefore the model) violates `C20_close_awaits_bootstrap_connections`: a fresh client
    loads metadata, the bootstrap host accepts, the client is closed — the bootstrap connection is told to
    close and the close Deferred fires in the same step, before any connection-lost notification. -/
theorem C20_close_awaits_bootstrap_connections_counterexample :
    ¬ Open.C20_close_awaits_bootstrap_connections := by
  intro h
  have := h { timeout := 10, disconnectOnTimeout := false, bootHosts := [("boot", 9092)] }
    [({ shuffles := [[], [0]] }, .load 0 []), ({}, .bootOk 0), ({}, .close 1)]
  revert this
  decide +kernel

/-- What does hold: if no bootstrap connection is open when `close()` is called (no broker-unaware
    request has a request in flight on a bootstrap host), the close step tells no bootstrap connection to
    close, so there is nothing the close Deferred could fail to wait for. -/
theorem C20_close_awaits_bootstrap_connections_partial (cfg : Cfg) (st : St) (env : Env) (o : Nat)
    (hc : st.closing = false) (hb : NoBootReq st) :
    ∀ ob ∈ (step cfg st env (.close o)).2, ob.isBootLose = false := by
  simp only [step, hc, Bool.false_eq_true, if_false]
  exact runActs_closing_nbr cfg fuel _ _ _ rfl (fun x hx => hb x hx) (by simp)

/-- `close()` aborts every bootstrap in progress: after the `close` step of an open client — in ANY reachable
    state — no broker-unaware request is waiting for a bootstrap connection or for the reply on one, provided the
    step did not exhaust the interpreter's fuel (the statement without that proviso is false of the fuel-bounded
    interpreter: with more than `fuel` broker clients to close the stack is cut before `cancelBoots` runs; it stays
    an open statement).  Proof: bootstrap attempts are numbered uniquely in every reachable state (`BootInv`), while
    closing no action creates a bootstrap state, and `cancelBoots → cancelU → bootNext/bootResult → unawareDone`
    takes each instance out of it (`AfkakProofs/Client/B_BootClose.lean`). -/
theorem C20_close_leaves_no_bootstrap_pending_partial (cfg : Cfg) (evs : List (Env × Ev)) (env : Env) (o : Nat) :
    let st := evs.foldl (fun s e => (step cfg s e.1 e.2).1) ({} : St)
    st.closing = false → Ob.badOp "fuel" ∉ (step cfg st env (.close o)).2 →
    ∀ x ∈ (step cfg st env (.close o)).1.unawares, ∀ j rest, x.st ≠ .bootConn j rest ∧ x.st ≠ .bootReq j rest := by
  intro st hc hf x hx j rest
  have hb := close_no_boot cfg st env o (run_bootInv cfg evs {} BootInv.init) hc hf x hx
  constructor <;> (intro h; rw [h] at hb; cases hb)

/-- `C20_no_connect_no_write_after_close` WITHOUT the `NoBootConn` hypothesis, for reachable states: take any run
    of the client from its initial state, call `close()` (the step not exhausting the fuel), and let ANY events
    follow (late replies, connection events of bootstrap attempts that were pending, timers, new operations,
    another close): no later step connects, creates a broker client, writes a bootstrap request or hands a request
    to a broker client, and the client stays closed. -/
theorem C20_no_connect_no_write_after_close_reachable (cfg : Cfg) (evs : List (Env × Ev)) (env : Env) (o : Nat)
    (post : List (Env × Ev)) (e : Env × Ev) :
    let st := evs.foldl (fun s e => (step cfg s e.1 e.2).1) ({} : St)
    st.closing = false → Ob.badOp "fuel" ∉ (step cfg st env (.close o)).2 →
    let st' := post.foldl (fun s x => (step cfg s x.1 x.2).1) (step cfg st env (.close o)).1
    st'.closing = true ∧ (step cfg st' e.1 e.2).1.closing = true ∧ ∀ ob ∈ (step cfg st' e.1 e.2).2, ob.connects = false := by
  intro st hc hf
  have hcl : (step cfg st env (.close o)).1.closing = true := by
    simp only [step, hc, Bool.false_eq_true, if_false]
    exact runActs_closing_state cfg fuel _ _ _ rfl
  have hnb : NoBootConn (step cfg st env (.close o)).1 := by
    intro x hx j rest
    exact (C20_close_leaves_no_bootstrap_pending_partial cfg evs env o hc hf x hx j rest).1
  have key : ∀ (l : List (Env × Ev)) (s : St), s.closing = true → NoBootConn s →
      (l.foldl (fun s x => (step cfg s x.1 x.2).1) s).closing = true ∧
      NoBootConn (l.foldl (fun s x => (step cfg s x.1 x.2).1) s) := by
    intro l
    induction l with
    | nil => intro s h1 h2; exact ⟨h1, h2⟩
    | cons x l ih =>
      intro s h1 h2
      exact ih _ (step_closing cfg s x.1 x.2 h1 h2).1 (step_closing_nbc cfg s x.1 x.2 h1 h2)
  intro st'
  obtain ⟨h1, h2⟩ := key post _ hcl hnb
  exact ⟨h1, (step_closing cfg st' e.1 e.2 h1 h2).1, (step_closing cfg st' e.1 e.2 h1 h2).2⟩

/-! Non-vacuity of the two theorems above: a fresh client is bootstrapping (connection accepted, metadata request
    written) when it is closed; the step does not run out of fuel and the bootstrap is aborted in it. -/
example :
    let cfg : Cfg := { timeout := 10, disconnectOnTimeout := false, bootHosts := [("boot", 9092)] }
    let st := ([({ shuffles := [[], [0]] }, Ev.load 0 []), ({}, Ev.bootOk 0)] : List (Env × Ev)).foldl
      (fun s e => (step cfg s e.1 e.2).1) ({} : St)
    st.closing = false ∧ Ob.badOp "fuel" ∉ (step cfg st {} (.close 1)).2 ∧
    st.unawares.map (·.st) = [.bootReq 0 []] ∧ (step cfg st {} (.close 1)).1.unawares.map (·.st) = [.done] := by
  decide +kernel

/-! Non-vacuity: a client with one connected broker and a request in flight is closed; the pending load
    fails in the same step, the broker client is closed, the close Deferred fires only when the broker
    client has gone, and a later load fails at once without any connection attempt. -/
example :
    let cfg : Cfg := { timeout := 10, disconnectOnTimeout := false, bootHosts := [("boot", 9092)] }
    let st0 : St := { cache := { brokers := [(1, ⟨1, "h1", 9092⟩)] } }
    let s1 := step cfg st0 { shuffles := [[0]] } (.load 0 ["t"])
    let s2 := step cfg s1.1 { shuffles := [[0]] } (.close 1)
    let s3 := step cfg s2.1 {} (.load 2 [])
    let s4 := step cfg s3.1 {} (.down 0)
    s2.2 = [.bcClose 0, .fired 0 (some .clientClosed), .cancelTimer (.mrtb 0), .result 0 .okNone] ∧
    s3.2 = [.result 2 (.fail .unavailable)] ∧ s4.2 = [.closeFired 1] ∧
    s2.1.closing = true ∧ NoBootConn s2.1 := by
  refine ⟨by decide +kernel, by decide +kernel, by decide +kernel, by decide +kernel, ?_⟩
  intro x hx j rest
  have : (step { timeout := 10, disconnectOnTimeout := false, bootHosts := [("boot", 9092)] }
      (step { timeout := 10, disconnectOnTimeout := false, bootHosts := [("boot", 9092)] }
        { cache := { brokers := [(1, ⟨1, "h1", 9092⟩)] } } { shuffles := [[0]] } (.load 0 ["t"])).1
      { shuffles := [[0]] } (.close 1)).1.unawares = [{ u := 0, kind := .metadata ["t"], st := .done, owner := .load false (.api 0) }] := by
    decide +kernel
  rw [this] at hx
  simp only [List.mem_singleton] at hx
  subst hx
  simp

/-- **Part of the monitor's soundness for the model** (`C20_model_traces_satisfy_monitor` is the whole): every
    trace of the client model from the initial state - every sequence of API calls, completions, connection events
    and clock advances with every environment answer, no step exhausting the interpreter's fuel - satisfies the rules
    of `Afkak.Monitor.C20` (the predicate evaluated on the real client's traces) that say "after the first `close()`
    no request is handed to a broker client, no broker client is created, no bootstrap connection is attempted and no
    bootstrap request is written" (`connFails`, part of `ok`).  By simulation: the monitor's `closed` flag is set
    exactly when the model has executed a `close` event, and from then on the model state is closing and awaits no
    bootstrap connection (`AfkakProofs/Client/B_MonC20.lean`).  Not covered (open): every pending operation fails in
    the close step, later operations fail at once, the close Deferred fires once and not before the last broker client
    has gone, metadata stays cleared. -/
theorem C20_model_traces_satisfy_monitor_partial (cfg : Cfg) (evs : List (Env × Ev)) (hnf : NoFuel cfg {} evs) :
    (Afkak.Monitor.C20.run (traceOf cfg {} evs)).connFails = [] :=
  model_no_connFails cfg evs hnf

/-! Non-vacuity: on a run that closes a bootstrapping client and then gets a late bootstrap event and a new load, the
    monitor's `closed` flag is set and `connFails` stays empty. -/
example :
    let cfg : Cfg := { timeout := 10, disconnectOnTimeout := false, bootHosts := [("boot", 9092)] }
    let evs : List (Env × Ev) := [({ shuffles := [[], [0]] }, .load 0 []), ({}, .close 1), ({}, .bootOk 0), ({}, .load 2 [])]
    NoFuel cfg {} evs ∧ (Afkak.Monitor.C20.run (traceOf cfg {} evs)).closed = true ∧
    (Afkak.Monitor.C20.run (traceOf cfg {} evs)).connFails = [] := by
  refine ⟨?_, by decide +kernel, by decide +kernel⟩
  simp only [NoFuel, and_true]
  refine ⟨by decide +kernel, by decide +kernel, by decide +kernel, by decide +kernel⟩

/-- **"All broker connections are closed": `close()` tells EVERY broker client to close.**  For every run of the client
    from its initial state (no step exhausting the fuel) and a `close()` in the state reached: when the close step
    ends, every broker-client instance ever created - those still in `self.clients`, those a metadata refresh popped
    earlier, those being closed already - has been told to close (`closed`: the observation `bcClose b` was emitted
    for it).  The model side of the monitor rule "the close Deferred fired although a broker client was never told
    to close".  Proof (`AfkakProofs/Client/B_BcInv.lean`, `B_CloseAll.lean`): in every reachable state the keys of
    `self.clients` are exactly the node ids of the instances not yet popped, without duplicates (`BcInv`, through
    `_update_brokers`' pops and `_get_brokerclient`'s creations), so `close()`'s loop over `self.clients` reaches each
    of them; and an instance that has left `self.clients` has been told to close or its `closeBc` is still on the
    action stack (`Pend`), which is empty when a step ends without fuel exhaustion. -/
theorem C20_close_closes_every_broker_client (cfg : Cfg) (evs : List (Env × Ev)) (hnf : NoFuel cfg {} evs) (env : Env) (o : Nat)
    (hf : Ob.badOp "fuel" ∉ (step cfg (evs.foldl (fun s e => (step cfg s e.1 e.2).1) ({} : St)) env (.close o)).2) :
    ∀ i ∈ (step cfg (evs.foldl (fun s e => (step cfg s e.1 e.2).1) ({} : St)) env (.close o)).1.bcs, i.closed = true :=
  close_closes_all cfg evs hnf env o hf

/-! Non-vacuity: two broker clients (one request each), a full refresh that drops broker 2, then `close()`: both
    instances end up told to close - the second by the refresh, the first by `close()`. -/
example :
    let cfg : Cfg := { timeout := 10, disconnectOnTimeout := false, bootHosts := [("boot", 9092)] }
    let evs : List (Env × Ev) :=
      [({ shuffles := [[], [0]] }, .load 0 []), ({}, .bootOk 0),
       ({}, .bootReply 0 (.metadata [⟨1, "h1", 9092⟩, ⟨2, "h2", 9092⟩] [⟨"t", 0, [⟨0, 0, 1⟩, ⟨0, 1, 2⟩]⟩])),
       ({}, .send 1 [("t", 0), ("t", 1)] none true true),
       ({ shuffles := [[0, 1]] }, .load 2 []),
       ({}, .fire 2 (.ok (.metadata [⟨1, "h1", 9092⟩] [⟨"t", 0, [⟨0, 0, 1⟩, ⟨0, 1, 1⟩]⟩])))]
    let st := evs.foldl (fun s e => (step cfg s e.1 e.2).1) ({} : St)
    NoFuel cfg {} evs ∧ st.bcs.map (fun i => (i.inClients, i.closed)) = [(true, false), (false, true)] ∧
    Ob.badOp "fuel" ∉ (step cfg st {} (.close 3)).2 ∧
    (step cfg st {} (.close 3)).1.bcs.map (·.closed) = [true, true] := by
  refine ⟨?_, by decide +kernel, by decide +kernel, by decide +kernel⟩
  simp only [NoFuel, and_true]
  refine ⟨by decide +kernel, by decide +kernel, by decide +kernel, by decide +kernel, by decide +kernel, by decide +kernel⟩

/-! ## "Closing the client fails everything pending": no request survives `close()` -/

/-- **Once the client is closed no request handed to a broker client is still pending** - in every state reachable
    from the initial state (any API calls, completions, connection events, clock; no step exhausting the fuel) in which
    the client is closed: the state right after `close()` and every later one.  `close()` fails every request in
    flight inside the close step (the broker clients it closes errback them), also those on broker clients that an
    earlier metadata refresh had popped.  Proof (`AfkakProofs/Client/B5_ReqClosed.lean`): `RcInv` - a request pending on a
    broker client that has been told to close has its failure on the action stack, and only broker clients that left
    `self.clients` are told to close (so `_get_brokerclient` never hands a new request to a closed one) - through every
    action, the clock and every event; with `C20_close_closes_every_broker_client` (every instance is closed once
    closing) and an empty stack between steps nothing can be pending. -/
theorem C20_no_request_pending_after_close (cfg : Cfg) (evs : List (Env × Ev)) (hnf : NoFuel cfg {} evs) :
    let st := evs.foldl (fun s e => (step cfg s e.1 e.2).1) ({} : St)
    st.closing = true → ∀ q ∈ st.reqs, q.pending = false :=
  closed_no_pending cfg evs hnf

/-- ... so whatever a broker client still reports for a request after `close()` is discarded: the step of a completion
    `fire k r` in a reachable closed state emits `late k` (or refuses an unknown id) and nothing else - no result, no
    retry, no request, no cache update. -/
theorem C20_completions_after_close_discarded (cfg : Cfg) (evs : List (Env × Ev)) (hnf : NoFuel cfg {} evs) (env : Env) (k : Nat) (r : Res) :
    let st := evs.foldl (fun s e => (step cfg s e.1 e.2).1) ({} : St)
    st.closing = true →
    (step cfg st env (.fire k r)).2 = [.late k] ∨ (step cfg st env (.fire k r)).2 = [.badOp "fireReq"] := by
  intro st hc
  have hnp := closed_no_pending cfg evs hnf hc
  cases hq : reqGet { st with env := env } k with
  | none => right; simp [step, fuel, runActs, exec, hq]
  | some q =>
    left
    have hm : q ∈ st.reqs := (reqGet_mem hq).1
    have := hnp q hm
    simp [step, fuel, runActs, exec, hq, this]

/-! Non-vacuity: bootstrap, metadata, a send in flight on broker client 0, then `close()`: the request is pending before
    the close step and resolved after it; its late reply is discarded. -/
example :
    let cfg : Cfg := { timeout := 10, disconnectOnTimeout := false, bootHosts := [("boot", 9092)] }
    let evs : List (Env × Ev) :=
      [({ shuffles := [[], [0]] }, .load 0 []), ({}, .bootOk 0),
       ({}, .bootReply 0 (.metadata [⟨1, "h1", 9092⟩] [⟨"t", 0, [⟨0, 0, 1⟩]⟩])),
       ({}, .send 1 [("t", 0)] none true true)]
    let st := evs.foldl (fun s e => (step cfg s e.1 e.2).1) ({} : St)
    let st' := (step cfg st {} (.close 2)).1
    NoFuel cfg {} (evs ++ [(({} : Env), Ev.close 2)]) ∧ st.reqs.map (·.pending) = [true] ∧ st'.closing = true ∧
    st'.reqs.map (·.pending) = [false] ∧ (step cfg st' {} (.fire 0 (.ok (.items [(("t", 0), 0, 7)])))).2 = [.late 0] := by
  refine ⟨?_, by decide +kernel, by decide +kernel, by decide +kernel, by decide +kernel⟩
  simp only [NoFuel, List.cons_append, List.nil_append, and_true]
  refine ⟨by decide +kernel, by decide +kernel, by decide +kernel, by decide +kernel, by decide +kernel⟩

/-- **`close()` clears the metadata and it STAYS cleared** (the monitor's three `dump` rules, on the model): in every
    state reachable from the initial state (any API calls, completions, connection events, clock, late replies, new
    operations, another close; no step exhausting the fuel) in which the client is closed - the state right after
    `close()` and every later one - the routing metadata is invalid (`Afkak.Monitor.C08.allInvalid`: no topic → broker
    entry, no topic partitions, no topic errors, no group coordinator), `self.clients` is empty and the partition
    metadata is empty.  (`C20_metadata_cleared` is the statement about `reset_all_metadata()` itself.)  Proof
    (`AfkakProofs/Client/B5_Cleared.lean`): while closing `_get_brokerclient` refuses, so no request is issued; no
    request is pending after the close step (`C20_no_request_pending_after_close`) and no bootstrap request is in flight
    (`C20_close_leaves_no_bootstrap_pending_partial`), so no successful reply can be merged; what else touches the cache
    (`reset_consumer_group_metadata`, `_handle_responses`' resets, `reset_topic_metadata`, `reset_all_metadata`) keeps
    it cleared (`KInv` through every action, the clock and every event). -/
theorem C20_metadata_stays_cleared (cfg : Cfg) (evs : List (Env × Ev)) (hnf : NoFuel cfg {} evs) :
    let st := evs.foldl (fun s e => (step cfg s e.1 e.2).1) ({} : St)
    st.closing = true →
    Afkak.Monitor.C08.allInvalid st.cache = true ∧ st.cache.clients = [] ∧ st.cache.partMeta = [] := by
  intro st hc
  obtain ⟨hC, hcl⟩ := closed_cleared cfg evs hnf hc
  refine ⟨?_, hcl, hC.partMeta⟩
  show Afkak.Monitor.C08.allInvalid (evs.foldl (fun s e => (step cfg s e.1 e.2).1) ({} : St)).cache = true
  simp [Afkak.Monitor.C08.allInvalid, hC.t2b, hC.topicParts, hC.topicErrs, hC.groups]

/-! Non-vacuity: bootstrap + metadata (two brokers, topic `t`), a send in flight, `close()`, then a LATE successful
    metadata reply for the failed request and a new load: the cache is cleared after the close and stays cleared. -/
example :
    let cfg : Cfg := { timeout := 10, disconnectOnTimeout := false, bootHosts := [("boot", 9092)] }
    let evs : List (Env × Ev) :=
      [({ shuffles := [[], [0]] }, .load 0 []), ({}, .bootOk 0),
       ({}, .bootReply 0 (.metadata [⟨1, "h1", 9092⟩] [⟨"t", 0, [⟨0, 0, 1⟩]⟩])),
       ({}, .send 1 [("t", 0)] none true true)]
    let st := evs.foldl (fun s e => (step cfg s e.1 e.2).1) ({} : St)
    let post : List (Env × Ev) := [({}, .close 2), ({}, .fire 0 (.ok (.items [(("t", 0), 0, 7)]))), ({}, .load 3 ["t"])]
    let st' := (evs ++ post).foldl (fun s e => (step cfg s e.1 e.2).1) ({} : St)
    NoFuel cfg {} (evs ++ post) ∧ st.cache.t2b.length = 1 ∧ st.cache.clients.length = 1 ∧ st'.closing = true ∧
    st'.cache.t2b = [] ∧ st'.cache.clients = [] := by
  refine ⟨?_, by decide +kernel, by decide +kernel, by decide +kernel, by decide +kernel, by decide +kernel⟩
  simp only [NoFuel, List.cons_append, List.nil_append, and_true]
  refine ⟨by decide +kernel, by decide +kernel, by decide +kernel, by decide +kernel, by decide +kernel, by decide +kernel, by decide +kernel⟩

/-- **A metadata load started after `close()` fails at once, at the level of a whole step**: in EVERY state reachable
    from the initial state in which the client is closed, `load_metadata_for_topics(*topics)` emits exactly one
    observation - its own Deferred failing with `KafkaUnavailableError` - inside the call: no shuffle, no connection, no
    request, no timer; and the (cleared) metadata is left as it is.  (The monitor rule "an operation started after
    close did not fail at once", for loads; `C20_new_ops_fail` is the action-level statement.) -/
theorem C20_load_after_close_fails_at_once (cfg : Cfg) (evs : List (Env × Ev)) (env : Env) (o : Nat) (topics : List String) :
    let st := evs.foldl (fun s e => (step cfg s e.1 e.2).1) ({} : St)
    st.closing = true →
    (step cfg st env (.load o topics)).2 = [.result o (.fail .unavailable)] ∧
    (step cfg st env (.load o topics)).1.cache = st.cache := by
  intro st hc
  have hB : BootInv st := run_bootInv cfg evs {} BootInv.init
  have hu : ∀ x ∈ st.unawares, x.u < st.unawares.length := by
    intro x hx
    obtain ⟨i, hi, hix⟩ := List.getElem_of_mem hx
    have := hB.ids i x (by rw [List.getElem?_eq_getElem hi, hix])
    omega
  have hfil : st.unawares.filter (fun x => x.u == st.unawares.length) = [] := by
    rw [List.filter_eq_nil_iff]; intro x hx; have := hu x hx; simp; omega
  simp [step, fuel, runActs, exec, hc, unawareGet, List.filter_append, hfil, setUnaware, deliverLoad, Kind.isCancel]

/-! Non-vacuity: the run of the example above followed by `close()`; a load afterwards fails at once. -/
example :
    let cfg : Cfg := { timeout := 10, disconnectOnTimeout := false, bootHosts := [("boot", 9092)] }
    let evs : List (Env × Ev) :=
      [({ shuffles := [[], [0]] }, .load 0 []), ({}, .bootOk 0),
       ({}, .bootReply 0 (.metadata [⟨1, "h1", 9092⟩] [⟨"t", 0, [⟨0, 0, 1⟩]⟩])),
       ({}, .send 1 [("t", 0)] none true true), ({}, .close 2)]
    let st := evs.foldl (fun s e => (step cfg s e.1 e.2).1) ({} : St)
    st.closing = true ∧ (step cfg st {} (.load 3 ["t"])).2 = [.result 3 (.fail .unavailable)] := by
  refine ⟨by decide +kernel, by decide +kernel⟩

/-- **A coordinator lookup started after `close()` fails at once** (step level, reachable closed states; audit round 2,
    C20-1): in every state reachable from the initial state in which the client is closed,
    `load_coordinator_for_group(g)` emits exactly one observation - its Deferred failing with CoordinatorNotAvailable -
    inside the call, PROVIDED no coordinator lookup for `g` is in progress (`hg`, the excluded situation: a lookup in
    progress would be joined and the new waiter answered when it ends; that none is in progress in a closed state is
    not proved - the lookups pending at close are ended in the close step, monitored on every trace). -/
theorem C20_cload_after_close_fails_at_once_partial (cfg : Cfg) (evs : List (Env × Ev)) (env : Env) (o : Nat) (g : String) :
    let st := evs.foldl (fun s e => (step cfg s e.1 e.2).1) ({} : St)
    st.closing = true → st.cfetches.any (fun f => f.g == g) = false →
    (step cfg st env (.cload o g)).2 = [.result o (.fail Kind.coordNA)] := by
  intro st hc hg
  have hB : BootInv st := run_bootInv cfg evs {} BootInv.init
  have hu : ∀ x ∈ st.unawares, x.u < st.unawares.length := by
    intro x hx
    obtain ⟨i, hi, hix⟩ := List.getElem_of_mem hx
    have := hB.ids i x (by rw [List.getElem?_eq_getElem hi, hix])
    omega
  have hfil : st.unawares.filter (fun x => x.u == st.unawares.length) = [] := by
    rw [List.filter_eq_nil_iff]; intro x hx; have := hu x hx; simp; omega
  have hgf : st.cfetches.filter (fun f => f.g == g) = [] := by
    rw [List.filter_eq_nil_iff]; intro f hf
    rw [List.any_eq_false] at hg
    exact hg f hf
  simp [step, cloadJoin, hg, fuel, runActs, exec, hc, unawareGet, List.filter_append, hfil, hgf, setUnaware]

/-- **`_send_request_to_coordinator` started after `close()` fails at once** (step level, reachable closed states): the
    cached coordinator is gone (`C20_metadata_stays_cleared`), the lookup is refused because the client is closed, and
    the operation's Deferred fails with CoordinatorNotAvailable inside the call - nothing is sent.  Same proviso as for
    `C20_cload_after_close_fails_at_once_partial` (no lookup for `g` in progress); the fresh ids of the
    `_send_request_to_coordinator` instances that `C20_srtc_after_close_fails` assumes are proved (`reachable_tids`).
    This is the reachable-state counterpart of `C20_srtc_after_close_fails`, whose hypotheses hold only inside the close
    step. -/
theorem C20_srtc_after_close_fails_at_once_partial (cfg : Cfg) (evs : List (Env × Ev)) (hnf : NoFuel cfg {} evs) (env : Env)
    (o : Nat) (g : String) (mt : Option Rat) :
    let st := evs.foldl (fun s e => (step cfg s e.1 e.2).1) ({} : St)
    st.closing = true → st.cfetches.any (fun f => f.g == g) = false →
    (step cfg st env (.srtc o g mt)).2 = [.result o (.fail Kind.coordNA)] := by
  intro st hc hg
  have hs : ∀ x ∈ st.srtcs, x.r < st.srtcs.length := (reachable_tids cfg evs {} TIds.init).srtc_lt
  have hgr : st.cache.groups = [] := (closed_cleared cfg evs hnf hc).1.groups
  have hB : BootInv st := run_bootInv cfg evs {} BootInv.init
  have hu : ∀ x ∈ st.unawares, x.u < st.unawares.length := by
    intro x hx
    obtain ⟨i, hi, hix⟩ := List.getElem_of_mem hx
    have := hB.ids i x (by rw [List.getElem?_eq_getElem hi, hix])
    omega
  have hfil : st.unawares.filter (fun x => x.u == st.unawares.length) = [] := by
    rw [List.filter_eq_nil_iff]; intro x hx; have := hu x hx; simp; omega
  have hsf : st.srtcs.filter (fun x => x.r == st.srtcs.length) = [] := by
    rw [List.filter_eq_nil_iff]; intro x hx; have := hs x hx; simp; omega
  have hgf : st.cfetches.filter (fun f => f.g == g) = [] := by
    rw [List.filter_eq_nil_iff]; intro f hf
    rw [List.any_eq_false] at hg
    exact hg f hf
  simp [step, cloadJoin, hg, hgr, get?, fuel, runActs, exec, hc, unawareGet, srtcGet, List.filter_append, hfil, hgf, hsf, setUnaware, setSrtc]

/-! Non-vacuity of both: the closed client of the examples above - no lookup in progress -
    refuses `load_coordinator_for_group("g")` and a heartbeat to group "g". -/
example :
    let cfg : Cfg := { timeout := 10, disconnectOnTimeout := false, bootHosts := [("boot", 9092)] }
    let evs : List (Env × Ev) :=
      [({ shuffles := [[], [0]] }, .load 0 []), ({}, .bootOk 0),
       ({}, .bootReply 0 (.metadata [⟨1, "h1", 9092⟩] [⟨"t", 0, [⟨0, 0, 1⟩]⟩])),
       ({}, .send 1 [("t", 0)] none true true), ({}, .close 2)]
    let st := evs.foldl (fun s e => (step cfg s e.1 e.2).1) ({} : St)
    st.closing = true ∧ st.cfetches.any (fun f => f.g == "g") = false ∧
    (step cfg st {} (.cload 3 "g")).2 = [.result 3 (.fail Kind.coordNA)] ∧
    (step cfg st {} (.srtc 3 "g" none)).2 = [.result 3 (.fail Kind.coordNA)] := by
  refine ⟨by decide +kernel, by decide +kernel, by decide +kernel, by decide +kernel⟩

/-- **A send started after `close()` fails at once** (step level, every reachable closed state, any payload list):
    `send_produce_request` / `send_fetch_request` / … (`group = none`) emits exactly one observation - its own Deferred
    failing - inside the call: `ValueError` for an empty or repeated payload list, otherwise `KafkaUnavailableError`
    (the routing metadata is gone - `C20_metadata_stays_cleared` - and the reload is refused because the client is
    closed).  Nothing is connected, created or sent.  With a consumer group (`send_offset_commit_request` …) the same,
    failing with CoordinatorNotAvailable, provided no coordinator lookup for the group is in progress (as for
    `C20_cload_after_close_fails_at_once_partial`). -/
theorem C20_send_after_close_fails_at_once (cfg : Cfg) (evs : List (Env × Ev)) (hnf : NoFuel cfg {} evs) (env : Env)
    (o : Nat) (keys : List TP) (group : Option String) (foe expect : Bool) :
    let st := evs.foldl (fun s e => (step cfg s e.1 e.2).1) ({} : St)
    st.closing = true → (∀ g, group = some g → st.cfetches.any (fun f => f.g == g) = false) →
    ∃ kd, (step cfg st env (.send o keys group foe expect)).2 = [.result o (.fail kd)] := by
  intro st hc hgrp
  obtain ⟨hC, _⟩ := closed_cleared cfg evs hnf hc
  have ht : st.cache.t2b = [] := hC.t2b
  have hgr : st.cache.groups = [] := hC.groups
  have hB : BootInv st := run_bootInv cfg evs {} BootInv.init
  have hI : Ids st := reachable_ids cfg evs {} Ids.init
  have hu : ∀ x ∈ st.unawares, x.u < st.unawares.length := by
    intro x hx
    obtain ⟨i, hi, hix⟩ := List.getElem_of_mem hx
    have := hB.ids i x (by rw [List.getElem?_eq_getElem hi, hix])
    omega
  have hs : ∀ x ∈ st.sends, x.s < st.sends.length := by
    intro x hx
    have hm : x.s ∈ sids st := List.mem_map.mpr ⟨x, hx, rfl⟩
    rw [hI.sends] at hm
    simpa using hm
  have hfil : st.unawares.filter (fun x => x.u == st.unawares.length) = [] := by
    rw [List.filter_eq_nil_iff]; intro x hx; have := hu x hx; simp; omega
  have hsf : st.sends.filter (fun x => x.s == st.sends.length) = [] := by
    rw [List.filter_eq_nil_iff]; intro x hx; have := hs x hx; simp; omega
  simp only [step]
  split
  · exact ⟨.other "ValueError", by simp [fuel, runActs, exec]⟩
  · split
    · exact ⟨.other "ValueError", by simp [fuel, runActs, exec]⟩
    · cases keys with
      | nil => simp at *
      | cons key rest =>
        cases group with
        | none =>
          refine ⟨.unavailable, ?_⟩
          simp [fuel, runActs, exec, hc, ht, get?, sendGet, unawareGet, List.filter_append, hfil, hsf, setUnaware, setSend, deliverLoad, Kind.isCancel]
        | some g =>
          have hg := hgrp g rfl
          have hgf : st.cfetches.filter (fun f => f.g == g) = [] := by
            rw [List.filter_eq_nil_iff]; intro f hf
            rw [List.any_eq_false] at hg
            exact hg f hf
          refine ⟨Kind.coordNA, ?_⟩
          simp [fuel, runActs, exec, hc, hgr, hg, get?, cloadJoin, sendGet, unawareGet, List.filter_append, hfil, hsf, hgf, setUnaware, setSend]

/-! Non-vacuity: the closed client of the examples above refuses a produce and a commit. -/
example :
    let cfg : Cfg := { timeout := 10, disconnectOnTimeout := false, bootHosts := [("boot", 9092)] }
    let evs : List (Env × Ev) :=
      [({ shuffles := [[], [0]] }, .load 0 []), ({}, .bootOk 0),
       ({}, .bootReply 0 (.metadata [⟨1, "h1", 9092⟩] [⟨"t", 0, [⟨0, 0, 1⟩]⟩])),
       ({}, .send 1 [("t", 0)] none true true), ({}, .close 2)]
    let st := evs.foldl (fun s e => (step cfg s e.1 e.2).1) ({} : St)
    st.closing = true ∧ st.cfetches = [] ∧
    (step cfg st {} (.send 3 [("t", 0)] none true true)).2 = [.result 3 (.fail .unavailable)] ∧
    (step cfg st {} (.send 3 [("t", 0)] (some "g") true true)).2 = [.result 3 (.fail Kind.coordNA)] := by
  refine ⟨by decide +kernel, by decide +kernel, by decide +kernel, by decide +kernel⟩

/-- **`_load_topic_partitions` started after `close()` fails at once** (step level, reachable closed states): exactly one
    observation, its Deferred failing with `ClientError`, inside the call.  (The instances are numbered by position in
    every reachable state: `reachable_tids`, AfkakProofs/Client/B5_Ids.lean.) -/
theorem C20_ltp_after_close_fails_at_once (cfg : Cfg) (evs : List (Env × Ev)) (env : Env) (o : Nat) (topics : List String) :
    let st := evs.foldl (fun s e => (step cfg s e.1 e.2).1) ({} : St)
    st.closing = true →
    (step cfg st env (.ltp o topics)).2 = [.result o (.fail .clientClosed)] := by
  intro st hc
  have hl : ∀ x ∈ st.ltps, x.l < st.ltps.length := (reachable_tids cfg evs {} TIds.init).ltp_lt
  have hB : BootInv st := run_bootInv cfg evs {} BootInv.init
  have hu : ∀ x ∈ st.unawares, x.u < st.unawares.length := by
    intro x hx
    obtain ⟨i, hi, hix⟩ := List.getElem_of_mem hx
    have := hB.ids i x (by rw [List.getElem?_eq_getElem hi, hix])
    omega
  have hfil : st.unawares.filter (fun x => x.u == st.unawares.length) = [] := by
    rw [List.filter_eq_nil_iff]; intro x hx; have := hu x hx; simp; omega
  have hfl : st.ltps.filter (fun x => x.l == st.ltps.length) = [] := by
    rw [List.filter_eq_nil_iff]; intro x hx; have := hl x hx; simp; omega
  have hmap : ∀ (g : Ltp → Ltp), st.ltps.map (fun y => if y.l == st.ltps.length then g y else y) = st.ltps := by
    intro g
    conv => rhs; rw [← List.map_id st.ltps]
    apply List.map_congr_left
    intro y hy
    have := hl y hy
    have : (y.l == st.ltps.length) = false := by simp; omega
    simp [this]
  simp only [step, fuel, runActs, exec, List.filter_append, hfl, List.nil_append, List.filter_cons, beq_self_eq_true, if_true,
    List.head?_cons, List.map_append, hmap, List.map_cons, List.map_nil, hc]
  simp [runActs, exec, unawareGet, hfil, hfl, hmap, List.filter_append, setUnaware]

/-! Non-vacuity: the closed client of the examples above. -/
example :
    let cfg : Cfg := { timeout := 10, disconnectOnTimeout := false, bootHosts := [("boot", 9092)] }
    let evs : List (Env × Ev) :=
      [({ shuffles := [[], [0]] }, .load 0 []), ({}, .bootOk 0),
       ({}, .bootReply 0 (.metadata [⟨1, "h1", 9092⟩] [⟨"t", 0, [⟨0, 0, 1⟩]⟩])),
       ({}, .send 1 [("t", 0)] none true true), ({}, .close 2)]
    let st := evs.foldl (fun s e => (step cfg s e.1 e.2).1) ({} : St)
    st.closing = true ∧ (step cfg st {} (.ltp 3 ["t"])).2 = [.result 3 (.fail .clientClosed)] := by
  refine ⟨by decide +kernel, by decide +kernel⟩

/-- `C20_metadata_stays_cleared` end to end: in every run of the COMPOSED model without a fuel report, once the client
    component is closed its metadata is and stays cleared - whatever the broker clients below deliver afterwards. -/
theorem C20_composed_metadata_stays_cleared (cfg : Afkak.ClientCompose.Cfg) (evs : List Afkak.ClientCompose.Ev)
    (hnf : Afkak.ClientCompose.NoFuelRun cfg {} evs) :
    let s := Afkak.ClientCompose.run cfg {} evs
    s.cl.closing = true →
    Afkak.Monitor.C08.allInvalid s.cl.cache = true ∧ s.cl.cache.clients = [] ∧ s.cl.cache.partMeta = [] := by
  intro s hc
  obtain ⟨l, hl, hnfl⟩ := Afkak.ClientCompose.run_proj cfg evs {} hnf
  have hl' : s.cl = l.foldl (fun s e => (step cfg.cl s e.1 e.2).1) ({} : St) := hl
  rw [hl'] at hc ⊢
  exact C20_metadata_stays_cleared cfg.cl l hnfl hc

/-- The same end to end: in every run of the COMPOSED model (client × broker clients, network-level events) that shows
    no fuel report, once the client component is closed none of its requests is pending (the client component of a
    composed run is a client run: `run_proj`). -/
theorem C20_composed_no_request_pending_after_close (cfg : Afkak.ClientCompose.Cfg) (evs : List Afkak.ClientCompose.Ev)
    (hnf : Afkak.ClientCompose.NoFuelRun cfg {} evs) :
    let s := Afkak.ClientCompose.run cfg {} evs
    s.cl.closing = true → ∀ q ∈ s.cl.reqs, q.pending = false := by
  intro s hc q hq
  obtain ⟨l, hl, hnfl⟩ := Afkak.ClientCompose.run_proj cfg evs {} hnf
  have hl' : s.cl = l.foldl (fun s e => (step cfg.cl s e.1 e.2).1) ({} : St) := hl
  rw [hl'] at hc hq
  exact closed_no_pending cfg.cl l hnfl hc q hq

/-! ## C20 end to end: the client model composed with one broker-client model per broker (`Afkak/ClientCompose.lean`) -/

/-- Once the client component of the COMPOSED model (client model × one broker-client model per broker client) is
    closed and awaits no bootstrap connection, every composed step - whatever network-level event: a connection
    attempt of a broker client succeeding or failing, a connection going away, a late reply, the clock, a new API
    call, another close - keeps it so; the client layer emits nothing that connects, creates a broker client,
    writes a bootstrap request or hands a request to a broker client; and every broker client that is closed stays
    closed and does nothing that connects, writes or arms a timer (`OutOk b`: its observations in that step are
    `quietOb`, no `connect b …`) - the broker-client theorem `C10_closed_quiet` under the client's close. -/
theorem C20_composed_closed_quiet (cfg : Afkak.ClientCompose.Cfg) (s : Afkak.ClientCompose.St) (e : Afkak.ClientCompose.Ev)
    (hc : Afkak.ClientCompose.Closed s.cl) (hi : Afkak.ClientCompose.AllSInv s) :
    Afkak.ClientCompose.Closed (Afkak.ClientCompose.step cfg s e).1.cl ∧
    Afkak.ClientCompose.AllSInv (Afkak.ClientCompose.step cfg s e).1 ∧
    (∀ o, Afkak.ClientCompose.Ob.cl o ∈ (Afkak.ClientCompose.step cfg s e).2 → o.connects = false) ∧
    (∀ b x, s.bcs[b]? = some x → x.closed = true →
      (∃ x', (Afkak.ClientCompose.step cfg s e).1.bcs[b]? = some x' ∧ x'.closed = true) ∧
      Afkak.ClientCompose.OutOk b (Afkak.ClientCompose.step cfg s e).2) := by
  obtain ⟨h1, h2⟩ := Afkak.ClientCompose.step_gen cfg (Afkak.ClientCompose.closedInv cfg) s e hc
  refine ⟨h1, Afkak.ClientCompose.step_allSInv cfg s e hi, h2, ?_⟩
  intro b x hx hcl
  obtain ⟨k1, k2⟩ := Afkak.ClientCompose.step_keeps cfg s b e ⟨hi, x, hx, hcl⟩
  exact ⟨k1.closed, k2⟩

/-- `close()` of the client in the composed model, from ANY reachable composed state (any network history), with
    ANY events afterwards: the client component is closed for good, the client layer never again emits anything
    that connects / creates a broker client / issues a request, and every broker client that is closed when the
    close step ends (by this close or by an earlier metadata refresh) never again connects, writes or arms a timer.
    (The close step must not exhaust the interpreter's fuel.  That EVERY broker client is closed when the close
    step ends is the open statement `C20_composed_close_closes_every_broker_client`; it is checked on every real
    full-stack run the composed model is driven with.) -/
theorem C20_composed_no_connect_no_write_after_close (cfg : Afkak.ClientCompose.Cfg) (evs : List Afkak.ClientCompose.Ev)
    (env : Env) (o : Nat) (post : List Afkak.ClientCompose.Ev) (e : Afkak.ClientCompose.Ev) :
    let s := Afkak.ClientCompose.run cfg {} evs
    s.cl.closing = false → Ob.badOp "fuel" ∉ (step cfg.cl s.cl env (.close o)).2 →
    let s1 := (Afkak.ClientCompose.step cfg s (.api env (.close o))).1
    let s' := Afkak.ClientCompose.run cfg s1 post
    s'.cl.closing = true ∧ (Afkak.ClientCompose.step cfg s' e).1.cl.closing = true ∧
    (∀ ob, Afkak.ClientCompose.Ob.cl ob ∈ (Afkak.ClientCompose.step cfg s' e).2 → ob.connects = false) ∧
    (∀ b x, s1.bcs[b]? = some x → x.closed = true → Afkak.ClientCompose.OutOk b (Afkak.ClientCompose.step cfg s' e).2) := by
  intro s hc hf s1 s'
  have hbi : BootInv s.cl := Afkak.ClientCompose.run_gen cfg (Afkak.ClientCompose.bootInvC cfg) evs {} BootInv.init
  have hsi : Afkak.ClientCompose.AllSInv s := Afkak.ClientCompose.run_allSInv cfg evs {} Afkak.ClientCompose.allSInv_init
  have hcl1 : Afkak.ClientCompose.Closed s1.cl := Afkak.ClientCompose.close_establishes cfg s env o hbi hc hf
  have hsi1 : Afkak.ClientCompose.AllSInv s1 := Afkak.ClientCompose.step_allSInv cfg s _ hsi
  have key : ∀ (l : List Afkak.ClientCompose.Ev) (t : Afkak.ClientCompose.St), Afkak.ClientCompose.Closed t.cl →
      Afkak.ClientCompose.AllSInv t →
      Afkak.ClientCompose.Closed (Afkak.ClientCompose.run cfg t l).cl ∧ Afkak.ClientCompose.AllSInv (Afkak.ClientCompose.run cfg t l) ∧
      ∀ (b : Nat) (x : Afkak.BrokerClient.St), t.bcs[b]? = some x → x.closed = true →
        ∃ x' : Afkak.BrokerClient.St, (Afkak.ClientCompose.run cfg t l).bcs[b]? = some x' ∧ x'.closed = true := by
    intro l
    induction l with
    | nil => intro t h1 h2; exact ⟨h1, h2, fun b x hx hcx => ⟨x, hx, hcx⟩⟩
    | cons a l ih =>
      intro t h1 h2
      obtain ⟨g1, g2, _, g4⟩ := C20_composed_closed_quiet cfg t a h1 h2
      obtain ⟨i1, i2, i3⟩ := ih _ g1 g2
      refine ⟨i1, i2, ?_⟩
      intro b x hx hcx
      obtain ⟨⟨x', hx', hcx'⟩, _⟩ := g4 b x hx hcx
      exact i3 b x' hx' hcx'
  obtain ⟨k1, k2, k3⟩ := key post s1 hcl1 hsi1
  obtain ⟨g1, _, g3, g4⟩ := C20_composed_closed_quiet cfg s' e k1 k2
  refine ⟨k1.closing, g1.closing, g3, ?_⟩
  intro b x hx hcx
  obtain ⟨x', hx', hcx'⟩ := k3 b x hx hcx
  exact (g4 b x' hx' hcx').2

/-! Non-vacuity: a client with a connected broker client and a request in flight is closed; afterwards the broker
    client is closed, its connection's loss fires the client's close Deferred, a late reply does nothing. -/
example :
    let cfg : Afkak.ClientCompose.Cfg := { cl := { timeout := 10, disconnectOnTimeout := false, bootHosts := [("boot", 9092)] }, bc := ⟨fun _ => 1/2⟩ }
    let evs : List Afkak.ClientCompose.Ev :=
      [.api { shuffles := [[], [0]] } (.load 0 []), .api {} (.bootOk 0),
       .api {} (.bootReply 0 (.metadata [⟨1, "h1", 9092⟩] [⟨"t", 0, [⟨0, 0, 1⟩]⟩])),
       .api {} (.send 1 [("t", 0)] none true true), .connOk 0 []]
    let s := Afkak.ClientCompose.run cfg {} evs
    let r1 := Afkak.ClientCompose.step cfg s (.api {} (.close 2))
    let r2 := Afkak.ClientCompose.step cfg r1.1 (.reply 0 0 (.items [(("t", 0), 0, 7)]) {})
    let r3 := Afkak.ClientCompose.step cfg r2.1 (.lost 0 {})
    s.cl.closing = false ∧ Ob.badOp "fuel" ∉ (step cfg.cl s.cl {} (.close 2)).2 ∧
    r1.2 = [.cl (.bcClose 0), .cl (.fired 0 (some .clientClosed)), .cl (.cancelTimer (.mrtb 0)),
            .cl (.result 1 (.failedPayloads [] [(0, .clientClosed)])), .bc 0 (.lose 0), .bc 0 (.fire 0 0 (.err .clientError))] ∧
    (r1.1.bcs.map (·.closed)) = [true] ∧ r2.2 = [] ∧ r3.2 = [.bc 0 .down, .cl (.closeFired 2)] := by
  refine ⟨by decide +kernel, by decide +kernel, by decide +kernel, by decide +kernel, by decide +kernel, by decide +kernel⟩

/-- **`close()` in the composed model closes EVERY broker-client component** (the part of the open statement
    `C20_composed_close_closes_every_broker_client` that holds; the excluded situation is explicit: `NoFuelRun` - no
    composed step of the history showed the client layer's `badOp "fuel"`.  Without it the statement is false of the
    fuel-bounded interpreter: a refresh whose callback chain is cut after the instances were popped from `self.clients`
    and before their `closeBc` ran leaves instances nobody will ever close; a witness needs > 100000 actions in one step).
    For every run of the composition (client model × one broker-client model per instance; any network history:
    connection attempts succeeding / failing, connections lost, replies, the clock) and a `close()` of the client in the
    state reached - open or closed already -: when the close step ends, every broker-client COMPONENT is closed, those
    still in `self.clients` by this close, those popped by an earlier metadata refresh at the time.  With
    `C20_composed_no_connect_no_write_after_close`: after `close()` NO broker client below ever connects or writes.
    Proof: the client component of a composed run is a run of the client model (`run_proj`, B5_ComposeProj.lean), so
    `C20_close_closes_every_broker_client` applies to it; and the components agree with the client's table
    (`Agree`, B5_ComposeAgree.lean): `route` turns exactly the `bcNew` / `bcClose` observations of a client step into
    new components / `close` events, in order (`step_tb`, `route_tbl`), and a closed component stays closed
    (`C10_closed_quiet`). -/
theorem C20_composed_close_closes_every_broker_client_partial (cfg : Afkak.ClientCompose.Cfg) (evs : List Afkak.ClientCompose.Ev)
    (hnf : Afkak.ClientCompose.NoFuelRun cfg {} evs) (env : Env) (o : Nat) :
    let s := Afkak.ClientCompose.run cfg {} evs
    Ob.badOp "fuel" ∉ (step cfg.cl s.cl env (.close o)).2 →
    ∀ x ∈ (Afkak.ClientCompose.step cfg s (.api env (.close o))).1.bcs, x.closed = true := by
  intro s hf
  obtain ⟨l, hl, hnfl⟩ := Afkak.ClientCompose.run_proj cfg evs {} hnf
  have hl' : s.cl = l.foldl (fun s e => (step cfg.cl s e.1 e.2).1) ({} : St) := hl
  have hci : Afkak.ClientCompose.CInv (Afkak.ClientCompose.step cfg s (.api env (.close o))).1 :=
    Afkak.ClientCompose.step_cinv cfg s _ (Afkak.ClientCompose.run_cinv cfg evs {} Afkak.ClientCompose.cinv_init)
  have hcl : (Afkak.ClientCompose.step cfg s (.api env (.close o))).1.cl = (step cfg.cl s.cl env (.close o)).1 := by
    simp only [Afkak.ClientCompose.step, Afkak.ClientCompose.internal, Bool.false_eq_true, if_false]
    exact Afkak.ClientCompose.clientStep_cl cfg s env _
  apply Afkak.ClientCompose.all_closed_of_agree hci.agree
  rw [hcl, hl']
  rw [hl'] at hf
  exact close_closes_all cfg.cl l hnfl env o hf

/-! Non-vacuity: the composed run of the example above (bootstrap, metadata, a send that creates and connects broker
    client 0) shows no fuel report; its close step closes the one component. -/
example :
    let cfg : Afkak.ClientCompose.Cfg := { cl := { timeout := 10, disconnectOnTimeout := false, bootHosts := [("boot", 9092)] }, bc := ⟨fun _ => 1/2⟩ }
    let evs : List Afkak.ClientCompose.Ev :=
      [.api { shuffles := [[], [0]] } (.load 0 []), .api {} (.bootOk 0),
       .api {} (.bootReply 0 (.metadata [⟨1, "h1", 9092⟩] [⟨"t", 0, [⟨0, 0, 1⟩]⟩])),
       .api {} (.send 1 [("t", 0)] none true true), .connOk 0 []]
    Afkak.ClientCompose.NoFuelRun cfg {} evs ∧
    (Afkak.ClientCompose.run cfg {} evs).bcs.map (·.closed) = [false] ∧
    Ob.badOp "fuel" ∉ (step cfg.cl (Afkak.ClientCompose.run cfg {} evs).cl {} (.close 2)).2 := by
  refine ⟨by decide +kernel, by decide +kernel, by decide +kernel⟩

end Afkak.Props.C20

/- OBLIGATIONS
C20_no_connect_no_write_after_close
C20_closed_for_ever
C20_no_connect_in_any_callback
C20_metadata_cleared
C20_new_ops_fail
C20_srtc_after_close_fails
C20_close_awaits_bootstrap_connections_counterexample
C20_close_awaits_bootstrap_connections_partial
C20_close_leaves_no_bootstrap_pending_partial
C20_no_connect_no_write_after_close_reachable
C20_model_traces_satisfy_monitor_partial
C20_close_closes_every_broker_client
C20_composed_closed_quiet
C20_composed_no_connect_no_write_after_close
C20_composed_close_closes_every_broker_client_partial
C20_no_request_pending_after_close
C20_completions_after_close_discarded
C20_composed_no_request_pending_after_close
C20_load_after_close_fails_at_once
C20_metadata_stays_cleared
C20_cload_after_close_fails_at_once_partial
C20_srtc_after_close_fails_at_once_partial
C20_send_after_close_fails_at_once
C20_composed_metadata_stays_cleared
C20_ltp_after_close_fails_at_once
-/
/- OPEN_STATEMENTS
C20_model_traces_satisfy_monitor
C20_close_leaves_no_bootstrap_pending
C20_close_awaits_bootstrap_connections
C20_composed_close_closes_every_broker_client
-/
