import AfkakProofs.Murmur
import AfkakProofs.Partitioner
