import AfkakProps.C01
import AfkakProps.C09
import AfkakProps.C19
open Afkak.Producer Afkak.Monitor.ProducerTrace

-- axioms
#print axioms Afkak.Props.C01.C01_success_only_if_acked
#print axioms Afkak.Props.C01.C01_fires_exactly_once_run
#print axioms Afkak.Props.C09.C09_order
#print axioms Afkak.Props.C19.C19_wait_bound
#print axioms Afkak.Props.C19.C19_dispatch_iff

-- (1) send after stop: never fires, stays queued for ever
def cfgU : Cfg := Cfg.ofArgs 1 3 (1/4) false 1 1 none false
def evsAfterStop : List Ev :=
  [.metaSet 0 0 (some [0]), .stop false none [], .send 0 0 none [some 3], .tick, .timer 0, .advance 1000]
#eval (run cfgU (St.init cfgU) evsAfterStop).2
#eval (run cfgU (St.init cfgU) evsAfterStop).1.queue.map (·.sid)
#eval (run cfgU (St.init cfgU) evsAfterStop).1.outstanding
#eval (run cfgU (St.init cfgU) evsAfterStop).1.phase == .idle
