import AfkakProps.C01
import AfkakProps.C09
import AfkakProps.C19
open Afkak.Producer Afkak.Monitor.ProducerTrace

def cfgU : Cfg := Cfg.ofArgs 1 3 (1/4) false 1 1 none false
def cfg0 : Cfg := Cfg.ofArgs 0 3 (1/4) false 1 1 none false

def allMon (cfg : Cfg) (tr : List Step) : List (String × Bool) :=
  [("c01-once", Afkak.Monitor.C01.atMostOnce cfg tr), ("c01-acked", Afkak.Monitor.C01.successAcked cfg tr),
   ("c01-acks0", Afkak.Monitor.C01.acks0 cfg tr), ("c01-payloads", Afkak.Monitor.C01.payloads cfg tr),
   ("c01-resolved", Afkak.Monitor.C01.resolvedFired cfg tr),
   ("c09-order", Afkak.Monitor.C09.order cfg tr), ("c09-onebatch", Afkak.Monitor.C09.oneBatch cfg tr),
   ("c09-retry", Afkak.Monitor.C09.retryOnlyFailed cfg tr), ("c09-attempts", Afkak.Monitor.C09.attemptBound cfg tr),
   ("c09-geometric", Afkak.Monitor.C09.geometric cfg 0 tr),
   ("c19-accounting", Afkak.Monitor.C19.accounting cfg tr), ("c19-dispatch", Afkak.Monitor.C19.dispatchIff cfg tr),
   ("c19-cancel", Afkak.Monitor.C19.cancel cfg tr), ("c19-detach", Afkak.Monitor.C19.detach cfg tr),
   ("c19-stop", Afkak.Monitor.C19.stop cfg tr), ("c19-schedule", Afkak.Monitor.C19.schedule cfg tr)]

def sn (queue : List Sid) (mc bc : Int) (idle : Bool) (att : Int) (iv : Rat) (out : List Sid) : Snap :=
  { queue := queue, msgCount := mc, byteCount := bc, idle := idle, attempts := att, interval := iv, outstanding := out, looper := false }


/-! ### D. acks = 0, empty answer (request handed to the connection): the send FAILS (not NoResponse) -/
def trD : List Step :=
  [ { ev := .metaSet 0 0 (some [0]), obs := [], post := sn [] 0 0 true 0 (1/4) [] },
    { ev := .send 0 0 none [some 3], obs := [.produce 0 [⟨⟨0, 0⟩, [0]⟩]], post := sn [] 0 0 false 1 (1/4) [0] },
    { ev := .produceDone 0 .none, obs := [.fire 0 (.err .unavailable)], post := sn [] 0 0 true 0 (1/4) [] } ]
#eval (allMon cfg0 trD).filter (!·.2)

/-! ### E. batched, timer: a TICK dispatches a second batch while the first is in flight -/
def cfgT : Cfg := Cfg.ofArgs 1 3 (1/4) true 100 10000 (some 1) false
def snL (queue : List Sid) (mc bc : Int) (idle : Bool) (att : Int) (iv : Rat) (out : List Sid) : Snap :=
  { sn queue mc bc idle att iv out with looper := true }
def trE : List Step :=
  [ { ev := .metaSet 0 0 (some [0]), obs := [], post := snL [] 0 0 true 0 (1/4) [] },
    { ev := .send 0 0 none [some 3], obs := [], post := snL [0] 1 3 true 0 (1/4) [0] },
    { ev := .advance 1, obs := [], post := snL [0] 1 3 true 0 (1/4) [0] },
    { ev := .tick, obs := [.produce 0 [⟨⟨0, 0⟩, [0]⟩]], post := snL [] 0 0 false 1 (1/4) [0] },
    { ev := .cancel 0, obs := [.fire 0 (.err (.acancelled (some true)))], post := snL [] 0 0 false 1 (1/4) [] },
    { ev := .send 1 0 none [some 3], obs := [], post := snL [1] 1 3 false 1 (1/4) [1] },
    { ev := .advance 1, obs := [], post := snL [1] 1 3 false 1 (1/4) [1] },
    -- request 0 still unanswered; the tick sends batch 2
    { ev := .tick, obs := [.produce 1 [⟨⟨0, 0⟩, [1]⟩]], post := snL [] 0 0 false 1 (1/4) [1] } ]
#eval (allMon cfgT trE).filter (!·.2)
#eval (traceOf cfgT (trE.map (·.ev))).map (·.obs)
