import AfkakProps.C01
import AfkakProps.C09
import AfkakProps.C19
open Afkak.Producer Afkak.Monitor.ProducerTrace

def cfgU : Cfg := Cfg.ofArgs 1 3 (1/4) false 1 1 none false
def cfg0 : Cfg := Cfg.ofArgs 0 3 (1/4) false 1 1 none false

def allMon (cfg : Cfg) (tr : List Step) : List (String × Bool) :=
  [("c01-once", Afkak.Monitor.C01.atMostOnce cfg tr), ("c01-acked", Afkak.Monitor.C01.successAcked cfg tr),
   ("c01-acks0", Afkak.Monitor.C01.acks0 cfg tr), ("c01-payloads", Afkak.Monitor.C01.payloads cfg tr),
   ("c01-resolved", Afkak.Monitor.C01.resolvedFired cfg tr),
   ("c09-order", Afkak.Monitor.C09.order cfg tr), ("c09-onebatch", Afkak.Monitor.C09.oneBatch cfg tr),
   ("c09-retry", Afkak.Monitor.C09.retryOnlyFailed cfg tr), ("c09-attempts", Afkak.Monitor.C09.attemptBound cfg tr),
   ("c09-geometric", Afkak.Monitor.C09.geometric cfg 0 tr),
   ("c19-accounting", Afkak.Monitor.C19.accounting cfg tr), ("c19-dispatch", Afkak.Monitor.C19.dispatchIff cfg tr),
   ("c19-cancel", Afkak.Monitor.C19.cancel cfg tr), ("c19-detach", Afkak.Monitor.C19.detach cfg tr),
   ("c19-stop", Afkak.Monitor.C19.stop cfg tr), ("c19-schedule", Afkak.Monitor.C19.schedule cfg tr)]

def sn (queue : List Sid) (mc bc : Int) (idle : Bool) (att : Int) (iv : Rat) (out : List Sid) : Snap :=
  { queue := queue, msgCount := mc, byteCount := bc, idle := idle, attempts := att, interval := iv, outstanding := out, looper := false }


/-! ### F. acks = 0: payload B handed to its connection in attempt 1 is RE-SENT after a total failure of the retry of A -/
def evF : List Ev :=
  [ .metaSet 0 0 (some [0, 1]), .send 0 0 none [some 3], .send 1 0 none [some 4] ]
def cfgB0 : Cfg := Cfg.ofArgs 0 5 (1/4) true 2 0 none false
def evF2 : List Ev := evF ++
  [ .produceDone 0 (.failed [] [⟨⟨0, 0⟩, .unavailable, true⟩]), .timer 0,
    .produceDone 1 (.err .leaderUnavailable), .timer 1 ]
#eval (traceOf cfgB0 evF2).map (·.obs)
#eval (allMon cfgB0 (traceOf cfgB0 evF2)).filter (!·.2)
