import AfkakProps.C01
import AfkakProps.C09
import AfkakProps.C19
open Afkak.Producer Afkak.Monitor.ProducerTrace

def cfgU : Cfg := Cfg.ofArgs 1 3 (1/4) false 1 1 none false
def cfg0 : Cfg := Cfg.ofArgs 0 3 (1/4) false 1 1 none false

def allMon (cfg : Cfg) (tr : List Step) : List (String × Bool) :=
  [("c01-once", Afkak.Monitor.C01.atMostOnce cfg tr), ("c01-acked", Afkak.Monitor.C01.successAcked cfg tr),
   ("c01-acks0", Afkak.Monitor.C01.acks0 cfg tr), ("c01-payloads", Afkak.Monitor.C01.payloads cfg tr),
   ("c01-resolved", Afkak.Monitor.C01.resolvedFired cfg tr),
   ("c09-order", Afkak.Monitor.C09.order cfg tr), ("c09-onebatch", Afkak.Monitor.C09.oneBatch cfg tr),
   ("c09-retry", Afkak.Monitor.C09.retryOnlyFailed cfg tr), ("c09-attempts", Afkak.Monitor.C09.attemptBound cfg tr),
   ("c09-geometric", Afkak.Monitor.C09.geometric cfg 0 tr),
   ("c19-accounting", Afkak.Monitor.C19.accounting cfg tr), ("c19-dispatch", Afkak.Monitor.C19.dispatchIff cfg tr),
   ("c19-cancel", Afkak.Monitor.C19.cancel cfg tr), ("c19-detach", Afkak.Monitor.C19.detach cfg tr),
   ("c19-stop", Afkak.Monitor.C19.stop cfg tr), ("c19-schedule", Afkak.Monitor.C19.schedule cfg tr)]

def sn (queue : List Sid) (mc bc : Int) (idle : Bool) (att : Int) (iv : Rat) (out : List Sid) : Snap :=
  { queue := queue, msgCount := mc, byteCount := bc, idle := idle, attempts := att, interval := iv, outstanding := out, looper := false }

/-! ### A. TWO PRODUCE REQUESTS IN FLIGHT: batch 2 dispatched while batch 1's request is unanswered
(batch 1's only caller cancelled late, so "all sends of earlier requests have fired"). -/
def trA : List Step :=
  [ { ev := .metaSet 0 0 (some [0]), obs := [], post := sn [] 0 0 true 0 (1/4) [] },
    { ev := .send 0 0 none [some 3], obs := [.produce 0 [⟨⟨0, 0⟩, [0]⟩]], post := sn [] 0 0 false 1 (1/4) [0] },
    { ev := .cancel 0, obs := [.fire 0 (.err (.acancelled (some true)))], post := sn [] 0 0 false 1 (1/4) [] },
    -- the violation: a second batch goes out although request 0 is still unanswered
    { ev := .send 1 0 none [some 3], obs := [.produce 1 [⟨⟨0, 0⟩, [1]⟩]], post := sn [] 0 0 false 1 (1/4) [1] },
    { ev := .produceDone 1 (.responses [⟨⟨0, 0⟩, 0, 7⟩]), obs := [.fire 1 (.ok ⟨⟨0, 0⟩, 0, 7⟩)], post := sn [] 0 0 true 0 (1/4) [] } ]
#eval allMon cfgU trA
-- what the model does on the same events (second send is queued, not sent):
#eval (traceOf cfgU [.metaSet 0 0 (some [0]), .send 0 0 none [some 3], .cancel 0, .send 1 0 none [some 3]]).map (·.obs)

/-! ### B. acks = 0: a payload reported FAILED (not handed to a connection) is reported as success `None`
in a step that does not exhaust anything. -/
def trB : List Step :=
  [ { ev := .metaSet 0 0 (some [0, 1]), obs := [], post := sn [] 0 0 true 0 (1/4) [] },
    { ev := .send 0 0 none [some 3], obs := [.produce 0 [⟨⟨0, 0⟩, [0]⟩]], post := sn [] 0 0 false 1 (1/4) [0] },
    -- client: payload 0/0 FAILED (connection lost before it was written); attempts 1 < 3
    { ev := .produceDone 0 (.failed [] [⟨⟨0, 0⟩, .unavailable, true⟩]), obs := [.fire 0 .okNone],
      post := sn [] 0 0 true 0 (1/4) [] } ]
#eval allMon cfg0 trB
#eval (traceOf cfg0 [.metaSet 0 0 (some [0, 1]), .send 0 0 none [some 3],
        .produceDone 0 (.failed [] [⟨⟨0, 0⟩, .unavailable, true⟩])]).map (·.obs)

/-! ### C. an acknowledged send is NOT reported at once; it is failed later (ack swallowed). -/
def trC : List Step :=
  [ { ev := .metaSet 0 0 (some [0]), obs := [], post := sn [] 0 0 true 0 (1/4) [] },
    { ev := .send 0 0 none [some 3], obs := [.produce 0 [⟨⟨0, 0⟩, [0]⟩]], post := sn [] 0 0 false 1 (1/4) [0] },
    -- acknowledged, error 0 - but the Deferred is failed instead
    { ev := .produceDone 0 (.responses [⟨⟨0, 0⟩, 0, 7⟩]), obs := [.fire 0 (.err .noResponse)], post := sn [] 0 0 true 0 (1/4) [] } ]
#eval allMon cfgU trC
