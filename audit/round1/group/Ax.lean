import AfkakProps.C16
import AfkakProps.C17
open Afkak.Props
#print axioms C16.C16_fenced
#print axioms C16.C16_fenced_trace
#print axioms C16.C16_join_after_drain
#print axioms C16.C16_one_join
#print axioms C16.C16_heartbeat_only_stable
#print axioms C16.C16_commit_fencing
#print axioms C16.C16_no_join_after_stop_called
#print axioms C16.C16_eviction_stops_first
#print axioms C17.C17_never_idle_partial
#print axioms C17.C17_retriable_rejoins
#print axioms C17.C17_fatal_surfaces_on_replies
#print axioms C17.C17_rejoins_bounded_partial
#print axioms C17.C17_rejoins_bounded_counterexample
#print axioms C17.C17_fresh_after_eviction
