import AfkakProps.C16
import AfkakProps.C17
open Afkak.Group Afkak.Consts Afkak.Props

-- sanity: monitors do fail on the model trace of the F12 scenario
#eval Afkak.Monitor.C17.failing C17.exCfg (toMSteps (run C17.exCfg [.start, .coordDone (.err .nonKafka)]))

/-- the ORDINARY rebalance: stable, heartbeat answers RebalanceInProgress, rejoin timer fires,
    look-up + metadata ok -> on_join_prepare is shutting the consumers down -/
def rebalancing : List Ev := C16.exStable ++
  [.advance 5, .fire 0 none, .hbDone (.err .rebalanceInProgress), .advance (1/8), .fire 2 none, .coordDone .ok, .metaDone .ok]
#eval (final C17.exCfg rebalancing).jpc
#eval C17.eligible C17.exCfg rebalancing         -- false: C17_rejoins_bounded_partial says nothing here
#eval (final C17.exCfg (rebalancing ++ [.consumerDown 0 true])).jpc
#eval C17.eligible C17.exCfg (rebalancing ++ [.consumerDown 0 true])

-- a no-op error event (not enabled) also voids the hypothesis of never_idle_partial / eligible
#eval C17.noNonKafkaEscape [.start, .coordDone .ok, .coordDone (.err .nonKafka)]
#eval (step C17.exCfg (final C17.exCfg [.start, .coordDone .ok]) (.coordDone (.err .nonKafka))).2

-- user stop() while the rejoin is draining the previous generation: consumers are hard-stopped (no commit)
#eval (run C17.exCfg (rebalancing ++ [.stop])).getLast?.map (·.2.1)
-- restart after stop is inert
#eval (run C17.exCfg (rebalancing ++ [.stop, .leaveDone .ok, .start])).getLast?.map (fun x => (x.2.1, x.2.2.started, x.2.2.stopping, x.2.2.rejoinNeeded))
