import AfkakProps.C17
open Afkak.Group Afkak.Consts Afkak.Props
def rebalancing : List Ev := C16.exStable ++
  [.advance 5, .fire 0 none, .hbDone (.err .rebalanceInProgress), .advance (1/8), .fire 2 none, .coordDone .ok, .metaDone .ok]
#eval (run C17.exCfg (rebalancing ++ [.stop, .leaveDone .ok])).map (·.2.1) |>.reverse |>.take 3
