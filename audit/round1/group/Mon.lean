import Afkak.Monitor.C16
import Afkak.Monitor.C17
open Afkak.Group Afkak.Consts

def sn (started stopping jif needed hb hbif : Bool) (jt ht member : Nat) (gen : Option Int) (cons : List Con) : Snap :=
  { started, stopping, joinInFlight := jif, rejoinNeeded := needed, hbRunning := hb, hbInFlight := hbif, startFired := false,
    joinTimers := jt, hbTimers := ht, member, gen, cons }

def con (cid : Nat) (part : Int) (gen : Option Int) (member : Nat) (ph : Phase) (sf : Bool := false) : Con :=
  { cid, topic := 1, part, gen, member, phase := ph, held := ph == .running, startFired := sf }

def cfg : Cfg := { initialBackoffMs := 1000, retryBackoffMs := 125, fatalBackoffMs := 10000, heartbeatMs := 5000 }

/-- common prefix: become stable in generation 1 as member 1 with consumer 0 on (1,0) -/
def pre : List MStep := [
  ⟨.start, [.coordLookup], sn true false true true false false 0 0 0 none []⟩,
  ⟨.coordDone .ok, [.loadMeta], sn true false true true false false 0 0 0 none []⟩,
  ⟨.metaDone .ok, [.join 0], sn true false true true false false 0 0 0 none []⟩,
  ⟨.joinDone (.ok 1 1 false 0), [.sync (some 1) 1 0], sn true false true true false false 0 0 1 (some 1) []⟩,
  ⟨.syncDone (.ok [(1,[0])]), [.setTimer 0 .hb 5, .consumerStart 0 1 0 (some 1) 1 (-101)],
     sn true false false false true false 0 1 1 (some 1) [con 0 0 (some 1) 1 .running]⟩,
  ⟨.advance 5, [], sn true false false false true false 0 1 1 (some 1) [con 0 0 (some 1) 1 .running]⟩,
  ⟨.fire 0 none, [.heartbeat (some 1) 1, .setTimer 1 .hb 5], sn true false false false true true 0 1 1 (some 1) [con 0 0 (some 1) 1 .running]⟩ ]

/-! Exp 1 — the F21 trace (stale heartbeat failure clears the NEW member id between join reply and
sync reply; consumers started with member id 0 = ""): every C16 monitor accepts it. -/
def f21 : List MStep := pre ++ [
  ⟨.consumerErr 0 .unknownMemberId, [.consumerStop 0, .setTimer 2 .rejoin (1/8)],
     sn true false false true true true 1 1 0 (some 1) [con 0 0 (some 1) 1 .stopped true]⟩,
  ⟨.advance (1/8), [], sn true false false true true true 1 1 0 (some 1) [con 0 0 (some 1) 1 .stopped true]⟩,
  ⟨.fire 2 none, [.coordLookup], sn true false true true true true 0 1 0 (some 1) [con 0 0 (some 1) 1 .stopped true]⟩,
  ⟨.coordDone .ok, [.loadMeta], sn true false true true true true 0 1 0 (some 1) [con 0 0 (some 1) 1 .stopped true]⟩,
  ⟨.metaDone .ok, [.join 0], sn true false true true true true 0 1 0 (some 1) [con 0 0 (some 1) 1 .stopped true]⟩,
  ⟨.joinDone (.ok 2 2 false 0), [.sync (some 2) 2 0], sn true false true true true true 0 1 2 (some 2) [con 0 0 (some 1) 1 .stopped true]⟩,
  -- the late reply of heartbeat H1 (old generation): UnknownMemberId clears the NEW member id
  ⟨.hbDone (.err .unknownMemberId), [.cancelTimer 1, .setTimer 3 .rejoin (1/8)],
     sn true false true true false false 1 0 0 (some 2) [con 0 0 (some 1) 1 .stopped true]⟩,
  -- sync succeeds: consumer started with generation 2 and member id 0 (= "")
  ⟨.syncDone (.ok [(1,[0])]), [.setTimer 4 .hb 5, .consumerStart 1 1 0 (some 2) 0 (-101)],
     sn true false false false true false 1 1 0 (some 2) [con 0 0 (some 1) 1 .stopped true, con 1 0 (some 2) 0 .running]⟩ ]
#eval Afkak.Monitor.C16.failing f21     -- expect [] : accepted
#eval Afkak.Monitor.C17.failing cfg f21

/-! Exp 2 — a heartbeat sent AFTER a consumer reported IllegalGeneration (member evicted, consumers
stopped, rejoin wanted) when the step set no new rejoin timer (one was pending): accepted. -/
def hbAfterEviction : List MStep := pre ++ [
  ⟨.hbDone .ok, [], sn true false false false true false 1 1 1 (some 1) [con 0 0 (some 1) 1 .running]⟩,
  ⟨.consumerErr 0 .illegalGeneration, [.consumerStop 0],
     sn true false false true true false 1 1 1 (some 1) [con 0 0 (some 1) 1 .stopped true]⟩,
  ⟨.advance 5, [], sn true false false true true false 1 1 1 (some 1) [con 0 0 (some 1) 1 .stopped true]⟩,
  ⟨.fire 1 none, [.heartbeat (some 1) 1, .setTimer 2 .hb 5], sn true false false true true true 1 1 1 (some 1) [con 0 0 (some 1) 1 .stopped true]⟩ ]
#eval Afkak.Monitor.C16.failing hbAfterEviction   -- expect [] although rejoinNeeded = true in the snapshot before the heartbeat

/-! Exp 3 — rebalance where the previous generation's consumer is hard-STOPPED (no shutdown(), so no
final commit) before the rejoin: accepted; nothing checks "committing its progress". -/
def hardStop : List MStep := pre ++ [
  ⟨.hbDone (.err .rebalanceInProgress), [.cancelTimer 1, .setTimer 2 .rejoin (1/8)],
     sn true false false true false false 1 0 1 (some 1) [con 0 0 (some 1) 1 .running]⟩,
  ⟨.advance (1/8), [], sn true false false true false false 1 0 1 (some 1) [con 0 0 (some 1) 1 .running]⟩,
  ⟨.fire 2 none, [.coordLookup], sn true false true true false false 0 0 1 (some 1) [con 0 0 (some 1) 1 .running]⟩,
  ⟨.coordDone .ok, [.loadMeta], sn true false true true false false 0 0 1 (some 1) [con 0 0 (some 1) 1 .running]⟩,
  ⟨.metaDone .ok, [.consumerStop 0, .join 1], sn true false true true false false 0 0 1 (some 1) [con 0 0 (some 1) 1 .stopped true]⟩ ]
#eval Afkak.Monitor.C16.failing hardStop
#eval Afkak.Monitor.C17.failing cfg hardStop

/-! Exp 4 — within-step order: JoinGroup sent BEFORE the consumer is stopped in the same step. -/
def joinThenStop : List MStep := (hardStop.take (hardStop.length - 1)) ++ [
  ⟨.metaDone .ok, [.join 1, .consumerStop 0], sn true false true true false false 0 0 1 (some 1) [con 0 0 (some 1) 1 .stopped true]⟩ ]
#eval Afkak.Monitor.C16.failing joinThenStop

/-! Exp 5 — sync reply with a non-empty assignment but NO consumer started ("partitions consumed again"). -/
def noStart : List MStep := (pre.take 4) ++ [
  ⟨.syncDone (.ok [(1,[0,1])]), [.setTimer 0 .hb 5], sn true false false false true false 0 1 1 (some 1) []⟩ ]
#eval Afkak.Monitor.C16.failing noStart
#eval Afkak.Monitor.C17.failing cfg noStart

/-! Exp 6 — heartbeat/sync with stale ids are not looked at: heartbeat quoting generation 7 member 9. -/
def staleHb : List MStep := (pre.take 6) ++ [
  ⟨.fire 0 none, [.heartbeat (some 7) 9, .setTimer 1 .hb 5], sn true false false false true true 0 1 1 (some 1) [con 0 0 (some 1) 1 .running]⟩ ]
#eval Afkak.Monitor.C16.failing staleHb
