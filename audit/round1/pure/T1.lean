import AfkakProps.C04
import AfkakProps.C05
open Afkak Afkak.Wire Afkak.Monitor.C04

-- "implemented" includes version 1, for which the fetch response decoder always raises
example : implementedVersion 1 = some 1 := by decide
example : versionChosenOk [⟨1, 0, 1⟩] 1 1 = true := by decide
example (ext : Ext) (d : Nat) (data : Bytes) : (decodeFetchResponse ext d data 1) = ([], .error .unboundLocal) := by
  simp [decodeFetchResponse, Afkak.Consts.fetchRespV0Is, Afkak.Consts.fetchRespV2From]
-- a table that advertises only ApiVersions: producer writes format 1, request goes out as Produce v0
#eval (producerMagic (.table [⟨18,0,3⟩]), lookupVersion 0 (.table [⟨18,0,3⟩]))
#eval (producerMagic (.table [⟨0,0,1⟩]), lookupVersion 0 (.table [⟨0,0,1⟩]))
#print axioms Afkak.Props.C04.C04_produce_conforms
#print axioms Afkak.Props.C05.C05_gzip_roundtrip
