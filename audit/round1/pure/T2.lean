import Afkak.Monitor.C12
open Afkak.Monitor.C12 Afkak.WireCost
-- truncOk: two entries of 30 bytes, 45 bytes available => 1 complete
#eval truncOk [30,30] ["a","b"] 45 ["a"] none            -- expect true
#eval truncOk [30,30] ["a","b"] 45 ([] : List String) none            -- skipping: expect false
#eval truncOk [30,30] ["a","b"] 45 ["a","b"] none        -- expect false
#eval truncOk [30,30] ["a","b"] 20 ([] : List String) none            -- expect false (must be too-small)
#eval truncOk [30,30] ["a","b"] 20 ([] : List String) (some Err.fetchSizeTooSmall)  -- true
-- burstOk passes vacuously if msg's crc is wrong
#eval burstOk [0,0,0,0,0,0,0] [0,0,0,0,1,0,0] 0 ([] : List String) ["altered"] none
#eval refetchOk [5,6,7] 2 5 7 100 (some 400) 50 (some 100)   -- true
#eval refetchOk [5,6,7] 2 5 8 100 (some 400) 50 (some 100)   -- skip: false
#eval refetchOk [5,6,7] 0 5 5 100 (some 400) 50 (some 100)   -- no growth: false
