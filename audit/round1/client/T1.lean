import Afkak.ClientNet
import Afkak.Monitor.C07
open Afkak.ClientNet Afkak.ClientCache

def cfg : Cfg := { timeout := 10, disconnectOnTimeout := false, bootHosts := [("h", 1)] }
def b1 : Broker := ⟨1, "h1", 9092⟩
def env0 : Env := { shuffles := [[0], [0]] }
def envN (n : Nat) : Env := { shuffles := [List.range n, List.range n, [0]] }

-- load metadata via bootstrap, then a send, then reply
def evs : List (Env × Ev) := [
  ({ shuffles := [[], [0]] }, .load 0 []),
  ({}, .bootOk 0),
  ({}, .bootReply 0 (.metadata [b1] [⟨"t", 0, [⟨0, 0, 1⟩]⟩])),
  ({}, .send 1 [("t", 0)] none true true),
  ({}, .fire 0 (.ok (.items [(("t", 0), 0, 77)])))
]
#eval (traceOf cfg {} evs).filterMap (fun | .ob o => some (repr o) | _ => none)
#eval (Afkak.Monitor.C07.run cfg (traceOf cfg {} evs)).fails
#eval Afkak.Monitor.C07.ok cfg (traceOf cfg {} evs)

-- unavailable after close with no boot attempt
def evs2 : List (Env × Ev) := [ ({}, .close 0), ({}, .load 1 []) ]
#eval (traceOf cfg {} evs2).filterMap (fun | .ob o => some (repr o) | _ => none)
