import AfkakProps.C07
import AfkakProps.C08
import AfkakProps.C11
import AfkakProps.C20
#print axioms Afkak.Props.C07.C07_accounting
#print axioms Afkak.Props.C07.C07_routed_to_leader
#print axioms Afkak.Props.C08.C08_mirror
#print axioms Afkak.Props.C08.C08_invalidate
#print axioms Afkak.Props.C11.C11_bound
#print axioms Afkak.Props.C11.C11_nothing_overdue
#print axioms Afkak.Props.C11.C11_timer_released
#print axioms Afkak.Props.C20.C20_closed_for_ever
#print axioms Afkak.Props.C20.C20_no_connect_in_any_callback
#print axioms Afkak.Props.C20.C20_close_awaits_bootstrap_connections_counterexample
