import Afkak.ClientNet
import Afkak.Monitor.C07
import Afkak.Monitor.C11
import Afkak.Monitor.C20
open Afkak.ClientNet Afkak.ClientCache

def cfg : Cfg := { timeout := 10, disconnectOnTimeout := false, bootHosts := [("h", 1)] }

-- (1) two close() calls with the same op id
def evsA : List (Env × Ev) := [ ({}, .close 0), ({}, .close 0) ]
#eval (Afkak.Monitor.C20.run (traceOf cfg {} evsA)).fails
-- (1b) distinct ids
def evsA' : List (Env × Ev) := [ ({}, .close 0), ({}, .close 1) ]
#eval (Afkak.Monitor.C20.run (traceOf cfg {} evsA')).fails

-- (2) env without shuffle answers: the load hangs (badOp), then close
def evsB : List (Env × Ev) := [ ({}, .load 0 []), ({}, .close 1) ]
#eval (traceOf cfg {} evsB).filterMap (fun | .ob o => some (repr o) | _ => none)
#eval (Afkak.Monitor.C20.run (traceOf cfg {} evsB)).fails

-- (3) well-formed: load bootstrapping (connect pending), close
def evsC : List (Env × Ev) := [ ({ shuffles := [[], [0]] }, .load 0 []), ({}, .close 1) ]
#eval (traceOf cfg {} evsC).filterMap (fun | .ob o => some (repr o) | _ => none)
#eval (Afkak.Monitor.C20.run (traceOf cfg {} evsC)).fails
#eval (Afkak.Monitor.C20.run (traceOf cfg {} evsC)).bootFails

-- C11 open statement on ill-formed input: fire for unknown request, negative advance
def evsD : List (Env × Ev) := [ ({}, .fire 3 (.ok .none)), ({}, .advance (-1)) ]
#eval (Afkak.Monitor.C11.run cfg (traceOf cfg {} evsD)).fails
