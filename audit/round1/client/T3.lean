import Afkak.ClientNet
import Afkak.Monitor.C07
open Afkak.ClientNet Afkak.ClientCache

def cfg : Cfg := { timeout := 10, disconnectOnTimeout := false, bootHosts := [("h", 1)] }
def c1 : Cache := { brokers := [(1, ⟨1, "h1", 9092⟩), (2, ⟨2, "h2", 9092⟩)] }

-- a client that KNOWS brokers 1 and 2 but skips them: goes straight to the bootstrap host, then reports unavailable
def bad1 : List TItem := [
  .ev (.resetTopics []), .dump c1, .timers [],
  .ev (.load 0 []), .uop 0 0, .ob (.bootConnect 0 "h" 1), .battr 0 0, .dump c1, .timers [],
  .ev (.bootFail 0), .ob (.result 0 (.fail .unavailable)), .dump c1, .timers []
]
#eval (Afkak.Monitor.C07.run cfg bad1).fails   -- expected: a failure "bootstrap before every known broker was tried"

-- a group request (_send_request_to_coordinator) sent to a broker that is NOT the coordinator
def c2 : Cache := { brokers := [(1, ⟨1, "h1", 9092⟩), (2, ⟨2, "h2", 9092⟩)], groups := [("g", ⟨1, "h1", 9092⟩)] }
def bad2 : List TItem := [
  .ev (.resetTopics []), .dump c2, .timers [],
  .ev (.srtc 0 "g" none), .ob (.bcNew 0 2 "h2" 9092), .ob (.mk 0 0 true (.group "g")), .ob (.setTimer (.mrtb 0) 10), .dump c2, .timers [(.mrtb 0, 10)],
  .ev (.fire 0 (.ok (.simple 0))), .ob (.cancelTimer (.mrtb 0)), .ob (.result 0 (.simple 0)), .dump c2, .timers []
]
#eval (Afkak.Monitor.C07.run cfg bad2).fails

-- a send that fails with a broker error (fail_on_error): routing of its requests is never checked
def c3 : Cache := { brokers := [(1, ⟨1, "h1", 9092⟩), (2, ⟨2, "h2", 9092⟩)], t2b := [(("t", 0), some ⟨1, "h1", 9092⟩)], topicParts := [("t", [0])], topicErrs := [("t", 0)] }
def bad3 : List TItem := [
  .ev (.resetTopics []), .dump c3, .timers [],
  .ev (.send 0 [("t", 0)] none true true), .ob (.bcNew 0 2 "h2" 9092), .ob (.mk 0 0 true (.payloads [0] [("t", 0)])), .attr 0 0 [0], .dump c3, .timers [],
  .ev (.fire 0 (.ok (.items [(("t", 0), 1, 5)]))), .ob (.result 0 (.fail (.brokerError 1))), .dump c3, .timers []
]
#eval (Afkak.Monitor.C07.run cfg bad3).fails
#eval (Afkak.Monitor.C07.run cfg bad3).staleFails
