import Afkak.ClientNet
import Afkak.Monitor.C20
import Afkak.Monitor.C11
open Afkak.ClientNet Afkak.ClientCache

def c1 : Cache := { brokers := [(1, ⟨1, "h1", 9092⟩)], clients := [(1, ⟨1, "h1", 9092⟩)] }
def c1' : Cache := { brokers := [(1, ⟨1, "h1", 9092⟩)] }
-- a client with one live broker client (connected) whose close() never closes it: forgets it and fires the close Deferred at once
def leak : List TItem := [
  .ev (.load 0 []), .ob (.bcNew 0 1 "h1" 9092), .ob (.mk 0 0 true (.metadata [])), .ob (.setTimer (.mrtb 0) 10), .dump c1, .timers [(.mrtb 0, 10)],
  .ev (.conn 0 true),
  .ev (.close 1), .ob (.fired 0 (some .clientClosed)), .ob (.cancelTimer (.mrtb 0)), .ob (.result 0 (.fail .unavailable)), .ob (.closeFired 1), .dump c1', .timers []
]
#eval (Afkak.Monitor.C20.run leak).fails
#eval (Afkak.Monitor.C20.run leak).bootFails

-- C11: a request that times out but whose operation reports some other error kind; and no check that the result is timedOut
def cfg : Cfg := { timeout := 10, disconnectOnTimeout := false, bootHosts := [] }
def t11 : List TItem := [
  .ev (.srtc 0 "g" none), .ob (.mk 0 0 true (.group "g")), .ob (.setTimer (.mrtb 0) 10), .timers [(.mrtb 0, 10)],
  .ev (.advance 10), .ob (.bcCancel 0), .ob (.fired 0 (some .cancelled)), .ob (.result 0 (.fail (.other "Foo"))), .timers []
]
#eval (Afkak.Monitor.C11.run cfg t11).fails
#eval (Afkak.Monitor.C11.run cfg t11).extraFails
