import AfkakProps.C02
open Afkak.Consumer Afkak.Monitor Afkak.Props.Open.C02

def m (o : Int) : Msg := ⟨o, o.toNat⟩
def cfg0 : Cfg := { group := false, autoN := 0, autoS := 0, bufInit := 100, bufMax := none, retryInit := 1/4, retryMax := 2, maxAttempts := 0, reset := none }

-- The Pairwise in FaithfulLog relates ALL pairs, not adjacent ones: a perfectly faithful reply with 3 messages violates it.
example : ¬ ([m 0, m 1, m 2].Pairwise (fun a b => C02.succIn [m 0, m 1, m 2] a.off = some b)) := by
  decide

-- hence FaithfulLog is false for the dense log [0,1,2] served in one reply
example : ¬ FaithfulLog [m 0, m 1, m 2] cfg0 [] [.start 0, .fetchOk 0 ⟨[m 0, m 1, m 2], .done⟩] := by
  intro h
  have := (h 1 0 ⟨[m 0, m 1, m 2], .done⟩ (by decide) 0 100 (by decide +kernel)).2.1
  revert this
  decide
