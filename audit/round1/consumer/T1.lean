import AfkakProps.C02
import AfkakProps.C03
import AfkakProps.C13
import AfkakProps.C14
open Afkak.Consumer Afkak.Monitor

-- axioms
#print axioms Afkak.Props.C02.C02_increasing
#print axioms Afkak.Props.C02.C02_payload
#print axioms Afkak.Props.C03.C03_resume
#print axioms Afkak.Props.C13.C13_start_fires_at_most_once
#print axioms Afkak.Props.C13.C13_shutdown_waits_counterexample
#print axioms Afkak.Props.C14.C14_growth_trace

def m (o : Int) : Msg := ⟨o, o.toNat⟩

-- E1: increasingOk accepts a redelivery inside the first run (armed by start is never consumed by the first block)
#eval C02.increasingOk false [.ev (.start 0), .ob (.proc [m 0, m 1, m 2]), .ob (.proc [m 1, m 2])]
-- and a second one is rejected (so the monitor tolerates exactly one unexplained descent per start)
#eval C02.increasingOk false [.ev (.start 0), .ob (.proc [m 0, m 1, m 2]), .ob (.proc [m 1, m 2]), .ob (.proc [m 1, m 2])]
-- E1b: restart at a higher offset keeps armed: descent much later in second run
#eval C02.increasingOk false [.ev (.start 0), .ob (.proc [m 0]), .ob (.stopReturned none), .ev (.start 10), .ob (.proc [m 10]), .ob (.proc [m 11]),
   .ob (.proc [m 12]), .ob (.proc [m 10])]
-- E1c: out-of-range of a request with policy arms; a descent many blocks later is accepted
#eval C02.increasingOk true [.ev (.start 0), .ob (.proc [m 0]), .ob (.proc [m 0]), .ev (.fetchErr 3 .outOfRange 0), .ob (.proc [m 5]), .ob (.proc [m 6]), .ob (.proc [m 2])]

-- E2: increasingOk accepts omissions (gap) of course
#eval C02.increasingOk false [.ev (.start 0), .ob (.proc [m 0]), .ob (.proc [m 7])]

-- E3: payloadOk accepts "resurrection": message from a reply of an earlier run / dropped reply
#eval C02.payloadOk [.ev (.start 0), .ev (.fetchOk 0 ⟨[m 0, m 1], .done⟩), .ob (.proc [m 0]), .ob (.stopReturned none), .ev (.start 50), .ob (.proc [m 1])]
-- payloadOk: message with same offset, different payload flagged?
#eval C02.payloadOk [.ev (.start 0), .ev (.fetchOk 0 ⟨[m 0, m 1], .done⟩), .ob (.proc [⟨0, 99⟩])]

-- E4: noOverlapOk does not flag nested invocation (proc inside proc, before procRet)
#eval C02.noOverlapOk [.ev (.start 0), .ob (.proc [m 0]), .ob (.proc [m 1]), .ob (.procRet .ok), .ob (.procRet .ok)]
-- and procCancel clears pending: invocation right after cancel
#eval C02.noOverlapOk [.ev (.start 0), .ob (.proc [m 0]), .ob (.procRet .defer), .ob .procCancel, .ob (.proc [m 1])]

-- E5: C13_shutdown_waits_partial is about any list: a trace that cancels the processor during a shutdown w/o stop
#eval C13.shutdownInprocOk true [.ev (.start 0), .ob (.proc [m 0]), .ob (.procRet .defer), .ev .shutdown, .ob .procCancel, .ob (.shutdownFired (.ok none))]
#eval C13.shutdownOk true [.ev (.start 0), .ob (.proc [m 0]), .ob (.procRet .defer), .ev .shutdown, .ob .procCancel, .ob (.shutdownFired (.ok none))]

-- E6: firesOnceOk accepts a run that never fires
#eval C13.firesOnceOk [.ev (.start 0), .ob (.stopReturned none), .ev (.start 0), .ob (.stopReturned none)]
