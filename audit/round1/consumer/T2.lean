import AfkakProps.C02
import AfkakProps.C03
import AfkakProps.C13
import AfkakProps.C14
open Afkak.Consumer Afkak.Monitor

def m (o : Int) : Msg := ⟨o, o.toNat⟩
def cfgG : Cfg := { group := true, autoN := 0, autoS := 0, bufInit := 100, bufMax := none, retryInit := 1/4, retryMax := 2, maxAttempts := 0, reset := none }

def obs (tr : List Item) : List Item := tr.filter fun | .ob (.probe _ _) => false | _ => true

-- A: stop() with a commit in flight whose cancel the client swallows; the commit later fails with a retriable KafkaError
def evsA : List Ev := [.start 0, .fetchOk 0 ⟨[m 0], .done⟩, .commit, .stop, .commitErr 1 .kafka 7, .advance 10, .commitRetryFire]
#eval obs (trace cfgG [] evsA)
#eval C13.quiescentOk (trace cfgG [] evsA)
#eval C03.oneInFlightOk (trace cfgG [] evsA)

-- B: same, then restart and commit() while the cancelled request is still outstanding -> crash
def evsB : List Ev := [.start 0, .fetchOk 0 ⟨[m 0], .done⟩, .commit, .stop, .start 1, .fetchOk 2 ⟨[m 1], .done⟩, .commit, .commitOk 1, .fetchOk 3 ⟨[m 2], .done⟩]
#eval obs (trace cfgG [] evsB)
#eval (run cfgG [] evsB).crashed
