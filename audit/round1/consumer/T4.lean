import AfkakProps.C03
import AfkakProps.C14
open Afkak.Consumer Afkak.Monitor

def m (o : Int) : Msg := ⟨o, o.toNat⟩
def obs (tr : List Item) : List Item := tr.filter fun | .ob (.probe _ _) => false | _ => true

-- C03: commitLeProcessedOk accepts "block [0] failed, block [1] succeeded, commit 1" (covers an unprocessed message)
#eval C03.commitLeProcessedOk [.ev (.start 0), .ob (.proc [m 0]), .ob (.procRet (.err .other 1)), .ob (.proc [m 1]), .ob (.procRet .ok), .ob (.commitReq 5 1)]
-- C03: resumeOk accepts a run whose first delivered message is not c+1 (only the request offset is looked at)
#eval C03.resumeOk [.ev (.start (-101)), .ob (.offsetFetch 0), .ev (.offsetFetchOk 0 41), .ob (.fetch 1 42 100), .ob (.proc [m 40, m 41])]

-- C14: attempt limit 2: after ONE success, a single failure is fatal (the immediate refetch after a success counts as an attempt)
def cfgL : Cfg := { group := false, autoN := 0, autoS := 0, bufInit := 100, bufMax := none, retryInit := 1/4, retryMax := 2, maxAttempts := 2, reset := none }
#eval obs (trace cfgL [] [.start 0, .fetchOk 0 ⟨[m 0], .done⟩, .retryFire, .fetchErr 1 .kafka 3])
-- versus at start: two failures needed
#eval obs (trace cfgL [] [.start 0, .fetchErr 0 .kafka 3, .advance 1, .retryFire, .fetchErr 1 .kafka 4])
#eval C14.attemptsOk 2 none (trace cfgL [] [.start 0, .fetchOk 0 ⟨[m 0], .done⟩, .retryFire, .fetchErr 1 .kafka 3])
