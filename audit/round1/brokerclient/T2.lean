import AfkakProps.C06
import AfkakProps.C10
open Afkak.Frame Afkak.BrokerClient

namespace A
open Afkak.Monitor.C06
-- frame: id 5, echo serial 0
def fr : Bytes := [0,0,0,5, 0,0,0,0,0,0,0,0]
def chunk : Bytes := [0,0,0,12] ++ fr
-- request serial0 id5 written, cancelled; reply fires serial 1 (another request) : routing must reject
#eval routesOk [(.make 5 true, [.connect 1 2]), (.make 6 true, []), (.connOk, [.write 0 0 5, .write 0 1 6]),
  (.bytesIn chunk, [.fire 1 6 (.ok fr)])]
-- same but honest
#eval routesOk [(.make 5 true, [.connect 1 2]), (.make 6 true, []), (.connOk, [.write 0 0 5, .write 0 1 6]),
  (.bytesIn chunk, [.fire 0 5 (.ok fr)])]
-- frames shorter than 12 bytes are unconstrained by routing
#eval routesOk [(.make 5 true, [.connect 1 2]), (.make 6 true, []), (.connOk, [.write 0 0 5, .write 0 1 6]),
  (.bytesIn [0,0,0,4,0,0,0,5], [.fire 1 6 (.ok [0,0,0,5])])]
-- but the core monitor rejects that one
#eval accepts [(.make 5 true, [.connect 1 2]), (.make 6 true, []), (.connOk, [.write 0 0 5, .write 0 1 6]),
  (.bytesIn [0,0,0,4,0,0,0,5], [.fire 1 6 (.ok [0,0,0,5])])]
end A

namespace B
open Afkak.Monitor.C10
def pol : Nat → Rat := fun n => n
-- wrong resend order
#eval accepts pol 1 2 [(.make 5 true, [.connect 1 2]), (.make 6 true, []), (.connOk, [.write 0 0 5, .write 0 1 6]),
  (.lost, [.connect 1 2]), (.connOk, [.write 1 1 6, .write 1 0 5])]
-- correct
#eval accepts pol 1 2 [(.make 5 true, [.connect 1 2]), (.make 6 true, []), (.connOk, [.write 0 0 5, .write 0 1 6]),
  (.lost, [.connect 1 2]), (.connOk, [.write 1 0 5, .write 1 1 6])]
-- nothing resent
#eval accepts pol 1 2 [(.make 5 true, [.connect 1 2]), (.make 6 true, []), (.connOk, [.write 0 0 5, .write 0 1 6]),
  (.lost, [.connect 1 2]), (.connOk, [])]
-- no reconnect though pending
#eval accepts pol 1 2 [(.make 5 true, [.connect 1 2]), (.connOk, [.write 0 0 5]), (.lost, [])]
-- wrong backoff
#eval accepts pol 1 2 [(.make 5 true, [.connect 1 2]), (.connFail, [.setTimer 2])]
-- early retry
#eval accepts pol 1 2 [(.make 5 true, [.connect 1 2]), (.connFail, [.setTimer 1]), (.advance (1/2), [.connect 1 2])]
-- failure count not reset after success: second round should arm policy 1 again
#eval accepts pol 1 2 [(.make 5 true, [.connect 1 2]), (.connFail, [.setTimer 1]), (.advance 1, [.connect 1 2]), (.connOk, [.write 0 0 5]),
   (.lost, [.connect 1 2]), (.connFail, [.setTimer 2])]
-- idle reconnect without request
#eval accepts pol 1 2 [(.make 5 false, [.connect 1 2]), (.connOk, [.write 0 0 5, .fire 0 5 .none]), (.lost, []), (.advance 1, [.connect 1 2])]
-- r10 (re-entrant monitor) on wrong order / nothing resent / no reconnect
open Afkak.BrokerClientR in
#eval r10 [(.make 5 true none, [.ob (.connect 1 2), .made 0 5]), (.make 6 true none, [.made 1 6]), (.flat .connOk, [.ob (.write 0 0 5), .ob (.write 0 1 6)]),
  (.flat .lost, [.ob (.connect 1 2)]), (.flat .connOk, [.ob (.write 1 1 6), .ob (.write 1 0 5)])]
open Afkak.BrokerClientR in
#eval r10 [(.make 5 true none, [.ob (.connect 1 2), .made 0 5]), (.flat .connOk, [.ob (.write 0 0 5)]),
  (.flat .lost, []), (.flat (.advance 7), [.ob (.connect 9 9)])]
end B
