import random, sys
sys.path.insert(0, '/verif')
from harness.lib import brokerclient_gen as G
from harness.lib.brokerclient_drive import instrumented
rng = random.Random(12345)
n = 0; nonflat = 0; stub = 0; sync = 0; hook = 0; hookran = 0
flat_with_resend = 0
profiles = ["replies", "replies", "drops", "close"]
with instrumented():
    for i in range(1500):
        profile = rng.choice(profiles)
        header = G.gen_header(rng)
        nids = rng.choice([1, 2, 2, 3, 4, 6])
        ml = rng.choice([6, 12, 20, 30, 45])
        on = G.Online(rng, header, profile, nids, ml)
        try:
            header, events, obs, run = on.generate()
        except Exception as ex:
            print("exc", ex); continue
        n += 1
        s = any(e.startswith("stubborn") for e in events)
        y = any(e.startswith("sync") for e in events)
        h = any(" hook " in e for e in events)
        hr = any(o.startswith("hook") for ol in obs for o in ol)
        stub += s; sync += y; hook += h; hookran += hr
        if s or y or h or hr: nonflat += 1
print("scenarios", n, "skipped-by-flat-monitors", nonflat, "stubborn", stub, "sync", sync, "hookreg", hook, "hookran", hookran)
