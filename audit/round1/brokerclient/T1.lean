import AfkakProps.C06
import AfkakProps.C10
open Afkak.Frame Afkak.BrokerClient Afkak.Monitor.C06

#print axioms Afkak.Props.C06.C06_exactly_once
#print axioms Afkak.Props.C06.C06_reentrant
#print axioms Afkak.Props.C10.C10_resend_exact
#print axioms Afkak.Props.C10.C10_reentrant
#print axioms Afkak.Props.C06.C06_bootstrap_single

-- 1. the C06 monitor is a safety monitor: a trace where a request is made, connected, never answered, is accepted
#eval accepts [(.make 5 true, [.connect 1 2]), (.connOk, [.write 0 0 5])]
-- response with id 5 arrives, and the implementation fires nothing: must reject
#eval accepts [(.make 5 true, [.connect 1 2]), (.connOk, [.write 0 0 5]), (.bytesIn [0,0,0,4,0,0,0,5], [])]
-- lost fires a deferred with clientError: must reject
#eval accepts [(.make 5 true, [.connect 1 2]), (.connOk, [.write 0 0 5]), (.lost, [.fire 0 5 (.err .clientError), .connect 1 2])]
-- r06 accepts both of the above bad behaviours (safety only)
open Afkak.BrokerClientR in
#eval r06 [(.make 5 true none, [.ob (.connect 1 2), .made 0 5]), (.flat .connOk, [.ob (.write 0 0 5)]), (.flat (.bytesIn [0,0,0,4,0,0,0,5]), [])]
open Afkak.BrokerClientR in
#eval r06 [(.make 5 true none, [.ob (.connect 1 2), .made 0 5]), (.flat .connOk, [.ob (.write 0 0 5)]), (.flat .lost, [.ob (.fire 0 5 (.err .clientError)), .ob (.connect 1 2)])]
-- r06: a reply with id 5 fires a DIFFERENT live request whose id is 5? (ids unique) ; a reply fires a request never written
open Afkak.BrokerClientR in
#eval r06 [(.make 5 true none, [.ob (.connect 1 2), .made 0 5]), (.flat .close, [.closing, .ob .cancelConnect, .ob .down])]
