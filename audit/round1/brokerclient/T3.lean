import AfkakProps.C06
import AfkakProps.C10
open Afkak.Frame Afkak.BrokerClient

-- (a) general chunking-independence, derivable from the helper lemma (not an obligation)
example (chunks : List Bytes) :
    (feedAll [] chunks).frames = (feed [] chunks.flatten).frames ∧
    (feedAll [] chunks).exceeded = (feed [] chunks.flatten).exceeded := by
  obtain ⟨h1, h2, _⟩ := feedAllWith_eq_parse Afkak.Consts.kafkaMaxLength chunks [] (stuck_nil _)
  simp only [feedAll, feed, feedWith_eq_parse, List.nil_append] at *
  exact ⟨h1, h2⟩

-- (b) closure: after any run that ends in `close`, every Deferred handed out has fired (derivable, not stated)
example (cfg : Cfg) (host port : Nat) (evs : List Ev) (hc : (run cfg (St.init host port) evs).closed = true) :
    ∀ k, k < (run cfg (St.init host port) evs).nmake → k ∈ Afkak.Monitor.C06.firedOf (trace cfg (St.init host port) evs) := by
  intro k hk
  obtain ⟨_, _, _, h4⟩ := Afkak.Props.C06.C06_exactly_once cfg host port evs
  have hs := sinv_run cfg (St.init host port) evs (sinv_init host port)
  have he := hs.closedEmpty hc
  have := (h4 k hk)
  rw [he] at this
  apply Classical.byContradiction
  intro hn
  have h' := this.mpr hn
  simp at h'

-- (c) bootstrap monitor: double firing / wrong frame rejected?
open Afkak.Monitor.C06 in
#eval bootAccepts false [(.request [0,3,0,0,0,0,0,2], [.write 0]), (.bytesIn [0,0,0,4,0,0,0,2], [.fire 0 (.ok [0,0,0,2])]), (.lost, [.fire 0 .connLost])]
open Afkak.Monitor.C06 in
#eval bootAccepts false [(.request [0,3,0,0,0,0,0,2], [.write 0]), (.bytesIn [0,0,0,4,0,0,0,2], [.fire 0 (.ok [0,0,0,2])]), (.lost, [])]
-- never completes: lost but the request does not fire
open Afkak.Monitor.C06 in
#eval bootAccepts false [(.request [0,3,0,0,0,0,0,2], [.write 0]), (.lost, [])]
