"""Writes MANIFEST.json from the table below (kept in one place so it is always valid)."""
import json
import os

VERIF = os.path.dirname(os.path.dirname(os.path.abspath(__file__)))

def load_claims():
    """harness/claims/<ID>.json: {text, design_ref, note, technique} for every property that has a check."""
    d = os.path.join(VERIF, "harness", "claims")
    out = {}
    for fn in sorted(os.listdir(d)):
        if fn.endswith(".json"):
            out[fn[:-5]] = json.load(open(os.path.join(d, fn)))
    return out


CLAIMED = load_claims()

NOT_APPLICABLE = {}

ALL = ["C%02d" % i for i in range(1, 21)]


def main():
    checks = []
    for pid in ALL:
        if pid not in CLAIMED:
            continue
        c = CLAIMED[pid]
        checks.append({
            "property_id": pid,
            "quick_cmd": "./check %s --tier quick" % pid,
            "thorough_cmd": "./check %s --tier thorough" % pid,
            "evidence_file": "evidence/%s.json" % pid,
            "replay_cmd_template": "./check %s --replay {path}" % pid,
            "engine": "lean4-model+correspondence",
            "level_claimed": {"category": "proof", "text": c["text"], "design_ref": c["design_ref"]},
            "level_note": c["note"],
            "technique": c["technique"],
        })
    na = [{"property_id": pid, "reason": NOT_APPLICABLE.get(pid, "not yet built in this round: model, theorems and correspondence for this property are planned in DESIGN.md §3 but no check exists yet, so it is not claimed")} for pid in ALL if pid not in CLAIMED]
    m = {
        "version": 1,
        "setup_cmd": "./setup.sh",
        "hooks": {
            "guard": "AFKAK_VERIF",
            "enable": "no source hooks are needed; checks import /repo's working tree in-process (PYTHONPATH=/repo) and inject reactor/endpoints/processors through constructors",
            "baseline_off_cmd": "cd /repo && /venv/bin/python -m pytest -q -p no:cacheprovider --timeout=900",
            "source_commits": [],
            "add_only": True,
        },
        "engines": [{
            "name": "lean4-model+correspondence",
            "path": "lean/ (models, proofs, property theorems, driver) + harness/ (extractor, correspondence, monitors)",
            "serves_properties": sorted(CLAIMED),
            "kind_free_text": "hand-written executable Lean 4 model with machine-checked theorems; tied to /repo on every run by regenerated constants and by differential execution of model vs implementation; Lean-defined monitors evaluated on implementation traces",
        }],
        "checks": checks,
        "not_applicable": na,
        "notes": "Exit 0 held / 1 VIOLATION / 2 could not decide. VERIF_SEED and VERIF_TIER honoured. Known findings: known_findings.json.",
    }
    with open(os.path.join(VERIF, "MANIFEST.json"), "w") as fh:
        json.dump(m, fh, indent=1)
        fh.write("\n")


if __name__ == "__main__":
    main()
