"""C18 - partitioners: correspondence of afkak/partitioner.py with Afkak/Partitioner.lean + monitors."""
import warnings

from harness.core import Result  # noqa: F401

COMPONENTS = ["partitioner"]  # model drivers this check needs (lake targets model_<c>)
CONSTS = ["partitioner", "partgen", "client"]  # C18_listing_* are about Afkak.ClientCache.mergeTopic (imports the client's generated constants)
TRUSTED = [
    "Java murmur2 transcription (Afkak/Murmur.lean: murmur2Java), tested against the Java client's own UtilsTest vectors by `decide +kernel`",
    "model of sorted()/itertools.cycle as insertion sort / rotating list",
    "cross-layer stage: the simulated cluster (harness/sim/cluster.py) and its request log / metadata responses as ground truth of what the client was told and where messages were carried",
]
ASSUMPTIONS = ["key length < 2^32 (a Java array cannot be longer)", "fairness is stated for ascending lists, as the property does"]


def hx(b):
    return b.hex() if b else "-"


def ints(l):
    return ",".join(str(x) for x in l) if l else "-"


def gen_key(rng, i):
    mode = rng.randrange(6)
    if i < 68:
        n = i  # every length 0..67 once
    elif mode == 0:
        n = rng.randrange(0, 9)
    elif mode == 1:
        n = rng.randrange(60, 300)
    elif mode == 2:
        n = rng.choice([1023, 1024, 1025, 4095, 4099, 65537])
    else:
        n = rng.randrange(0, 40)
    hi = rng.random() < 0.5
    b = bytearray(rng.randrange(128, 256) if (hi and rng.random() < 0.7) else rng.randrange(0, 256) for _ in range(n))
    if n and rng.random() < 0.5:
        # force a byte >= 0x80 into each tail position
        for k in range(1, (n % 4) + 1):
            b[-k] = rng.randrange(128, 256)
    return bytes(b)


def gen_text(rng):
    # precomposed, astral, boundary code points AND text that is not in any Unicode normal form
    # (combining marks, conjoining Hangul jamo, compatibility/singleton code points): the key's
    # bytes are its UTF-8 encoding as is - no normalisation
    alphabet = ["a", "Z", "0", " ", "é", "ß", "슬", "듢", "芬", "\U0001F600", "\U00010348", "\u0000", "߿", "ࠀ", "￿",
                "e\u0301", "A\u030a", "\u212b", "\u1112\u1161\u11ab", "\ufb01", "\u2126", "o\u0323\u0302", "\u0344", "\ue188"]
    t = "".join(rng.choice(alphabet) for _ in range(rng.randrange(0, 12)))
    if rng.random() < 0.03:
        t += "\ud800"  # lone surrogate: bytearray(key, "UTF-8") raises UnicodeEncodeError
    return t


def gen_parts(rng, allow_empty=False):
    mode = rng.randrange(5)
    n = rng.randrange(0 if allow_empty else 1, 9)
    if mode == 0:
        ps = list(range(n))
    elif mode == 1:
        ps = sorted(rng.sample(range(0, 40), n))
    elif mode == 2:
        ps = [rng.randrange(0, 12) for _ in range(n)]  # unsorted, maybe duplicates
    elif mode == 3:
        ps = sorted(rng.sample(range(-5, 100000), n))
    else:
        ps = list(range(n))
        rng.shuffle(ps)
    return ps


def hashed_cases(ctx, res, n):
    """Real pure_murmur2 / HashedPartitioner vs model; monitor hashOk on the real outputs."""
    import afkak.partitioner as P

    rng = ctx.rng
    lines, expect, meta = [], [], []
    hp = P.HashedPartitioner("t", [0])
    with warnings.catch_warnings():
        warnings.simplefilter("ignore")
        for i in range(n):
            kind = rng.choice(["bytes", "bytes", "bytearray", "text"])
            if kind == "text":
                t = gen_text(rng)
                key_obj, kb = t, t.encode("utf-8", "surrogatepass")
            else:
                kb = gen_key(rng, i)
                key_obj = bytearray(kb) if kind == "bytearray" else kb
            ps = gen_parts(rng, allow_empty=(rng.random() < 0.03))
            h = P.pure_murmur2(bytearray(kb))
            lines.append("murmur " + hx(kb)); expect.append(["int %d" % h]); meta.append(("murmur", kb, None))
            if kind == "text" and any(0xD800 <= ord(c) <= 0xDFFF for c in t):
                res.count("text_key_lone_surrogate")
            try:
                r = hp.partition(key_obj, ps)
                o = "int %d" % r
            except (ZeroDivisionError, UnicodeEncodeError):
                r, o = None, "error"
            if kind == "text":
                # the model gets the CODE POINTS and encodes them itself (its own RFC 3629 encoder)
                cps = ints([ord(c) for c in t])
                lines.append("hashed-text %s %s" % (cps, ints(ps))); expect.append([o]); meta.append(("hashed", kb, ps))
                if r is not None:
                    lines.append("mon-hash-text %s %s %d" % (cps, ints(ps), r)); expect.append(["ok"]); meta.append(("mon-hash", kb, ps, r))
                    res.count("text_key_monitored")
            else:
                lines.append("hashed %s %s" % (hx(kb), ints(ps))); expect.append([o]); meta.append(("hashed", kb, ps))
                if r is not None:
                    lines.append("mon-hash %s %s %d" % (hx(kb), ints(ps), r)); expect.append(["ok"]); meta.append(("mon-hash", kb, ps, r))
            res.evaluations += 1
            res.count("key_len_mod4=%d" % (len(kb) % 4)); res.count("key_kind=" + kind)
            if any(x >= 0x80 for x in kb[len(kb) & ~3:]):
                res.count("tail_has_high_byte")
            if len(kb) >= 4:
                res.nontrivial(["hash", kb.hex(), ps])
            res.sample({"op": "hashed", "key_hex": kb.hex(), "kind": kind, "partitions": ps, "impl": o, "murmur": h})
    got = ctx.model("partitioner", lines)
    for l, e, g, m in zip(lines, expect, got, meta):
        if e != g:
            if m[0] == "mon-hash":
                res.monitor_failures.append({"what": "hashed partitioner result differs from the Java client's choice", "scenario": {"key_hex": m[1].hex(), "partitions": m[2], "impl_result": m[3]}, "tags": ["hash-not-java"]})
            else:
                res.disagreements.append({"component": "partitioner", "request": l, "impl": e, "model": g})
    res.traces_validated += n


class ScriptedRandint:
    def __init__(self):
        self.next = 0
        self.used = False

    def __call__(self, a, b):
        self.used = True
        if a > b:
            raise ValueError("empty range for randrange()")
        return a + (self.next % (b - a + 1))


def rr_history(P, rng, random_start):
    """One history of selections. Returns (model lines, impl outputs, windows for the monitor)."""
    sr = ScriptedRandint()
    P.randint = sr
    P.RoundRobinPartitioner.set_random_start(random_start)
    lines, outs, windows = [], [], []
    members = []
    errors = [0]
    stale_mut = rr_history.stale_mut = [0]
    try:
        ps = gen_parts(rng, allow_empty=(rng.random() < 0.05))
        sr.next = rng.randrange(0, 16)
        start = str(sr.next % max(len(ps), 1)) if random_start else "-"
        ctor_obj = list(ps)
        stale = [ctor_obj]  # list objects handed to the partitioner EARLIER; their owner may change them later
        try:
            p = P.RoundRobinPartitioner("t", ctor_obj)
            lines.append("rr-new %s %s" % (ints(ps), start)); outs.append(["ok"])
        except ValueError:
            lines.append("rr-new %s %s" % (ints(ps), start)); outs.append(["error"])
            return lines, outs, windows, members
        # `cur` is ONE list object handed to every call; the list changes either by replacement
        # (new object) or IN PLACE (same object mutated by its owner between selections)
        cur, run = list(ps), []
        for _ in range(rng.randrange(1, 7)):
            r = rng.random()
            if r < 0.32:
                stale.append(cur)
                cur = gen_parts(rng, allow_empty=(rng.random() < 0.03))
                run = []
            elif r < 0.5:
                # the caller hands an EQUAL list in a new object from now on and its owner changes an object
                # handed earlier (appends / removes / prepends an id): the list the partitioner is GIVEN is
                # unchanged, so the cycle goes on (selections depend only on the lists supplied)
                stale.append(cur)
                cur = list(cur)
                for old in rng.sample(stale, rng.randrange(1, len(stale) + 1)):
                    op = rng.randrange(3)
                    if op == 0:
                        old.append((max(old) if old else 0) + rng.randrange(1, 4))
                    elif op == 1 and old:
                        old.pop(rng.randrange(len(old)))
                    else:
                        old.insert(0, (min(old) if old else 0) - rng.randrange(1, 4))
                stale_mut[0] += 1
            elif r < 0.75 and cur:
                op = rng.randrange(3)
                if op == 0:
                    cur.append(max(cur) + rng.randrange(1, 4))
                elif op == 1 and len(cur) > 1:
                    cur.pop(rng.randrange(len(cur)))
                else:
                    cur.insert(0, min(cur) - rng.randrange(1, 4))
                run = []
            n = len(cur)
            for _ in range(rng.choice([1, 2, n, 2 * n, 3 * n, n + 1]) or 1):
                sr.next = rng.randrange(0, 16)
                start = str(sr.next % max(n, 1)) if random_start else "-"
                lines.append("rr-pick %s %s" % (ints(cur), start))
                try:
                    x = p.partition(None, cur)
                except (StopIteration, ValueError):
                    # the partitioner object survives the exception (it stored the new list before
                    # raising): keep going, the model does the same (rrAfterError)
                    outs.append(["error"])
                    run = []
                    errors[0] += 1
                    if errors[0] > 3:
                        return lines, outs, windows, members
                    break
                outs.append(["int %d" % x])
                run.append(x)
                members.append((list(cur), x))
                # every window of k*n consecutive picks with the list unchanged, if it is ascending
                if n and cur == sorted(cur):
                    for k in (1, 2):
                        if len(run) >= k * n:
                            windows.append((list(cur), run[-k * n:]))
    finally:
        P.RoundRobinPartitioner.set_random_start(False)
    return lines, outs, windows, members


def rr_cases(ctx, res, n):
    import afkak.partitioner as P

    orig = P.randint
    try:
        for i in range(n):
            rs = ctx.rng.random() < 0.5
            lines, outs, windows, members = rr_history(P, ctx.rng, rs)
            mon = ["mon-rr %s %s" % (ints(ps), ints(w)) for ps, w in windows]
            mon2 = ["mon-member %s %d" % (ints(ps), x) for ps, x in members]
            got = ctx.model("partitioner", lines + mon + mon2)
            res.evaluations += 1
            res.count("rr_random_start=%s" % rs); res.count("rr_calls", len(lines) - 1); res.count("rr_windows", len(windows))
            res.count("rr_calls_raising", sum(1 for o in outs if o == ["error"]))
            res.count("rr_owner_changes_a_list_object_handed_earlier", rr_history.stale_mut[0])
            res.count("rr_calls_after_a_raise", sum(1 for k, o in enumerate(outs) if ["error"] in outs[:k]))
            if len(lines) > 3:
                res.nontrivial(lines)
            res.sample({"op": "rr-history", "random_start": rs, "lines": lines[:8], "impl": outs[:8]}, limit=5)
            if got[: len(lines)] != outs:
                j = next(k for k in range(len(lines)) if got[k] != outs[k])
                res.disagreements.append({"component": "partitioner", "scenario": lines[: j + 1], "impl": outs[j], "model": got[j]})
            for (ps, w), g in zip(windows, got[len(lines):]):
                if g != ["ok"]:
                    res.monitor_failures.append({"what": "round-robin window is not fair", "scenario": {"partitions": ps, "window": w, "history": lines}, "tags": ["rr-unfair"]})
            for (ps, x), g in zip(members, got[len(lines) + len(mon):]):
                if g != ["ok"]:
                    res.monitor_failures.append({"what": "round-robin selection is not a member of the supplied list", "scenario": {"partitions": ps, "selected": x, "history": lines}, "tags": ["rr-not-member"]})
            res.traces_validated += 1
    finally:
        P.randint = orig


class StubClient(object):
    """The part of KafkaClient that Producer._next_partition touches, with good metadata."""

    def __init__(self, reactor):
        self.reactor = reactor
        self.topic_partitions = {}

    def metadata_error_for_topic(self, topic):
        return 0


def producer_cases(ctx, res, n):
    """Real Producer._next_partition (one partitioner per topic, current list passed in) vs model."""
    import afkak.partitioner as P
    from afkak.producer import Producer
    from twisted.internet import defer
    from twisted.internet.task import Clock

    rng = ctx.rng
    orig = P.randint
    batch, expects, metas = [], [], []
    try:
        for i in range(n):
            rs = rng.random() < 0.4
            sr = ScriptedRandint()
            P.randint = sr
            P.RoundRobinPartitioner.set_random_start(rs)
            client = StubClient(Clock())
            prod = Producer(client, partitioner_class=P.RoundRobinPartitioner)
            topics = ["t%d" % k for k in range(rng.randrange(1, 4))]
            lists = {t: gen_parts(rng) for t in topics}
            lines, outs, per_topic = ["prod-reset"], [["ok"]], {t: [] for t in topics}
            windows = []
            keypool = [b"dev-%d" % k for k in range(rng.randrange(1, 4))]
            seen_keys = {t: set() for t in topics}
            nerr = 0
            for _ in range(rng.randrange(2, 30)):
                t = rng.choice(topics)
                if rng.random() < 0.12:
                    # (rarely an EMPTY list: the call raises, the producer object lives on and so does the history)
                    lists[t] = gen_parts(rng, allow_empty=(rng.random() < 0.25))
                    per_topic[t] = []
                cur = lists[t]
                client.topic_partitions[t] = list(cur)
                sr.next = rng.randrange(0, 16)
                start = str(sr.next % max(len(cur), 1)) if rs else "-"
                lines.append("prod-next %s %s %s" % (t, ints(cur), start))
                # the round-robin partitioner is handed keys and ignores them: unkeyed calls, calls with
                # fresh keys and calls whose key REPEATS all consume exactly one selection
                key = None if rng.random() < 0.4 else rng.choice(keypool) if rng.random() < 0.7 else b"k%d" % rng.randrange(1 << 20)
                res.count("producer_call_key=" + ("none" if key is None else "repeated" if key in seen_keys[t] else "first-use"))
                seen_keys[t].add(key)
                # whatever _next_partition returns (a Deferred on the unchanged tree) is an observation
                d = defer.maybeDeferred(prod._next_partition, t, key)
                r = []
                d.addCallbacks(r.append, lambda f: r.append(f))
                if not r or not isinstance(r[0], int) or isinstance(r[0], bool):
                    # the call raised: the Producer (and the partitioner it stored, if any) survives - keep going, the
                    # model does the same (nextPartitionRRAfterError)
                    outs.append(["error"])
                    per_topic[t] = []
                    nerr += 1
                    res.count("producer_calls_raising")
                    if nerr > 3:
                        break
                    continue
                if nerr:
                    res.count("producer_calls_after_a_raise")
                outs.append(["int %d" % r[0]])
                per_topic[t].append(r[0])
                nn = len(cur)
                if nn and cur == sorted(cur) and len(per_topic[t]) >= nn:
                    windows.append((list(cur), per_topic[t][-nn:]))
            mon = ["mon-rr %s %s" % (ints(ps), ints(w)) for ps, w in windows]
            batch.append((lines, outs, windows, mon))
            res.evaluations += 1
            res.count("producer_histories"); res.count("producer_calls", len(lines) - 1); res.count("producer_topics=%d" % len(topics))
            if len(topics) > 1 and len(lines) > 4:
                res.nontrivial(lines)
            res.sample({"op": "producer-next-partition", "random_start": rs, "lines": lines[:8], "impl": outs[:8]}, limit=7)
    finally:
        P.randint = orig
        P.RoundRobinPartitioner.set_random_start(False)
    all_lines = [l for b in batch for l in b[0] + b[3]]
    got = ctx.model("partitioner", all_lines)
    pos = 0
    for lines, outs, windows, mon in batch:
        g = got[pos:pos + len(lines)]
        gm = got[pos + len(lines):pos + len(lines) + len(mon)]
        pos += len(lines) + len(mon)
        if g != outs:
            j = next(k for k in range(len(lines)) if g[k] != outs[k])
            res.disagreements.append({"component": "partitioner/producer", "scenario": lines[: j + 1], "impl": outs[j], "model": g[j]})
        for (ps, w), x in zip(windows, gm):
            if x != ["ok"]:
                res.monitor_failures.append({"what": "per-topic round-robin window (through Producer._next_partition) is not fair", "scenario": {"partitions": ps, "window": w, "history": lines}, "tags": ["rr-unfair-producer"]})
        res.traces_validated += 1


class FlowClient(object):
    """Fake client for driving the real Producer through sends, broker errors and retries.
    Only the interface Producer uses; produce Deferreds (and, for a topic whose metadata the client
    does not have yet, the metadata loads) are completed by the scenario."""

    def __init__(self, reactor):
        self.reactor = reactor
        self.topic_partitions = {}
        self._api_versions = 0
        self.pending = []  # (payloads, deferred)
        self.resets = 0
        self.on_send = None
        self.meta_err = {}  # topic -> error code while the client has no good metadata for it
        self.meta_pending = []  # (topics, deferred): metadata loads the producer is waiting for
        self.loads = 0

    def metadata_error_for_topic(self, topic):
        return self.meta_err.get(topic, 0)

    def load_metadata_for_topics(self, *topics):
        from twisted.internet import defer

        self.loads += 1
        if not any(self.meta_err.get(t) for t in topics):
            return defer.succeed(None)
        d = defer.Deferred()
        self.meta_pending.append((topics, d))
        return d

    def reset_topic_metadata(self, *topics):
        self.resets += 1

    def send_produce_request(self, payloads, acks=1, timeout=1000, fail_on_error=True, callback=None):
        from twisted.internet import defer

        d = defer.Deferred()
        self.pending.append((list(payloads), d))
        if self.on_send is not None:
            self.on_send(payloads)
        return d


def producer_flow_cases(ctx, res, n, seeds=None):
    """The real Producer (stock round-robin / hashed partitioner) through sends - unbatched and BATCHED,
    unkeyed and keyed with keys that repeat within a batch -, topics whose metadata arrives only after
    the batch was dispatched, per-partition broker errors, retries and metadata resets.  Judged on the
    partition NAMED BY THE PRODUCE PAYLOAD that carried each send's message:
      round robin: it is what `nextPartitionRR` yields for the sends of the topic in order (errors and
                   retries select nothing, a key selects like no key) and every window is fair;
      hashed:      it is the Java client's choice for THAT send's key (hashOk)."""
    import afkak.partitioner as P
    from afkak.common import ProduceResponse
    from afkak.producer import Producer
    from twisted.internet.task import Clock

    import random

    P.RoundRobinPartitioner.set_random_start(False)
    batch = []
    for i in range(n):
        # every history has a seed of its own: a failing one is re-run from it (replay)
        fseed = seeds[i] if seeds is not None else ctx.rng.randrange(1 << 30)
        rng = random.Random(fseed)
        clock = Clock()
        client = FlowClient(clock)
        hashed = rng.random() < 0.35
        nb = rng.choice([None, None, 2, 3, 4, 6])
        kw = dict(batch_send=True, batch_every_n=nb, batch_every_b=0, batch_every_t=5) if nb else {}
        prod = Producer(client, partitioner_class=P.HashedPartitioner if hashed else P.RoundRobinPartitioner, max_req_attempts=50, **kw)
        topics = ["t%d" % k for k in range(rng.randrange(1, 3))]
        lists = {t: sorted(rng.sample(range(0, 9), rng.randrange(2, 6))) for t in topics}
        cold = rng.random() < 0.35
        fail_left = {}
        for t in topics:
            if cold:
                client.meta_err[t] = 3
                fail_left[t] = rng.choice([0, 0, 1, 2])
            else:
                client.topic_partitions[t] = list(lists[t])
        keypool = [bytes(rng.randrange(256) for _ in range(rng.choice([1, 3, 4, 6, 9]))) for _ in range(rng.randrange(1, 4))]
        sends = []  # (topic, key) in send order
        chosen = {}  # send index -> partition
        dispatched_lists = {}
        sid = 0

        def note_payloads(payloads, client=client, chosen=chosen, dispatched_lists=dispatched_lists):
            for pl in payloads:
                for m in pl.messages:
                    k = int(m.value[1:])
                    if k not in chosen:
                        chosen[k] = pl.partition
                        dispatched_lists[k] = list(client.topic_partitions[pl.topic])

        def answer_metadata(client=client, fail_left=fail_left, lists=lists):
            # every load the producer waits for is answered at once, in order, one outcome per topic
            waiting, client.meta_pending = client.meta_pending, []
            outcome = {}
            for tps, _d in waiting:
                for t in tps:
                    if t not in outcome:
                        outcome[t] = fail_left.get(t, 0) <= 0
                        if not outcome[t]:
                            fail_left[t] -= 1
            for t, ok in outcome.items():
                if ok:
                    client.topic_partitions[t] = list(lists[t])
                    client.meta_err[t] = 0
            for _tps, d in waiting:
                d.callback(None)

        client.on_send = note_payloads
        for _ in range(rng.randrange(4, 26)):
            r = rng.random()
            if client.meta_pending and r < 0.3:
                answer_metadata()
                res.count("flow_metadata_arrives_after_dispatch")
                clock.advance(60)
            elif r < 0.6 or not client.pending:
                t = rng.choice(topics)
                if hashed:
                    key = rng.choice(keypool) if rng.random() < 0.6 else bytes(rng.randrange(256) for _ in range(rng.randrange(0, 12)))
                else:
                    key = None if rng.random() < 0.4 else rng.choice(keypool) if rng.random() < 0.75 else b"u%d" % sid
                sends.append((t, key))
                d = prod.send_messages(t, key=key, msgs=[b"m%d" % sid])
                d.addErrback(lambda f: None)
                sid += 1
            else:
                payloads, d = client.pending.pop(0)
                code = rng.choice([0, 0, 6, 3, 6])
                d.callback([ProduceResponse(pl.topic, pl.partition, code if j == 0 else 0, 10) for j, pl in enumerate(payloads)])
                if code:
                    res.count("flow_error_%d" % code)
                    clock.advance(60)  # retry timer fires: the failed payloads are re-sent
        # drain: answer everything, let the batch timer flush what waits
        for _ in range(200):
            if client.meta_pending:
                answer_metadata()
            elif client.pending:
                payloads, d = client.pending.pop(0)
                d.callback([ProduceResponse(pl.topic, pl.partition, 0, 10) for pl in payloads])
            elif not getattr(prod, "_batch_reqs", None) and not getattr(prod, "_batch_send_d", None):
                break
            clock.advance(60)
        lines, outs, per_topic, windows, hmon = ["prod-reset"], [["ok"]], {t: [] for t in topics}, [], []
        in_batch_repeat = 0
        for k, (t, key) in enumerate(sends):
            if k not in chosen:
                break
            ps = dispatched_lists[k]
            if hashed:
                lines.append("hashed %s %s" % (hx(key), ints(ps)))
                outs.append(["int %d" % chosen[k]])
                hmon.append((key, ps, chosen[k]))
                continue
            lines.append("prod-next %s %s -" % (t, ints(ps)))
            outs.append(["int %d" % chosen[k]])
            per_topic[t].append(chosen[k])
            nn = len(ps)
            if len(per_topic[t]) >= nn:
                windows.append((ps, per_topic[t][-nn:]))
        if nb:
            for b0 in range(0, len(sends), nb):
                ks = [x for x in sends[b0:b0 + nb] if x[1] is not None]
                in_batch_repeat += len(ks) - len(set(ks))
        mon = ["mon-rr %s %s" % (ints(ps), ints(w)) for ps, w in windows] + ["mon-hash %s %s %d" % (hx(key), ints(ps), p) for key, ps, p in hmon]
        batch.append((lines, outs, windows, mon, hmon, fseed))
        res.evaluations += 1
        res.count("flow_histories"); res.count("flow_sends", len(sends)); res.count("flow_resets", client.resets)
        res.count("flow_partitioner=" + ("hashed" if hashed else "rr")); res.count("flow_batch_every_n=%s" % nb)
        res.count("flow_cold_start=%s" % cold); res.count("flow_keyed_sends", sum(1 for _t, key in sends if key is not None))
        res.count("flow_same_key_again_within_a_batch", in_batch_repeat)
        if (client.resets or nb or cold) and len(sends) > 3:
            res.nontrivial(lines + [client.resets])
        res.sample({"op": "producer-flow", "partitioner": "hashed" if hashed else "rr", "batch_every_n": nb, "cold": cold,
                    "sends": [(t, None if key is None else key.hex()) for t, key in sends[:10]],
                    "chosen": [chosen.get(k) for k in range(min(10, len(sends)))], "metadata_resets": client.resets}, limit=9)
    got = ctx.model("partitioner", [l for b in batch for l in b[0] + b[3]])
    pos = 0
    for lines, outs, windows, mon, hmon, fseed in batch:
        g = got[pos:pos + len(lines)]
        gm = got[pos + len(lines):pos + len(lines) + len(mon)]
        pos += len(lines) + len(mon)
        for (ps, w), x in zip(windows, gm):
            if x != ["ok"]:
                res.monitor_failures.append({"what": "per-topic round-robin window is not fair across batches / keyed sends / broker errors / retries / metadata resets (list unchanged)", "scenario": {"flow_seed": fseed, "partitions": ps, "window": w, "history": lines}, "tags": ["rr-unfair-producer-flow"]})
        for (key, ps, p), x in zip(hmon, gm[len(windows):]):
            if x != ["ok"]:
                res.monitor_failures.append({"what": "a keyed message sent through the Producer (hashed partitioner) was carried to another partition than the Java client's choice for its key",
                                             "scenario": {"flow_seed": fseed, "key_hex": key.hex(), "partitions": ps, "impl_result": p, "history": lines}, "tags": ["hash-not-java-producer-flow"]})
        if g != outs:
            j = next(k for k in range(len(lines)) if g[k] != outs[k])
            res.disagreements.append({"component": "partitioner/producer-flow", "flow_seed": fseed, "scenario": lines[: j + 1], "impl": outs[j], "model": g[j]})
        res.traces_validated += 1


def rr_script(P, script):
    """A stored round-robin history (corpus key "c18_rr"): {"new": [ids], "ops": [{"hand": [ids]} - hand a NEW list object
    with this content and select once | {"pick": n} - select n more times with the object handed last |
    {"mutate": k, "op": "append"|"pop"|"insert0", "value": v} - the owner of the k-th object handed so far (0 = the
    constructor's) changes it in place]}.  -> (model lines, impl outputs, windows, members) like rr_history."""
    P.RoundRobinPartitioner.set_random_start(False)
    objs = [list(script["new"])]
    lines, outs, windows, members, run = ["rr-new %s -" % ints(objs[0])], [["ok"]], [], [], []
    p = P.RoundRobinPartitioner("t", objs[0])
    cur = objs[0]
    for op in script["ops"]:
        if "mutate" in op:
            o = objs[op["mutate"]]
            if op["op"] == "append":
                o.append(op["value"])
            elif op["op"] == "pop":
                o.pop(op.get("value", -1))
            else:
                o.insert(0, op["value"])
            if o is cur:
                run = []
            continue
        n = 1
        if "hand" in op:
            if list(op["hand"]) != list(cur):
                run = []
            cur = list(op["hand"])
            objs.append(cur)
        else:
            n = op["pick"]
        for _ in range(n):
            lines.append("rr-pick %s -" % ints(cur))
            try:
                x = p.partition(None, cur)
            except (StopIteration, ValueError):
                outs.append(["error"])
                run = []
                continue
            outs.append(["int %d" % x])
            run.append(x)
            members.append((list(cur), x))
            nn = len(cur)
            if nn and cur == sorted(cur) and len(run) >= nn:
                windows.append((list(cur), run[-nn:]))
    return lines, outs, windows, members


def rr_corpus_cases(ctx, res):
    """stored round-robin histories (corpus/partitioner/*.json, key "c18_rr"): model comparison + windowFair + member"""
    import json
    import os

    import afkak.partitioner as P
    from harness.core import VERIF

    d = os.path.join(VERIF, "corpus", "partitioner")
    for fn in sorted(os.listdir(d)) if os.path.isdir(d) else []:
        if not fn.endswith(".json"):
            continue
        for script in json.load(open(os.path.join(d, fn))).get("c18_rr", []):
            lines, outs, windows, members = rr_script(P, script)
            mon = ["mon-rr %s %s" % (ints(ps), ints(w)) for ps, w in windows]
            mon2 = ["mon-member %s %d" % (ints(ps), x) for ps, x in members]
            got = ctx.model("partitioner", lines + mon + mon2)
            res.evaluations += 1
            res.traces_validated += 1
            res.count("rr:corpus-histories")
            res.nontrivial(["rr-corpus", script])
            if got[: len(lines)] != outs:
                j = next(k for k in range(len(lines)) if got[k] != outs[k])
                res.disagreements.append({"component": "partitioner", "scenario": lines[: j + 1], "impl": outs[j], "model": got[j], "script": script})
            for (ps, w), g in zip(windows, got[len(lines):]):
                if g != ["ok"]:
                    res.monitor_failures.append({"what": "round-robin window is not fair", "scenario": {"rr_script": script, "partitions": ps, "window": w}, "tags": ["rr-unfair"]})
            for (ps, x), g in zip(members, got[len(lines) + len(mon):]):
                if g != ["ok"]:
                    res.monitor_failures.append({"what": "round-robin selection is not a member of the supplied list", "scenario": {"rr_script": script, "partitions": ps, "selected": x}, "tags": ["rr-not-member"]})


def corpus_cases(ctx, res):
    """stored cross-layer scenarios (corpus/partitioner/*.json, key "c18_xl") run first"""
    import json
    import os

    from harness.core import VERIF
    from harness.lib import xl_c18, xl_run

    d = os.path.join(VERIF, "corpus", "partitioner")
    if not os.path.isdir(d):
        return
    judged = []
    import collections

    hist = collections.Counter()
    for fn in sorted(os.listdir(d)):
        if fn.endswith(".json"):
            for script in json.load(open(os.path.join(d, fn))).get("c18_xl", []):
                r = xl_run.run_script(script)
                judged.append(xl_c18.judge(r, hist))
                res.evaluations += 1
                res.count("xl:corpus-scenarios")
    xl_c18.evaluate(ctx, res, judged)


def run(ctx, res):
    from harness.lib import xl_c18
    from harness.lib.xl5_guard import guarded

    res.rule = ("hashed: random keys (every length 0..67, long, high bytes in every tail position, text vs UTF-8) x partition lists; "
                "non-trivial = key of >= 4 bytes (exercises the chunk loop). round-robin: random histories of selections with list "
                "changes, random/fixed start (randint scripted); non-trivial = history of > 2 selections. cross-layer (xl): the real "
                "Producer over the real KafkaClient over the simulated cluster, metadata listing partitions in arbitrary order / partly "
                "leaderless / growing / re-ordered, broker errors, leader moves, restarts, lost answers; non-trivial = a run in which a "
                "monitor was evaluated on a message that reached a broker. distinct = by content hash.")
    # a stage that trips over an implementation which no longer offers what it drives is a broken
    # correspondence (exit 1), not a crash of the check; the other stages still run
    guarded(res, "partitioner/corpus", corpus_cases, ctx, res)
    guarded(res, "partitioner/rr-corpus", rr_corpus_cases, ctx, res)
    guarded(res, "partitioner/hashed", hashed_cases, ctx, res, ctx.scale(1500, 40000))
    guarded(res, "partitioner/rr", rr_cases, ctx, res, ctx.scale(400, 6000))
    guarded(res, "partitioner/producer", producer_cases, ctx, res, ctx.scale(300, 5000))
    guarded(res, "partitioner/producer-flow", producer_flow_cases, ctx, res, ctx.scale(400, 6000))
    guarded(res, "partitioner/xl", xl_c18.stage, ctx, res, ctx.scale(2000, 40000))


def search(ctx, res, broken):
    """A proof or the correspondence broke: look for an input on which the property itself fails."""
    from harness.lib.xl5_guard import guarded

    r2 = Result()
    guarded(r2, "partitioner/hashed", hashed_cases, ctx, r2, ctx.scale(4000, 60000))
    guarded(r2, "partitioner/rr", rr_cases, ctx, r2, ctx.scale(1000, 10000))
    guarded(r2, "partitioner/producer", producer_cases, ctx, r2, ctx.scale(1000, 10000))
    guarded(r2, "partitioner/producer-flow", producer_flow_cases, ctx, r2, ctx.scale(1000, 10000))
    if not r2.monitor_failures:
        from harness.lib import xl_c18

        guarded(r2, "partitioner/xl", xl_c18.stage, ctx, r2, ctx.scale(3000, 40000))
    return r2.monitor_failures[:3]


def replay(ctx, data):
    import afkak.partitioner as P

    f = data.get("failure", {})
    sc = f.get("scenario", {})
    if isinstance(sc, dict) and sc.get("xl") == "c18":
        from harness.lib import xl_c18

        rc = xl_c18.replay(ctx, sc)
        if rc:
            print("VIOLATION property=C18 replay=(this file)")
        else:
            print("scenario passes on the current tree")
        return rc
    print("replay:", sc)
    if isinstance(sc, dict) and "rr_script" in sc:
        lines, outs, windows, members = rr_script(P, sc["rr_script"])
        got = ctx.model("partitioner", lines + ["mon-rr %s %s" % (ints(ps), ints(w)) for ps, w in windows] + ["mon-member %s %d" % (ints(ps), x) for ps, x in members])
        bad = False
        for l, o, g in zip(lines, outs, got):
            print("  %-40s impl %s model %s%s" % (l, o, g, "" if o == g else "   <-- DIFFERENT"))
        for (ps, w), g in zip(windows, got[len(lines):]):
            if g != ["ok"]:
                bad = True
                print("  FAIL: window %r of list %r is not fair" % (w, ps))
        for (ps, x), g in zip(members, got[len(lines) + len(windows):]):
            if g != ["ok"]:
                bad = True
                print("  FAIL: selected %r is not a member of the supplied list %r" % (x, ps))
        print("VIOLATION property=C18 replay=(this file)" if bad else "scenario passes on the current tree")
        return 1 if bad else 0
    if isinstance(sc, dict) and "flow_seed" in sc:
        r = Result()
        producer_flow_cases(ctx, r, 1, seeds=[sc["flow_seed"]])
        for mf in r.monitor_failures:
            print("  FAIL:", mf["what"], {k: v for k, v in mf["scenario"].items() if k != "history"})
        for d in r.disagreements:
            print("  model and implementation disagree:", d)
        if r.monitor_failures:
            print("VIOLATION property=C18 replay=(this file)")
            return 1
        print("scenario passes on the current tree")
        return 0
    if "key_hex" in sc:
        kb = bytes.fromhex(sc["key_hex"])
        with warnings.catch_warnings():
            warnings.simplefilter("ignore")
            r = P.HashedPartitioner("t", [0]).partition(kb, sc["partitions"])
        g = ctx.model("partitioner", ["mon-hash %s %s %d" % (hx(kb), ints(sc["partitions"]), r), "hashed %s %s" % (hx(kb), ints(sc["partitions"]))])
        print("impl result", r, "monitor", g[0], "model", g[1])
        if g[0] != ["ok"]:
            print("VIOLATION property=C18 replay=(this file)")
            return 1
    return 0
