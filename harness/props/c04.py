"""C04 - every request on the wire conforms to the Kafka protocol grammar.

Correspondence: the REAL primitives of afkak/_util.py, the message / message-set encoders, `create_*`
and every `KafkaCodec.encode_*` against the compiled Lean model (`model_wire`), byte for byte and
exception class for exception class, on type-directed generated arguments.
Monitor: `Afkak.Monitor.C04` (the frame parses under the independent grammar `Afkak/Wire/Spec.lean`,
completely, to exactly the caller's values) evaluated by the driver on every frame the REAL encoders
emitted; the same frames are re-encoded by the independent Python codec `harness/sim/refcodec.py`
(second opinion, and a cross-check of the two grammars).
Version selection: the REAL `KafkaClient` discovers versions over the simulated network
(`harness/sim/world.py`) from generated tables; the produce / fetch frames it then writes and the
replies it decodes are put to the monitors.
"""
import json
import os
import struct
import zlib

from harness.core import VERIF, Result
from harness.lib import wire_common as W
from harness.lib import wire_reqs as Q
from harness.lib import xl_c04
from harness.lib.wire_common import vr

COMPONENTS = ["wire"]
CONSTS = ["wire", "wiregen"]  # "wiregen": the model terms regenerated from the AST (harness/consts/wiregen.py), proved equal to the hand-written model
TRUSTED = [
    "harness/lib/wire_translate.py (Python AST -> Lean translator for the typed, exception-raising functions of _util.py / kafkacodec.py; documented subset, nothing dropped silently except the guards it lists in the generated file) and the library primitives its terms are written in (Afkak/Wire/Primitives.lean + GenPrims.lean: struct pack/unpack/calcsize incl. %s repeat counts, slicing, encode/decode, dict/defaultdict, nativeString, the generator monad Y): the C0x_generated_*_eq_model obligations are about the terms it emits",
    "the Kafka protocol grammar as written in Afkak/Wire/Spec.lean (from the protocol guide) and, independently, in harness/sim/refcodec.py; the two are cross-checked on every run",
    "Afkak.Wire.Crc.crc32 (table-driven CRC-32 used to RUN the model) is compared with zlib.crc32 on every run; the theorems hold for any checksum function",
    "CPython struct / bytes slicing / dict ordering as modelled in Afkak/Wire/Primitives.lean; Python str is represented by its UTF-8 bytes",
    "gzip is an external: the real gzip_encode/gzip_decode answers are recorded and handed to the model",
    "cross-layer stage: the simulated cluster (harness/sim/cluster.py) parses every received frame strictly with refcodec under the header's version; its request log is the ground truth of what the brokers received and answered",
]
ASSUMPTIONS = [
    "int arguments are Python ints, text arguments are str or None, byte arguments are bytes or None (no other Python types are generated)",
    "a str given to an encoder is encodable as UTF-8 (no lone surrogates)",
    "snappy is not installed: the snappy branches raise NotImplementedError on both sides and are not exercised further",
    "the monitor is evaluated on arguments the grammar can represent (non-null required strings, magic-1 messages only in Produce v2); a payload list naming one (topic, partition) twice is refused by the encoders (ValueError, finding F18 repaired) - model and code must both refuse; other out-of-range arguments are checked by correspondence only",
]

CORPUS_DIR = os.path.join(VERIF, "corpus", "wire")
FORMATS = [">hhih", ">qi", ">BB", ">I", ">BBq", ">IBB", ">q", ">ihi", ">hhh", ">i", ">hii", ">ii", ">ihq", ">ihqq", ">iiii", ">iqi",
           ">iii", ">h", ">hiii", ">ih", ">iq", ">iqq", ">hi", ">b", ">H", ">Q", ">bB", ">"]


# --------------------------------------------------------------------------- scenario construction

class Sink(object):
    """Accumulates model request lines with what is expected of each answer."""

    def __init__(self):
        self.lines, self.kinds, self.expect, self.scen = [], [], [], []

    def state(self, line):
        self.lines.append(line); self.kinds.append("state"); self.expect.append(None); self.scen.append(None)

    def corr(self, line, expect, scen):
        self.lines.append(line); self.kinds.append("corr"); self.expect.append(expect); self.scen.append(scen)

    def mon(self, line, scen, tags):
        self.lines.append(line); self.kinds.append("mon"); self.expect.append(tags); self.scen.append(scen)


def fmt_b(fmt):
    return "b" + fmt.encode("ascii").hex()


def prim_scenarios(rng, n):
    """[(scenario dict)] for the primitives of _util.py / struct."""
    out = []
    for _ in range(n):
        k = rng.randrange(9)
        if k == 0:
            fmt = rng.choice(FORMATS)
            body = fmt[1:] if fmt[:1] in "<>!=" else fmt
            nargs = sum(1 for c in body if c in "bBhHiIqQ")
            if rng.random() < 0.1:
                nargs += rng.choice([-1, 1])
            vals = []
            for j in range(max(nargs, 0)):
                c = ([ch for ch in body if ch in "bBhHiIqQ"] + ["i"] * 4)[j]
                bits = {"b": 8, "h": 16, "i": 32, "q": 64}[c.lower()]
                vals.append(W.gen_int(rng, bits, c.islower(), p_bad=0.1))
            out.append({"op": "pack", "fmt": fmt, "vals": vals})
        elif k == 1:
            fmt = rng.choice(FORMATS)
            data = bytes(rng.getrandbits(8) for _ in range(rng.randrange(0, 30)))
            cur = rng.choice([0, 0, 1, 2, rng.randrange(-5, 35), len(data), len(data) - 4, -len(data), -1])
            out.append({"op": "runpack", "fmt": fmt, "data": data.hex(), "cur": cur})
        elif k == 2:
            cnt = rng.choice([0, 1, 2, 3, 5, -1, -3, 2 ** 31 - 1, 10 ** 6])
            data = bytes(rng.getrandbits(8) for _ in range(rng.randrange(0, 30)))
            out.append({"op": "runpackn", "tmpl": rng.choice([">%di", ">%si", ">%dh", ">%dq"]), "n": cnt, "data": data.hex(), "cur": rng.choice([0, 1, 4, -2, len(data)])})
        elif k in (3, 4):
            which = rng.choice(["rsb", "ris", "rsa", "rst"])
            w = 4 if which == "ris" else 2
            payload = rng.choice([b"", b"abc", "héé".encode(), b"\xff\xfe", b"\xed\xa0\x80", b"\xf4\x90\x80\x80", b"\xc0\xaf", "😀".encode(), b"\xe0\xa0", b"x" * 40])
            ln = rng.choice([len(payload), len(payload), -1, -2, -8, 0, len(payload) + 1, len(payload) - 1, 32767, -32768, 2 ** 31 - 1])
            lo, hi = -(1 << (8 * w - 1)), (1 << (8 * w - 1)) - 1
            ln = max(lo, min(hi, ln))
            pre = bytes(rng.getrandbits(8) for _ in range(rng.choice([0, 0, 3])))
            data = pre + ln.to_bytes(w, "big", signed=True) + payload + rng.choice([b"", b"zz"])
            if rng.random() < 0.15:
                data = data[: rng.randrange(0, len(data) + 1)]
            out.append({"op": which, "data": data.hex(), "cur": rng.choice([len(pre), len(pre), 0, rng.randrange(-3, len(data) + 3)])})
        elif k == 5:
            which = rng.choice(["wsb", "wis", "wsa", "wst"])
            if which in ("wsb", "wis"):
                v = W.gen_bytes(rng, big=rng.choice([32767, 32768, 70000]), p_big=0.15)
                out.append({"op": which, "arg": None if v is None else v.hex()})
            else:
                s = W.gen_str(rng, text=(which == "wst"), p_big=0.1)
                out.append({"op": which, "arg": None if s is None else s.encode("utf-8").hex()})
        elif k == 6:
            data = bytes(rng.getrandbits(8) for _ in range(rng.randrange(0, 12)))
            out.append({"op": "slice", "data": data.hex(), "lo": rng.randrange(-15, 15), "hi": rng.randrange(-15, 15)})
        elif k == 7:
            data = bytes(rng.getrandbits(8) for _ in range(rng.choice([0, 1, 9, 64, 1000])))
            out.append({"op": "wcrc", "data": data.hex()})
        else:
            keys = Q.gen_keys(rng)
            out.append({"op": "group", "keys": [[None if t is None else t.hex(), p] for t, p in keys]})
    return out


def hx(h):
    return None if h is None else bytes.fromhex(h)


def run_prim(sc, sink):
    """Run one primitive scenario on the REAL code and queue the model request."""
    import afkak._util as U

    op = sc["op"]
    if op == "pack":
        r = W.call(lambda: struct.pack(sc["fmt"], *sc["vals"]))
        sink.corr("pack %s %s" % (fmt_b(sc["fmt"]), vr(sc["vals"])), W.answer(*r), sc)
    elif op == "runpack":
        data = hx(sc["data"])
        r = W.call(lambda: U.relative_unpack(sc["fmt"], data, sc["cur"]))
        sink.corr("runpack %s %s %s" % (fmt_b(sc["fmt"]), vr(data), vr(sc["cur"])), W.answer(r[0], [list(r[1][0]), r[1][1]] if r[0] == "ok" else r[1]), sc)
    elif op == "runpackn":
        data = hx(sc["data"])
        r = W.call(lambda: U.relative_unpack(sc["tmpl"] % sc["n"], data, sc["cur"]))
        sink.corr("runpackn %s %s %s %s" % (fmt_b(sc["tmpl"]), vr(sc["n"]), vr(data), vr(sc["cur"])), W.answer(r[0], [list(r[1][0]), r[1][1]] if r[0] == "ok" else r[1]), sc)
    elif op in ("rsb", "ris", "rsa", "rst"):
        data = hx(sc["data"])
        fn = {"rsb": U.read_short_bytes, "ris": U.read_int_string, "rsa": U.read_short_ascii, "rst": U.read_short_text}[op]
        r = W.call(lambda: fn(data, sc["cur"]))
        sink.corr("%s %s %s" % (op, vr(data), vr(sc["cur"])), W.answer(r[0], list(r[1]) if r[0] == "ok" else r[1]), sc)
    elif op in ("wsb", "wis"):
        v = hx(sc["arg"])
        fn = U.write_short_bytes if op == "wsb" else U.write_int_string
        sink.corr("%s %s" % (op, vr(v)), W.answer(*W.call(lambda: fn(v))), sc)
    elif op in ("wsa", "wst"):
        v = hx(sc["arg"])
        fn = U.write_short_ascii if op == "wsa" else U.write_short_text
        sink.corr("%s %s" % (op, vr(v)), W.answer(*W.call(lambda: fn(None if v is None else v.decode("utf-8")))), sc)
    elif op == "slice":
        data = hx(sc["data"])
        sink.corr("slice %s %s %s" % (vr(data), vr(sc["lo"]), vr(sc["hi"])), ["ok " + vr(data[sc["lo"]:sc["hi"]])], sc)
    elif op == "wcrc":
        data = hx(sc["data"])
        sink.corr("wcrc %s" % vr(data), ["ok " + vr(zlib.crc32(data) & 0xFFFFFFFF)], sc)
    elif op == "group":
        class P(object):
            def __init__(self, t, p, i):
                self.topic, self.partition, self.i = t, p, i

        keys = [(None if t is None else bytes.fromhex(t), p) for t, p in sc["keys"]]
        g = U.group_by_topic_and_partition([P(t, p, i) for i, (t, p) in enumerate(keys)])
        rendered = [[t, [[p, x.i] for p, x in inner.items()]] for t, inner in g.items()]
        sink.corr("group %s" % vr([[t, p] for t, p in keys]), ["ok " + vr(rendered)], sc)
    else:
        raise KeyError(op)


def msg_scenarios(rng, n, big):
    out = []
    for _ in range(n):
        k = rng.randrange(3)
        now = rng.choice(W.NOW_CHOICES)
        if k == 0:
            out.append({"op": "enc-msg", "now": now, "msg": vr(Q.gen_message(rng, big=big, p_bad=0.05))})
        elif k == 1:
            off = rng.choice([None, None, 0, 5, W.gen_int(rng, 64)])
            magic = rng.choice([0, 0, 1, 1, 2, -1])
            out.append({"op": "enc-set", "now": now, "msgs": vr(Q.gen_messages(rng, big=big)), "offset": off, "magic": magic})
        else:
            reqs = [[W.gen_bytes(rng, big=300), [W.gen_bytes(rng, big=big) for _ in range(rng.randrange(0, 6))]] for _ in range(rng.randrange(0, 4))]
            out.append({"op": "create-set", "now": now, "reqs": vr(reqs), "codec": rng.choice([0, 0, 1, 1, 1, 2, 3, 7]), "magic": rng.choice([0, 0, 1, 1, 1, 2])})
    return out


def run_msg(sc, sink):
    import afkak.common as C
    import afkak.kafkacodec as KC

    K = KC.KafkaCodec
    op = sc["op"]
    with W.Externals(sc["now"]) as ext:
        if op == "enc-msg":
            m = W.parse_v(sc["msg"])
            r = W.call(lambda: K._encode_message(Q.mk_message(m)))
            lines = [("corr", "enc-msg %s" % sc["msg"], W.answer(*r))]
            if r[0] == "ok":
                # the single message as a one-entry set at offset 0 must parse under the grammar
                frame = struct.pack(">qi", 0, len(r[1])) + r[1]
                lines.append(("mon", "mon-c04-set %s n %s" % (vr([m]), vr(frame)), ["c04-message-nonconforming"]))
        elif op == "enc-set":
            ms = W.parse_v(sc["msgs"])
            r = W.call(lambda: K._encode_message_set([Q.mk_message(m) for m in ms], sc["offset"], sc["magic"]))
            lines = [("corr", "enc-set %s %s %s" % (sc["msgs"], vr(sc["offset"]), vr(sc["magic"])), W.answer(*r))]
            if r[0] == "ok":
                lines.append(("mon", "mon-c04-set %s %s %s" % (sc["msgs"], vr(sc["offset"]), vr(r[1])), ["c04-message-set-nonconforming"]))
        else:
            reqs = W.parse_v(sc["reqs"])
            sreqs = [C.SendRequest("t", k, ps, None) for k, ps in reqs]
            r = W.call(lambda: KC.create_message_set(sreqs, sc["codec"], sc["magic"]))
            ans = W.answer(r[0], [[m.magic, m.attributes, m.key, m.value, m.timestamp] for m in r[1]] if r[0] == "ok" else r[1])
            lines = [("corr", "create-set %s %s %s" % (sc["reqs"], vr(sc["codec"]), vr(sc["magic"])), ans)]
    for l in ext.ext_lines():
        sink.state(l)
    for kind, line, x in lines:
        if kind == "corr":
            sink.corr(line, x, sc)
        else:
            sink.mon(line, sc, x)


def req_scenarios(rng, n, big):
    out = []
    apis = list(Q.GENERATORS)
    for i in range(n):
        api = apis[i % len(apis)] if i < 3 * len(apis) else rng.choice(apis + ["produce", "produce", "fetch"])
        W.PBAD[0] = 0.0 if rng.random() < 0.6 else 0.04  # most scenarios entirely in range
        args = Q.GENERATORS[api](rng, big) if api == "produce" else Q.GENERATORS[api](rng)
        out.append({"op": "enc", "api": api, "now": rng.choice(W.NOW_CHOICES), "args": " ".join(vr(a) for a in args)})
    W.PBAD[0] = 0.04
    return out


def parse_args(s):
    return W.parse_v("[ " + s + " ]")


def run_req(sc, sink, res=None):
    api = sc["api"]
    args = parse_args(sc["args"])
    with W.Externals(sc["now"]) as ext:
        r = W.call(lambda: Q.real_encode(api, args))
    for l in ext.ext_lines():
        sink.state(l)
    sink.corr("enc %s %s" % (api, sc["args"]), W.answer(*r), sc)
    if r[0] == "ok" and api != "header":
        frame = r[1]
        sink.mon("mon-c04 %s %s %s" % (api, sc["args"], vr(frame)), sc, ["c04-nonconforming-" + api])
        sc["_frame"] = frame
        sc["_ref"] = Q.ref_encode(api, args, sc["now"])
    elif r[0] != "ok" and api != "header":
        # the encoder refused: that is a violation when the arguments are ones it must accept
        # (Afkak.Monitor.C04.must..., the hypotheses of the C04_*_total theorems)
        sink.mon("must-c04 %s %s" % (api, sc["args"]), sc, ["c04-spurious-refusal-" + api])
    if res is not None:
        res.count("enc:" + api + (":ok" if r[0] == "ok" else ":" + r[1]))


def flow_scenarios(rng, n, big):
    out = []
    for _ in range(n):
        reqs = [[W.gen_bytes(rng, big=100), [W.gen_bytes(rng, big=big) for _ in range(rng.randrange(0, 8))]] for _ in range(rng.randrange(1, 4))]
        magic = rng.choice([0, 1])
        out.append({"op": "flow", "now": rng.choice(W.NOW_CHOICES), "reqs": vr(reqs), "codec": rng.choice([0, 1, 1]), "magic": magic,
                    "topic": rng.choice(["t", "topic.a_b-1"]), "partition": rng.randrange(0, 50), "acks": rng.choice([0, 1, -1]),
                    "timeout": rng.choice([0, 1000, 30000]), "corr": W.gen_int(rng, 32, p_bad=0), "cid": rng.choice(["", "afkak", "c1"]),
                    "version": rng.choice([2, 3, 8]) if magic == 1 else rng.choice([0, 0, 1])})
    return out


def run_flow(sc, sink):
    """What Producer._send_requests + send_produce_request do: create_message_set, then encode."""
    import gzip as pygzip

    import afkak.common as C
    import afkak.kafkacodec as KC

    reqs = W.parse_v(sc["reqs"])
    cid = sc["cid"].encode()
    with W.Externals(sc["now"]) as ext:
        sreqs = [C.SendRequest(sc["topic"], k, ps, None) for k, ps in reqs]
        msgs = KC.create_message_set(sreqs, sc["codec"], sc["magic"])
        plain = KC.create_message_set(sreqs, C.CODEC_NONE, sc["magic"])
        frame = KC.KafkaCodec.encode_produce_request(cid, sc["corr"], [C.ProduceRequest(sc["topic"], sc["partition"], msgs)], sc["acks"], sc["timeout"], sc["version"])
    for l in ext.ext_lines():
        sink.state(l)
    mv = [[m.magic, m.attributes, m.key, m.value, m.timestamp] for m in msgs]
    sink.corr("create-set %s %s %s" % (sc["reqs"], vr(sc["codec"]), vr(sc["magic"])), ["ok " + vr(mv)], sc)
    args = " ".join(vr(a) for a in [cid, sc["corr"], [[sc["topic"], sc["partition"], mv]], sc["acks"], sc["timeout"], sc["version"]])
    sink.corr("enc produce " + args, ["ok " + vr(frame)], sc)
    # what the CALLER supplied: one message per payload, in order, each with the key of ITS request
    want = [[sc["magic"], 0, k, p_, sc["now"] if sc["magic"] == 1 else None] for k, ps in reqs for p_ in ps]
    if sc["codec"] == 0:
        wargs = " ".join(vr(a) for a in [cid, sc["corr"], [[sc["topic"], sc["partition"], want]], sc["acks"], sc["timeout"], sc["version"]])
        sink.mon("mon-c04 produce %s %s" % (wargs, vr(frame)), sc, ["c04-nonconforming-produce"])
    else:
        sink.mon("mon-c04 produce %s %s" % (args, vr(frame)), sc, ["c04-nonconforming-produce"])
        # the wrapper's payload, decompressed by Python's gzip (not afkak's), must be the set of the caller's messages
        inner = pygzip.decompress(msgs[0].value)
        sink.mon("mon-c04-set %s n %s" % (vr(want), vr(inner)), sc, ["c04-gzip-inner-nonconforming"])
        if msgs[0].attributes & 0x07 != 1 or msgs[0].key is not None:
            sink.mon("bad-wrapper-attributes", sc, ["c04-gzip-attributes"])


# --------------------------------------------------------------------------- the two independent grammars against each other

def cross_scenarios(rng, n, big):
    out = []
    W.PBAD[0] = 0.0
    for i in range(n):
        api = Q.SPEC_REQ_APIS[i % len(Q.SPEC_REQ_APIS)]
        args = Q.GENERATORS[api](rng, big) if api == "produce" else Q.GENERATORS[api](rng)
        out.append({"op": "cross", "api": api, "now": rng.choice(W.NOW_CHOICES), "args": " ".join(vr(a) for a in args)})
    W.PBAD[0] = 0.04
    return out


def run_cross(sc, sink):
    """Lean grammar (Afkak/Wire/Spec.lean) vs Python grammar (harness/sim/refcodec.py), both directions,
    on a request value built from generated arguments (no afkak code involved)."""
    from harness.sim import refcodec as RC

    api = sc["api"]
    args = parse_args(sc["args"])
    sv = Q.spec_request(api, args, sc["now"])
    ref = Q.ref_expected(api, args, sc["now"])
    if sv is None or ref is None:
        sc["_cross"] = "no-value"
        return
    try:
        refbytes = RC.encode_request(*ref)
    except RC.CodecError:
        sc["_cross"] = "refcodec-refuses"
        return
    hv, bv = sv
    # Lean encodes what refcodec encodes; Lean decodes refcodec's bytes to the value; (refcodec parses the same bytes)
    sink.corr("spec-enc-req %s %s %s" % (api, vr(hv), vr(bv)), ["ok " + vr(refbytes)], sc)
    sink.corr("spec-dec-req %s %s" % (api, vr(refbytes)), ["ok " + vr([hv, bv])], sc)
    hdr, body = RC.parse_request(refbytes, validate_records=False)
    want_hdr = (ref[0], ref[1], ref[2], ref[3])
    if hdr != want_hdr or {k: v for k, v in body.items()} != ref[4]:
        sink.corr("refcodec-parse-of-own-encoding", ["differs"], sc)
    sc["_cross"] = "checked"


# --------------------------------------------------------------------------- version selection on the real client

def version_scenarios(rng, n):
    out = []
    for _ in range(n):
        kind = rng.choice(["table", "table", "table", "error", "silent", "off"])
        keys = [0, 1, 2, 3, 8, 9, 10, 11, 12, 13, 14, 18]
        table = []
        for k in keys:
            hi = rng.choice([2, 2, 3, 5, 8, 11]) if k in (0, 1) else rng.randrange(0, 6)
            table.append([k, 0, hi])
        mode = rng.choice(["sorted", "permuted", "permuted", "short", "reversed"])
        if mode == "permuted":
            rng.shuffle(table)
        elif mode == "reversed":
            table.reverse()
        elif mode == "short":
            table = [e for e in table if e[0] in (0, 1, 18)]
            rng.shuffle(table)
        out.append({"op": "version", "kind": kind, "table": table, "error": rng.choice([35, 2, -1, 1]) if kind == "error" else 0,
                    "api": rng.choice(["produce", "produce", "fetch"]), "nparts": rng.randrange(1, 4), "nmsgs": rng.randrange(1, 4),
                    "codec": rng.choice([0, 0, 1]), "batches": rng.choice([1, 2, 3])})
    return out


def _pump(w, done, limit=120):
    for _ in range(limit):
        w.net.flush()
        if done():
            return True
        w.advance(1.0)
    return done()


def run_version(sc, sink, res=None):
    """The REAL Producer / KafkaClient over the simulated network: discovery from a generated table (or
    an error code, or no answer), then produce batches / a fetch; every frame written and every
    reply decoded is observed."""
    import afkak.common as C
    from afkak.client import KafkaClient
    from afkak.kafkacodec import KafkaCodec
    from afkak.producer import Producer
    from harness.sim import refcodec as RC
    from harness.sim.world import World

    w = World()
    st = {"apiv": 0, "frames": [], "bad": []}
    topic = "vt"
    nparts = sc["nparts"]
    key = 0 if sc["api"] == "produce" else 1
    apiv_body = {"error_code": sc["error"], "api_versions": [] if sc["kind"] == "error" else [{"api_key": k, "min_version": lo, "max_version": hi} for k, lo, hi in sc["table"]]}

    def on_frame(conn, frame):
        # a broker that cannot parse a request does not answer it; the frame is judged below
        try:
            answer(conn, frame)
        except (RC.CodecError, KeyError, ValueError, IndexError) as e:
            st["bad"].append((frame, "%s: %s" % (type(e).__name__, e)))

    def answer(conn, frame):
        k, ver, corr, _cid = RC.request_header(frame)
        st["frames"].append((k, ver, frame))
        if k == RC.API_VERSIONS:
            st["apiv"] += 1
            if sc["kind"] != "silent":
                conn.send_frame(RC.encode_response(RC.API_VERSIONS, 0, corr, apiv_body))
        elif k == RC.METADATA:
            body = {"brokers": [{"node_id": 1, "host": "b1", "port": 9092}],
                    "topics": [{"error_code": 0, "topic": topic, "partitions": [{"error_code": 0, "partition": p, "leader": 1, "replicas": [1], "isr": [1]} for p in range(nparts)]}]}
            conn.send_frame(RC.encode_response(RC.METADATA, 0, corr, body))
        elif k == RC.PRODUCE:
            _h, body = RC.parse_request(frame, validate_records=False)
            tps = [{"topic": t["topic"], "partitions": [dict({"partition": p["partition"], "error_code": 0, "base_offset": 100 + p["partition"]}, **({"log_append_time": -1} if ver >= 2 else {})) for p in t["partitions"]]} for t in body["topics"]]
            rb = {"topics": tps}
            if ver >= 1:
                rb["throttle_time_ms"] = 0
            conn.send_frame(RC.encode_response(RC.PRODUCE, ver, corr, rb))
        elif k == RC.FETCH:
            _h, body = RC.parse_request(frame)
            tps = [{"topic": t["topic"], "partitions": [{"partition": p["partition"], "error_code": 0, "high_watermark": 7,
                                                           "record_set": RC.encode_message_set([RC.message(b"v%d" % p["partition"], key=None, magic=1 if ver >= 2 else 0, timestamp=5 if ver >= 2 else None, offset=p["fetch_offset"])])}
                                                          for p in t["partitions"]]} for t in body["topics"]]
            rb = {"topics": tps}
            if ver >= 1:
                rb["throttle_time_ms"] = 0
            conn.send_frame(RC.encode_response(RC.FETCH, ver, corr, rb))

    w.net.on_frame = on_frame
    w.net.policy = lambda p: p.accept()
    client = KafkaClient("b0:9092", reactor=w.clock, endpoint_factory=w.net, timeout=3000, enable_protocol_version_discovery=(sc["kind"] != "off"))
    outcomes, states_before, direct_at = [], [], None
    with W.Externals(1500000000123):
        if sc["api"] == "produce":
            producer = Producer(client, codec=sc["codec"])
            for b in range(sc["batches"]):
                states_before.append(client._api_versions)
                got = []
                producer.send_messages(topic, msgs=[b"m%d-%d" % (b, i) for i in range(sc["nmsgs"])]).addBoth(got.append)
                _pump(w, lambda: bool(got))
                outcomes.append(got[0] if got else None)
            if nparts >= 2:
                # the client's own entry point, one payload per partition: a reply with several partitions
                # decodes to the broker's values only under the layout of the version that was requested
                import afkak.kafkacodec as KC
                direct_at = len(states_before)
                states_before.append(client._api_versions)
                magic = 1 if client._api_versions else 0
                got = []
                client.send_produce_request([C.ProduceRequest(topic, p, [KC.create_message(b"d%d" % p, magic=magic)]) for p in range(nparts)],
                                            acks=1, timeout=1000).addBoth(got.append)
                _pump(w, lambda: bool(got))
                outcomes.append(got[0] if got else None)
        else:
            states_before.append(client._api_versions)
            got = []
            client.send_fetch_request([C.FetchRequest(topic, p, 10 + p, 4096) for p in range(nparts)], max_wait_time=100).addBoth(got.append)
            _pump(w, lambda: bool(got))
            out = got[0] if got else None
            if isinstance(out, list):
                out = [(r.topic, r.partition, r.error, r.highwaterMark, W.drain(r.messages)) for r in out]
            outcomes.append(out)
    sent = [(v, f) for k, v, f in st["frames"] if k == key]
    sc["_obs"] = {"discovery_requests": st["apiv"], "sent_versions": [v for v, _ in sent]}
    fallback = sc["kind"] in ("error", "silent", "off")
    for bi, (ver, frame) in enumerate(sent):
        magics = []
        try:
            _h, body = RC.parse_request(frame)  # strict: trailing bytes, CRCs, sizes
            if sc["api"] == "produce":
                for t in body["topics"]:
                    for p in t["partitions"]:
                        deep = RC.expand_message_set(p["messages"])
                        magics += [m["magic"] for m in p["messages"]] + [m["magic"] for m in deep]
                        want = [b"d%d" % p["partition"]] if bi == direct_at else [b"m%d-%d" % (bi, i) for i in range(sc["nmsgs"])]
                        if [m["value"] for m in deep] != want:
                            sink.mon("produce-payload got=%r want=%r" % ([m["value"] for m in deep], want), sc, ["c04-version-frame-payload"])
        except RC.CodecError as e:
            sink.mon("refcodec-rejects %s" % e, sc, ["c04-version-frame-nonconforming"])
        if fallback:
            sink.mon("mon-fallback %s %s" % (vr(ver), vr(magics)), sc, ["c04-fallback-not-zero:" + sc["kind"] + ":" + sc["api"]])
        else:
            sink.mon("mon-version %s %s %s %s" % (vr(sc["table"]), vr(key), vr(ver), vr(magics)), sc, ["c04-version-not-advertised-or-format:" + sc["kind"]])
    for frame, why in st["bad"]:
        sink.mon("broker-cannot-parse %s %s" % (why, frame.hex()[:200]), sc, ["c04-version-frame-nonconforming"])
    if len(sent) != len(outcomes):
        sink.mon("frames sent %d for %d calls" % (len(sent), len(outcomes)), sc, ["c04-version-no-frame"])
    # the reply was decoded by the decoder of the version that was sent
    for out in outcomes:
        if isinstance(out, list) and sc["api"] == "fetch":
            got = sorted((t, p, e, hw, [(m.offset, m.message.value) for m in ms[0]], ms[1]) for t, p, e, hw, ms in out)
            want = sorted((topic, p, 0, 7, [(10 + p, b"v%d" % p)], "ok") for p in range(nparts))
            if got != want:
                sink.mon("reply-mismatch got=%r want=%r" % (got, want), sc, ["c04-reply-decoder-mismatch"])
        elif sc["api"] == "produce" and isinstance(out, list):
            got = sorted((r.topic, r.partition, r.error, r.offset) for r in out)
            want = sorted((topic, p, 0, 100 + p) for p in range(nparts))
            if got != want:
                sink.mon("reply-mismatch got=%r want=%r" % (got, want), sc, ["c04-reply-decoder-mismatch"])
        elif sc["api"] == "produce" and isinstance(out, C.ProduceResponse):
            if (out.topic, out.error, out.offset) != (topic, 0, 100 + out.partition):
                sink.mon("reply-mismatch got=%r" % (out,), sc, ["c04-reply-decoder-mismatch"])
        else:
            sink.mon("reply-failed %r" % (out,), sc, ["c04-reply-decoder-mismatch"])
    if res is not None:
        res.count("version:%s:%s" % (sc["kind"], sc["api"]))
        res.count("version-sent:%s:%s" % (sc["kind"], [v for v, _ in sent]))
    # the model of discovery + lookup + the producer's format rule, on the same attempts
    payload = RC.encode_response(RC.API_VERSIONS, 0, 1, apiv_body)
    attempts = [None, None, None] if sc["kind"] == "silent" else [] if sc["kind"] == "off" else [payload]

    def sv(x):
        return [[v.api_key, v.min_version, v.max_version] for v in x] if isinstance(x, list) else x

    final = client._api_versions
    chosen = []
    client.get_api_version(key).addBoth(chosen.append)
    clamp = min(chosen[0], 2) if chosen[0] >= 0 else chosen[0]
    for bi, before in enumerate(states_before):
        atts = vr(attempts if before is None else [])
        if sc["api"] == "produce":
            magic_before = 1 if (isinstance(before, list) and before) else 0
            # [state after, version to encoder, version to decoder (acks = 1), header version, format chosen before the call]
            sink.corr("glue-produce %s %s i1" % (vr(sv(before)), atts), ["ok " + vr([sv(final), chosen[0], chosen[0], clamp, magic_before])], sc)
        else:
            sink.corr("glue-fetch %s %s" % (vr(sv(before)), atts), ["ok " + vr([sv(final), chosen[0], chosen[0], clamp])], sc)
        if bi < len(sent) and sent[bi][0] != clamp:
            sink.mon("header-version %r differs from clamp(%r)" % (sent[bi][0], chosen[0]), sc, ["c04-version-clamp"])

    # the PUBLIC fetch_api_versions() once more, in whatever state the discovery ended (a second call performs
    # no request, answers ApiVersionResponse(-1, []) and leaves the fallback state: Version.fetchApiVersionsCall),
    # then one more produce / fetch: it must carry what the model says for the state the call left
    before = client._api_versions
    if before is not None:
        n0, apiv0 = len(st["frames"]), st["apiv"]
        with W.Externals(1500000000123):
            got = []
            client.fetch_api_versions().addBoth(got.append)
            _pump(w, lambda: bool(got))
            r = got[0] if got else None
            if isinstance(r, C.ApiVersionResponse):
                obs = ["ok " + vr([sv(client._api_versions), r.error_code, sv(list(r.api_versions))])]
            else:
                obs = ["refetch-failed %r" % (r,)]
            sink.corr("fetch-api-versions %s [ ]" % vr(sv(before)), obs, sc)
            after = client._api_versions
            got = []
            if sc["api"] == "produce":
                Producer(client, codec=sc["codec"]).send_messages(topic, msgs=[b"r%d" % i for i in range(sc["nmsgs"])]).addBoth(got.append)
            else:
                client.send_fetch_request([C.FetchRequest(topic, p, 10 + p, 4096) for p in range(nparts)], max_wait_time=100).addBoth(got.append)
            _pump(w, lambda: bool(got))
            out = got[0] if got else None
        if st["apiv"] != apiv0:
            sink.mon("refetch sent %d ApiVersions requests in state %r" % (st["apiv"] - apiv0, sv(before)), sc, ["c04-refetch-requests"])
        later = [(k, v, f) for k, v, f in st["frames"][n0:] if k == key]
        if len(later) != 1:
            sink.mon("after-refetch frames %d" % len(later), sc, ["c04-version-no-frame"])
        for _k, ver, frame in later:
            magics = []
            try:
                _h, body = RC.parse_request(frame)
                if sc["api"] == "produce":
                    for t in body["topics"]:
                        for p in t["partitions"]:
                            deep = RC.expand_message_set(p["messages"])
                            magics += [m["magic"] for m in p["messages"]] + [m["magic"] for m in deep]
                            if [m["value"] for m in deep] != [b"r%d" % i for i in range(sc["nmsgs"])]:
                                sink.mon("after-refetch produce-payload %r" % ([m["value"] for m in deep],), sc, ["c04-version-frame-payload"])
            except RC.CodecError as e:
                sink.mon("refcodec-rejects %s" % e, sc, ["c04-version-frame-nonconforming"])
            if after == 0:
                sink.mon("mon-fallback %s %s" % (vr(ver), vr(magics)), sc, ["c04-fallback-not-zero:refetch:" + sc["api"]])
            else:
                sink.mon("mon-version %s %s %s %s" % (vr(sv(after)), vr(key), vr(ver), vr(magics)), sc, ["c04-version-not-advertised-or-format:refetch"])
        if sc["api"] == "fetch" and isinstance(out, list):
            gotr = sorted((r.topic, r.partition, r.error, r.highwaterMark, [(m.offset, m.message.value) for m in W.drain(r.messages)[0]]) for r in out)
            want = sorted((topic, p, 0, 7, [(10 + p, b"v%d" % p)]) for p in range(nparts))
            if gotr != want:
                sink.mon("after-refetch reply-mismatch got=%r want=%r" % (gotr, want), sc, ["c04-reply-decoder-mismatch"])
        elif sc["api"] == "produce" and isinstance(out, C.ProduceResponse):
            if (out.topic, out.error, out.offset) != (topic, 0, 100 + out.partition):
                sink.mon("after-refetch reply-mismatch got=%r" % (out,), sc, ["c04-reply-decoder-mismatch"])
        else:
            sink.mon("after-refetch reply-failed %r" % (out,), sc, ["c04-reply-decoder-mismatch"])
        if res is not None:
            res.count("refetch:%s->%s" % ("table" if isinstance(before, list) else before, "table" if isinstance(after, list) else after))


# --------------------------------------------------------------------------- running and judging

def evaluate(ctx, res, sink, refcheck=True):
    """Run the queued lines on the model; classify answers."""
    if not sink.lines:
        return
    got = ctx.model("wire", sink.lines)
    for line, kind, exp, sc, g in zip(sink.lines, sink.kinds, sink.expect, sink.scen, got):
        if kind == "state":
            if g != ["ok"]:
                res.disagreements.append({"component": "wire", "request": line[:300], "impl": "state request", "model": g})
            continue
        if kind == "corr":
            res.traces_validated += 1
            if g != exp:
                comp = "spec-vs-refcodec" if (sc or {}).get("op") == "cross" else "wire"
                res.disagreements.append({"component": comp, "scenario": clean(sc), "request": line[:2000], "impl": trunc(exp), "model": trunc(g)})
        else:
            res.count("monitor:" + (g[0] if g else "none"))
            cmd = line.split(" ")
            # the same verdicts by monitor (and API): what was judged, what was NOT judged (out-of-range) and why
            res.count("verdict:%s:%s" % (":".join(cmd[:2]) if cmd[0] in ("mon-c04", "must-c04") else cmd[0], g[0] if g else "none"))
            if g and g[0] == "ok":
                continue
            if g and g[0] == "out-of-range":
                continue
            res.monitor_failures.append({"what": "request does not conform to the protocol grammar: %s" % (line.split(" ")[0:2],), "scenario": clean(sc), "monitor_line": line[:4000], "verdict": trunc(g), "tags": list(exp)})
    if refcheck:
        # the Python oracle: whenever the Lean monitor accepted the frame, refcodec's own encoding of the
        # caller's values must be these very bytes (and vice versa)
        verdicts = {}
        for line, kind, sc, g in zip(sink.lines, sink.kinds, sink.scen, got):
            if kind == "mon" and line.startswith("mon-c04 ") and sc is not None:
                verdicts[id(sc)] = (sc, g[0] if g else None)
        for sc, v in verdicts.values():
            if "_frame" not in sc:
                continue
            ref, frame = sc.get("_ref"), sc["_frame"]
            if v == "ok" and ref is not None and ref != frame:
                res.disagreements.append({"component": "spec-vs-refcodec", "scenario": clean(sc), "impl": frame.hex()[:400], "model": "refcodec writes " + ref.hex()[:400]})
            if v == "out-of-range" and ref is not None and ref == frame:
                res.count("refcodec-accepts-what-spec-calls-out-of-range")
            if v == "ok":
                res.count("refcodec:" + ("same-bytes" if ref == frame else "no-opinion" if ref is None else "differs"))


def clean(sc):
    return None if sc is None else {k: v for k, v in sc.items() if not k.startswith("_")}


def trunc(x, n=600):
    s = json.dumps(x, default=str)
    return s if len(s) <= n else s[:n] + "...(%d chars)" % len(s)


RUNNERS = {"pack": run_prim, "runpack": run_prim, "runpackn": run_prim, "rsb": run_prim, "ris": run_prim, "rsa": run_prim, "rst": run_prim,
           "wsb": run_prim, "wis": run_prim, "wsa": run_prim, "wst": run_prim, "slice": run_prim, "wcrc": run_prim, "group": run_prim,
           "enc-msg": run_msg, "enc-set": run_msg, "create-set": run_msg, "enc": run_req, "flow": run_flow, "version": run_version,
           "cross": run_cross}


def nontrivial(sc):
    op = sc["op"]
    if op == "enc":
        return sc["api"] != "header" and "_frame" in sc
    return op in ("enc-set", "create-set", "flow", "version")


def run_scenarios(ctx, res, scenarios, chunk=400):
    for i in range(0, len(scenarios), chunk):
        sink = Sink()
        part = scenarios[i:i + chunk]
        for sc in part:
            try:
                if sc["op"] in ("enc", "version"):
                    RUNNERS[sc["op"]](sc, sink, res)
                else:
                    RUNNERS[sc["op"]](sc, sink)
            except Exception as e:  # noqa: BLE001 - the scenario ran on the unchanged tree: the code no longer behaves as modelled
                import traceback

                res.disagreements.append({"component": "wire", "scenario": clean(sc), "impl": "exception while driving the real code: %s: %s" % (type(e).__name__, e),
                                          "model": "(the scenario runs to completion on the unchanged tree)", "trace": traceback.format_exc()[-800:]})
            res.evaluations += 1
            res.count("op:" + sc["op"])
            if sc["op"] == "cross":
                res.count("cross:" + sc.get("_cross", "?"))
            if nontrivial(sc):
                res.nontrivial(clean(sc))
        evaluate(ctx, res, sink)
        for sc in part[:1]:
            res.sample(clean_sample(sc))


def clean_sample(sc):
    c = clean(sc)
    return {k: (v if not isinstance(v, str) or len(v) < 300 else v[:300] + "...") for k, v in c.items()}


def generate(rng, sizes):
    big = sizes["big"]
    return (prim_scenarios(rng, sizes["prim"]) + msg_scenarios(rng, sizes["msg"], big) + req_scenarios(rng, sizes["req"], big)
            + flow_scenarios(rng, sizes["flow"], big) + version_scenarios(rng, sizes["version"]) + cross_scenarios(rng, sizes.get("cross", 0), big))


def corpus():
    out = []
    if os.path.isdir(CORPUS_DIR):
        for fn in sorted(os.listdir(CORPUS_DIR)):
            if fn.endswith(".json"):
                d = json.load(open(os.path.join(CORPUS_DIR, fn)))
                for sc in d.get("c04", []):
                    out.append(sc)
    return out


QUICK = {"prim": 3000, "msg": 900, "req": 4200, "flow": 300, "version": 120, "cross": 1200, "big": 1 << 16}
THOROUGH_SHARD = {"prim": 4500, "msg": 1500, "req": 5700, "flow": 520, "version": 180, "cross": 1800, "big": 1 << 20}  # x 16 shards, one wave of 16 processes


def _shard(args):
    """One worker of the thorough tier."""
    import random
    import sys

    from harness import core

    seed, idx, sizes = args
    sys.path.insert(0, core.REPO)

    class C(object):
        pass

    c = C()
    c.rng = random.Random((seed * 7919 + idx) * 1000003 + 4)
    c.model = core.run_model
    r = Result()
    run_scenarios(c, r, generate(c.rng, sizes))
    return r


def merge(res, r):
    res.evaluations += r.evaluations
    res.distinct |= r.distinct
    res.traces_validated += r.traces_validated
    res.disagreements += r.disagreements
    res.monitor_failures += r.monitor_failures
    for k, v in r.hist.items():
        res.count(k, v)
    for s in r.samples:
        res.sample(s)


def xl_corpus(ctx, res):
    """stored cross-layer scenarios (corpus/wire/*.json, key "c04_xl") run on every check"""
    import collections

    from harness.lib import xl_run

    judged, hist = [], collections.Counter()
    if os.path.isdir(CORPUS_DIR):
        for fn in sorted(os.listdir(CORPUS_DIR)):
            if fn.endswith(".json"):
                for script in json.load(open(os.path.join(CORPUS_DIR, fn))).get("c04_xl", []):
                    judged.append(xl_c04.judge(xl_run.run_script(script), hist))
                    res.evaluations += 1
                    res.count("xl:corpus-scenarios")
    xl_c04.evaluate(ctx, res, judged)


def run(ctx, res):
    res.rule = ("type-directed arguments for every encoder (boundary and out-of-range ints; None / empty / ASCII / non-ASCII / 32767- and 32768-byte strings; "
                "None / empty / small / large bytes; 0..4 topics x 0..5 partitions x 0..20 messages with interleaved and duplicate (topic, partition) keys; both magics; "
                "codecs none/gzip; version tables sorted/permuted/short/with error code/unanswered). non-trivial = a request encoder emitted a frame "
                "(then the grammar monitor ran on it), or a message-set / create_message_set / producer-flow / version-selection scenario, or a cross-layer run "
                "(real Producer + KafkaClient + version discovery over the simulated cluster under transport faults, unanswered ApiVersions windows, hung / "
                "pre-0.10 / erroring brokers) in which a broker received a Produce or Fetch frame. distinct = by content hash.")
    run_scenarios(ctx, res, corpus())
    if ctx.tier == "thorough":
        import multiprocessing as mp

        with mp.Pool(16) as pool:
            for r in pool.imap_unordered(_shard, [(ctx.seed, i, THOROUGH_SHARD) for i in range(16)]):
                merge(res, r)
    else:
        run_scenarios(ctx, res, generate(ctx.rng, QUICK))
    from harness.lib.xl5_guard import guarded

    # (a stage that trips over an implementation which no longer offers what it drives is a broken
    # correspondence - exit 1, the other stages still run -, not a crash of the check)
    guarded(res, "wire/xl-corpus", xl_corpus, ctx, res)
    guarded(res, "wire/xl", xl_c04.stage, ctx, res, ctx.scale(1500, 24000))
    shrink_all(ctx, res)
    h = res.hist
    tot = lambda pre, v: sum(n for k, n in h.items() if k.startswith("verdict:" + pre) and k.endswith(":" + v))  # noqa: E731
    res.notes.append(
        "monitor evaluations are NOT all judgements: grammar monitor on frames the real encoders emitted (mon-c04, mon-c04-set): ok=%d, out-of-range=%d "
        "(not judged: the caller's arguments have no representation in the grammar although a frame was emitted - null in a non-nullable string, negative "
        "attributes/version, an integer or length the field cannot carry, a format-1 message handed to Produce < 2; caller errors, listed per API in "
        "op_histogram verdict:mon-c04:<api>:out-of-range); refusals of the real encoders (must-c04): out-of-range=%d means 'may be refused' (was refused "
        "legitimately), a refusal of arguments that must be accepted would be a failure; version/format monitors on real produce/fetch frames "
        "(mon-version, mon-fallback): ok=%d, out-of-range=%d (table outside the property's quantifier min<=0, max>=2: none is generated)."
        % (tot("mon-c04", "ok"), tot("mon-c04", "out-of-range"), tot("must-c04", "out-of-range"),
           tot("mon-version", "ok") + tot("mon-fallback", "ok"), tot("mon-version", "out-of-range")))


def shrink_all(ctx, res):
    """Shrink (ddmin over the nested argument lists) the first few disagreeing / failing scenarios."""
    for rec in (res.disagreements[:3] + res.monitor_failures[:3]):
        sc = rec.get("scenario")
        if not sc or sc.get("op") != "enc":
            continue
        rec["shrunk"] = shrink_enc(ctx, sc)


def fails(ctx, sc):
    r = Result()
    sink = Sink()
    try:
        run_req(dict(sc), sink)
    except Exception:
        return False
    evaluate(ctx, r, sink, refcheck=False)
    return bool(r.disagreements or r.monitor_failures)


def shrink_enc(ctx, sc, budget=80):
    args = parse_args(sc["args"])

    def render(a):
        d = dict(sc)
        d["args"] = " ".join(vr(x) for x in a)
        return d

    def paths(v, pre=()):
        if isinstance(v, list):
            for i, x in enumerate(v):
                yield pre + (i,)
                for p in paths(x, pre + (i,)):
                    yield p

    def without(v, path):
        if len(path) == 1:
            return v[:path[0]] + v[path[0] + 1:]
        return v[:path[0]] + [without(v[path[0]], path[1:])] + v[path[0] + 1:]

    changed = True
    while changed and budget > 0:
        changed = False
        for p in sorted(paths(args), key=lambda q: -len(q)):
            if len(p) < 2:
                continue  # keep the top-level argument list's arity
            cand = without(args, p)
            budget -= 1
            if budget <= 0:
                break
            try:
                if fails(ctx, render(cand)):
                    args, changed = cand, True
                    break
            except Exception:
                continue
    return clean(render(args))


def search(ctx, res, broken):
    """A proof or the correspondence broke: look for a frame on which the PROPERTY fails on the implementation."""
    r2 = Result()
    sizes = dict(QUICK)
    sizes.update({"req": ctx.scale(4000, 12000), "flow": ctx.scale(400, 1500), "msg": ctx.scale(1200, 4000), "version": ctx.scale(150, 400), "prim": 0})
    # bias towards what broke: the APIs named in the disagreements
    apis = set()
    for b in broken:
        w = b.get("what")
        if isinstance(w, dict) and isinstance(w.get("scenario"), dict) and w["scenario"].get("api"):
            apis.add(w["scenario"]["api"])
    scs = generate(ctx.rng, sizes)
    if apis:
        extra = []
        for _ in range(ctx.scale(1500, 6000)):
            api = ctx.rng.choice(sorted(apis))
            args = Q.GENERATORS[api](ctx.rng)
            extra.append({"op": "enc", "api": api, "now": 1500000000123, "args": " ".join(vr(a) for a in args)})
        scs = extra + scs
    run_scenarios(ctx, r2, scs)
    shrink_all(ctx, r2)
    if not r2.monitor_failures:
        xl_c04.stage(ctx, r2, ctx.scale(3000, 24000))
    return r2.monitor_failures[:3]


def replay(ctx, data):
    f = data.get("failure") or {}
    sc = f.get("shrunk") or f.get("scenario")
    if not sc and data.get("no_longer_checks"):
        w = data["no_longer_checks"][0].get("what")
        sc = (w.get("shrunk") or w.get("scenario")) if isinstance(w, dict) else None
    if not sc:
        print("replay: no scenario in the file (a broken proof is replayed by running ./check C04)")
        return 0
    print("replay scenario:", json.dumps(sc)[:3000])
    if sc.get("xl") == "c04":
        rc = xl_c04.replay(ctx, sc)
        print("VIOLATION property=C04 replay=(this file)" if rc else "scenario passes on the current tree")
        return rc
    r = Result()
    sink = Sink()
    sc = dict(sc)
    if sc["op"] in ("enc", "version"):
        RUNNERS[sc["op"]](sc, sink, r)
    else:
        RUNNERS[sc["op"]](sc, sink)
    got = ctx.model("wire", sink.lines)
    for line, kind, exp, g in zip(sink.lines, sink.kinds, sink.expect, got):
        if kind == "state":
            continue
        print("request :", line[:1500])
        if kind == "corr":
            print("  impl  :", trunc(exp, 1500))
            print("  model :", trunc(g, 1500))
        else:
            print("  monitor verdict:", trunc(g, 1500))
    evaluate(ctx, r, sink)
    if r.monitor_failures:
        print("VIOLATION property=C04 replay=(this file)")
        return 1
    if r.disagreements:
        print("model and implementation disagree on this scenario (no monitor failure)")
        return 1
    print("scenario passes on the current tree")
    return 0
