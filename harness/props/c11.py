"""C11 - every broker request is bounded by the client timeout.

Real KafkaClient over real broker clients over the in-memory network (harness/lib/client_sim.py) vs
lean/Afkak/ClientNet.lean, scenarios biased towards the clock: per-request broker behaviour {prompt,
late by a fraction of the bound, exactly at the bound (both orders), never}, connections that never
establish, both disconnect_on_timeout settings, join-style min_timeout.  After EVERY step the
reactor's pending delayed calls of the client are compared with the model's timer queue, and
Afkak.Monitor.C11 is evaluated on the real trace.
"""
from harness.lib import client_common as CC
from harness.lib import client_compose as XC
from harness.props import c07

COMPONENTS = ["client"]
TRUSTED = c07.TRUSTED
ASSUMPTIONS = [
    "'no later than' is in virtual (model) time: timers fire at their due time; reactor latency is outside the model",
    "re-sending of the other unanswered requests after a disconnect is the broker client's (C10); here the disconnect call is observed",
]


def run(ctx, res):
    CC.quiet()
    res.rule = ("scenarios as in C07 with 25% clock events: advance exactly to the next timer, to 1/4,1/2,3/4 of the gap, or by dyadic amounts up to "
                "30 s; timeouts 0.5/1/2.5/10 s; disconnect_on_timeout on in half; _send_request_to_coordinator with min_timeout 35 s or 1/4 s; "
                "late replies after timeouts and cancels. Compared per step: observations, cache, reactor.getDelayedCalls() vs the model's queue. "
                "non-trivial = a scenario in which the clock advanced and at least one broker request was cancelled (timeout or cancel); distinct by content hash.")
    c07.run_corpus(ctx, res, ["c11-", "net-"], "c11", "C11")
    c07.net_scenarios(ctx, res, ctx.scale(2500, 200000), "c11")
    # the same stack, recorded as network-level events with the observations at BOTH boundaries, against the COMPOSED
    # model (client model x one broker-client model per instance, lean/Afkak/ClientCompose.lean)
    XC.stage(ctx, res, ctx.scale(350, 20000), "c11", corpus_prefixes=["c11-"])


def search(ctx, res, broken):
    from harness.core import Result
    return c07.search_net(ctx, Result(), broken, "c11", "C11")


def replay(ctx, data):
    rc = c07.replay_net(ctx, data, "C11", "c11")
    return XC.replay(ctx, data) or rc
