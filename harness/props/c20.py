"""C20 - closing the client fails everything pending and releases every connection.

Real KafkaClient over real broker clients over the in-memory network (harness/lib/client_sim.py) vs
lean/Afkak/ClientNet.lean, scenarios that close the client in every state the generator reaches
(bootstrapping: connecting / request in flight; broker clients connecting, connected, backing off;
requests in flight on several brokers; refresh-triggered closes pending; timers armed), followed by
connection-closed notifications in any order, late replies, timer firings and new operations.
Afkak.Monitor.C20 is evaluated on the real trace, including what the simulated network saw after close.
"""
from harness.lib import client_common as CC
from harness.lib import client_compose as XC
from harness.lib import client_beyond as XB
from harness.props import c07

COMPONENTS = ["client"]
TRUSTED = c07.TRUSTED
ASSUMPTIONS = [
    "`load_metadata_for_topics` pending at close may complete with its documented cancellation value None (not an exception)",
    "the ephemeral bootstrap connection is told to close inside close(); its connection-lost notification is not awaited by the close Deferred",
    "beyond-model stages (close() from inside a callback; version discovery enabled) are judged by the monitor on the real trace only",
]


def around_corpus(ctx, res, n):
    """directed scenarios: every stored c20- scenario (a close() in a state that mattered once) cut at a random point and
    continued with 2..13 random steps (c07.run_batch with a prefix, as the search does) - n scenarios over all of them"""
    scns = [scn for _, scn in c07.corpus_scenarios("c20-") if "cmds" in scn]
    outs = [c07.run_batch(ctx.model, ctx.rng.randrange(1 << 30), max(40, n // len(scns)), "c20", ("c20",), prefix_scn=scn, timeout_s=ctx.scale(6, 120))
            for scn in scns]
    c07.merge(res, ctx, outs, "c20", "C20")


def run(ctx, res):
    CC.quiet()
    res.rule = ("scenarios as in C07 with a close() at a random point (6% per step) and up to 8 further steps: accepting/refusing/dropping "
                "connections (= connection-closed notifications in any order), late replies, clock advances, cancels, new operations, a second "
                "close(); plus the stored c20- scenarios cut at a random point and continued with random steps. non-trivial = a scenario in which close() had to close at least one broker client or abort a bootstrap; distinct by content hash.")
    c07.run_corpus(ctx, res, ["c20-", "net-"], "c20", "C20")
    c07.net_scenarios(ctx, res, ctx.scale(1200, 200000), "c20")
    # the same stack, recorded as network-level events with the observations at BOTH boundaries, against the COMPOSED
    # model (client model x one broker-client model per instance, lean/Afkak/ClientCompose.lean)
    XC.stage(ctx, res, ctx.scale(350, 20000), "c20", corpus_prefixes=["c20-"])
    # beyond-model stages: the C20 monitor on the real trace only - close() called from inside an operation's callback
    # (re-entrant: while a broker client writes its queue, inside a reply's callback chain), and protocol version
    # discovery enabled (operations parked in fetch_api_versions at close)
    XB.stage(ctx, res, ctx.scale(160, 6000), "reentrant", ctx.scale(10, 240))
    XB.stage(ctx, res, ctx.scale(160, 6000), "discovery", ctx.scale(10, 240))
    # quick tier: fewer blind scenarios above (one driver process each), directed ones here
    around_corpus(ctx, res, ctx.scale(500, 20000))


def search(ctx, res, broken):
    from harness.core import Result
    return c07.search_net(ctx, Result(), broken, "c20", "C20")


def replay(ctx, data):
    rc = c07.replay_net(ctx, data, "C20", "c20")
    return XC.replay(ctx, data) or rc
