"""C20 - closing the client fails everything pending and releases every connection.

Real KafkaClient over real broker clients over the in-memory network (harness/lib/client_sim.py) vs
lean/Afkak/ClientNet.lean, scenarios that close the client in every state the generator reaches
(bootstrapping: connecting / request in flight; broker clients connecting, connected, backing off;
requests in flight on several brokers; refresh-triggered closes pending; timers armed), followed by
connection-closed notifications in any order, late replies, timer firings and new operations.
Afkak.Monitor.C20 is evaluated on the real trace, including what the simulated network saw after close.
"""
from harness.lib import client_common as CC
from harness.props import c07

COMPONENTS = ["client"]
TRUSTED = c07.TRUSTED
ASSUMPTIONS = [
    "`load_metadata_for_topics` pending at close may complete with its documented cancellation value None (not an exception)",
    "the ephemeral bootstrap connection is told to close inside close(); its connection-lost notification is not awaited by the close Deferred",
    "_load_topic_partitions (private, used by the group coordinator) sleeping in its retry delay is not exercised here",
]


def run(ctx, res):
    CC.quiet()
    res.rule = ("scenarios as in C07 with a close() at a random point (6% per step) and up to 8 further steps: accepting/refusing/dropping "
                "connections (= connection-closed notifications in any order), late replies, clock advances, cancels, new operations, a second "
                "close(). non-trivial = a scenario in which close() had to close at least one broker client or abort a bootstrap; distinct by content hash.")
    c07.run_corpus(ctx, res, ["c20-", "net-"], "c20", "C20")
    c07.net_scenarios(ctx, res, ctx.scale(3000, 200000), "c20")


def search(ctx, res, broken):
    from harness.core import Result
    return c07.search_net(ctx, Result(), broken, "c20", "C20")


def replay(ctx, data):
    return c07.replay_net(ctx, data, "C20", "c20")
