"""C12 - corrupted or truncated message data is never delivered; decoding is linear.

Correspondence of afkak/kafkacodec.py + afkak/_util.py (+ zlib.crc32) with Afkak/Crc32.lean,
Afkak/WireCost.lean, Afkak/C12/MsgSet.lean, and the Lean monitors of Afkak/Monitor/C12.lean evaluated
on the real decoder's outcomes.
"""
import json
import os
import struct
import time
import tracemalloc
import zlib

from harness.core import VERIF, Result
from harness.lib import crc_refenc as R

COMPONENTS = ["crc", "consumer"]  # "consumer": the full-stack growth stage evaluates the consumer package's monitors on its trace
CONSTS = ["crc", "consumer"]
TRUSTED = [
    "zlib.crc32 is modelled by Afkak/Crc32.lean (bit-serial LFSR = byte table, proved) and compared with it on every run",
    "gzip_decode is a parameter of the model: the harness records what the real one returned and hands the same table to the model; zlib's expansion ratio is outside the model",
    "harness/lib/crc_refenc.py: independent CRC-32 / Message v0,v1 / message-set / response encoders written from the Kafka protocol guide",
    "cost = calls of relative_unpack/read_short_*/read_int_string + bytes handed to zlib.crc32, counted on the real decoder by wrappers installed in afkak.kafkacodec's namespace (restored afterwards); bytes copied = every slice ANY statement of the decoder takes of its input buffer, of a slice of it, or of a gzip_decode output, measured by handing the decoders a bytes subclass whose slicing is counted (TrackedBytes); CPython's real time and allocation are recorded as evidence only",
]
ASSUMPTIONS = [
    "burst = error pattern whose set bits lie within 32 consecutive bits in the order CRC-32 consumes them (byte by byte, least significant bit first); this contains every alteration confined to 4 consecutive bytes",
    "the alteration touches only the checksummed bytes (magic..value); a burst that straddles the stored CRC field is not guaranteed to be detected by any CRC placed before the data",
    "snappy is not installed (snappy_decode raises NotImplementedError)",
    "nesting of compressed sets explored to depth 2; the model takes the depth as a parameter",
]

DEPTH = 4
HOSTILE = [-32768, -8, -2, -1, 0, 2 ** 15 - 1, 2 ** 31 - 1]
CORPUS = os.path.join(VERIF, "corpus", "crc")


# ------------------------------------------------------------------ instrumentation of the real decoder
class ReadBudgetExceeded(BaseException):
    """Raised by the counting wrapper (never by afkak); BaseException so that no handler in the
    decoder can swallow it."""


def budget(n):
    return 8 * n + 256


class TrackedBytes(bytes):
    """The buffer handed to the real decoders.  Every slice taken of it - by ANY statement of the
    implementation, not only inside the primitive readers - is charged its length to `sliced`, and
    is itself tracked (so are the outputs of gzip_decode).  This MEASURES the bytes the code copies
    out of its input; nothing is derived from call arguments.  Indexing, len(), struct.unpack,
    zlib.crc32, .decode(), hashing and comparison are those of bytes."""

    __slots__ = ()
    sliced = 0
    instr = None  # the active Instr: its read budget also bounds the bytes sliced (x8: far beyond
    # the proved 3*(len+gz)), so a decoder that copies quadratically is stopped instead of being left
    # to copy gigabytes; the monitor then fails on the count

    def __getitem__(self, k):
        r = bytes.__getitem__(self, k)
        if isinstance(k, slice):
            T = TrackedBytes
            T.sliced += len(r)
            i = T.instr
            if i is not None and T.sliced > 8 * (i.limit + 8 * i.gz_bytes):
                raise ReadBudgetExceeded(T.sliced)
            return T(r)
        return r


def tracked(data):
    return None if data is None else TrackedBytes(data)


class Instr:
    """Counting wrappers around the primitive readers, zlib.crc32 and gzip_decode as seen by
    afkak.kafkacodec.  Installed once per run, always restored."""

    NAMES = ("relative_unpack", "read_short_bytes", "read_short_ascii", "read_short_text", "read_int_string")

    def __enter__(self):
        import afkak.kafkacodec as K

        self.K = K
        self.saved = {n: getattr(K, n) for n in self.NAMES}
        self.saved["zlib"] = K.zlib
        self.saved["gzip_decode"] = K.gzip_decode
        self.reset()
        for n in self.NAMES:
            setattr(K, n, self._count(self.saved[n], n))
        inst = self
        real_zlib = K.zlib

        class ZProxy(object):
            def __getattr__(self, name):
                return getattr(real_zlib, name)

            @staticmethod
            def crc32(data, *a):
                inst.crc_bytes += len(data)
                return real_zlib.crc32(data, *a)

        K.zlib = ZProxy()
        real_gz = self.saved["gzip_decode"]

        def gz(payload):
            try:
                out = real_gz(payload)
            except Exception as e:  # noqa: BLE001 - the class is the observation
                inst.gz.append((payload, "e", type(e).__name__))
                raise
            inst.gz.append((payload, "o", out))
            inst.gz_bytes += len(out)
            return TrackedBytes(out) if isinstance(out, bytes) else out

        K.gzip_decode = gz
        return self

    def __exit__(self, *a):
        TrackedBytes.instr = None
        for n, v in self.saved.items():
            setattr(self.K, n, v)

    @staticmethod
    def sliced(name, a):
        """Bytes the call slices out of the buffer (computed from its arguments, independently of
        the function): the `struct` size of a successful relative_unpack; the length prefix, and the
        body when it is there, of a length-prefixed string."""
        try:
            if name == "relative_unpack":
                fmt, data, cur = a
                size = struct.calcsize(fmt)
                return size if len(data) >= cur + size else 0
            data, cur = a
            w = 4 if name == "read_int_string" else 2
            if len(data) < cur + w:
                return 0
            (n,) = struct.unpack(">i" if w == 4 else ">h", bytes.__getitem__(data, slice(cur, cur + w)))  # untracked peek
            if n < 0 or len(data) < cur + w + n:
                return w
            return w + n
        except (struct.error, TypeError):
            return 0

    def _count(self, f, name):
        def w(*a):
            self.reads += 1
            self.bytes += self.sliced(name, a)
            if self.reads > self.limit + 8 * self.gz_bytes:
                # far beyond every admissible bound: stop the decoder instead of letting a
                # cursor-looping input run for hours; the monitor then fails on the count
                raise ReadBudgetExceeded(self.reads)
            return f(*a)

        return w

    @property
    def measured(self):
        """Bytes the code has sliced out of tracked buffers since reset() (measured)."""
        return TrackedBytes.sliced

    def reset(self, limit=10 ** 9):
        self.limit = limit
        TrackedBytes.sliced = 0
        TrackedBytes.instr = self
        self.reads = 0
        self.bytes = 0
        self.crc_bytes = 0
        self.gz = []
        self.gz_bytes = 0

    def gz_tokens(self):
        out, seen = [], set()
        for inp, kind, res in self.gz:
            k = "N" if inp is None else hx(inp)
            if k in seen:
                continue
            seen.add(k)
            out.append("g:%s:%s:%s" % (k, kind, hx(res) if kind == "o" else res))
        return out


# ------------------------------------------------------------------ canonical forms
def hx(b):
    return b.hex() if b else "-"


def cb(b):
    return "N" if b is None else "b" + b.hex()


def canon_msg(off, m):
    ts = m.timestamp
    return "m(%d,%d,%d,%s,%s,%s)" % (off, m.magic, m.attributes, "N" if ts is None else "%d" % ts, cb(m.key), cb(m.value))


def canon_ref(off, magic, attrs, key, value, ts):
    return "m(%d,%d,%d,%s,%s,%s)" % (off, magic, attrs, "N" if ts is None else "%d" % ts, cb(key), cb(value))


def drain_set(it):
    """Iterate a message-set generator: (yielded canonical messages, 'ok' | exception class)."""
    out = []
    try:
        for om in it:
            out.append(canon_msg(om.offset, om.message))
    except (Exception, ReadBudgetExceeded) as e:  # noqa: BLE001
        return out, type(e).__name__
    return out, "ok"


def show_set(yielded, end):
    return "{" + ";".join(yielded) + "|" + end + "}"


def canon(v):
    import attr

    if v is None:
        return "N"
    if isinstance(v, bool):
        return "i%d" % int(v)
    if isinstance(v, int):
        return "i%d" % v
    if isinstance(v, bytes):
        return "b" + v.hex()
    if isinstance(v, str):
        return "b" + v.encode("utf-8").hex()
    if isinstance(v, dict):
        return "[" + ",".join("[%s,%s]" % (canon(k), canon(x)) for k, x in v.items()) + "]"
    if isinstance(v, (list, tuple)):
        return "[" + ",".join(canon(x) for x in v) + "]"
    if attr.has(type(v)):
        return "[" + ",".join(canon(getattr(v, f.name)) for f in attr.fields(type(v))) + "]"
    if hasattr(v, "__next__"):
        y, e = drain_set(v)
        return show_set(y, e)
    raise TypeError("cannot canonicalise %r" % (v,))


# ------------------------------------------------------------------ the real decoders
def real_decoders():
    from afkak.kafkacodec import KafkaCodec as C

    return {
        "api_versions": lambda d, v: C.decode_api_versions_response(d),
        "produce": lambda d, v: list(C.decode_produce_response(d, v)),
        "fetch": lambda d, v: list(C.decode_fetch_response(d, v)),
        "offset": lambda d, v: list(C.decode_offset_response(d)),
        "metadata": lambda d, v: C.decode_metadata_response(d),
        "consumermetadata": lambda d, v: C.decode_consumermetadata_response(d),
        "offset_commit": lambda d, v: list(C.decode_offset_commit_response(d)),
        "offset_fetch": lambda d, v: list(C.decode_offset_fetch_response(d)),
        "join_group_protocol_metadata": lambda d, v: C.decode_join_group_protocol_metadata(d),
        "join_group": lambda d, v: C.decode_join_group_response(d),
        "leave_group": lambda d, v: C.decode_leave_group_response(d),
        "heartbeat": lambda d, v: C.decode_heartbeat_response(d),
        "sync_group": lambda d, v: C.decode_sync_group_response(d),
        "sync_group_member_assignment": lambda d, v: C.decode_sync_group_member_assignment(d),
    }


def eval_set(instr, data):
    """Iterate the real _decode_message_set_iter(data). -> dict"""
    from afkak.kafkacodec import KafkaCodec as C

    instr.reset(budget(len(data or b"")))
    y, e = drain_set(C._decode_message_set_iter(tracked(data)))
    # alloc: MEASURED on the buffer (every slice any statement of the code takes); alloc_args: what
    # the primitive readers + the checksum slice account for by their arguments (evidence)
    return {"yielded": y, "end": e, "cost": instr.reads + instr.crc_bytes, "alloc": instr.measured, "alloc_args": instr.bytes + instr.crc_bytes,
            "gz": instr.gz_bytes, "gzt": instr.gz_tokens()}


def eval_dec(instr, decs, name, version, data):
    """Run one real decode_* (generators drained; fetch message sets iterated). -> dict"""
    instr.reset(budget(len(data)))
    try:
        v = decs[name](tracked(data), version)
    except (Exception, ReadBudgetExceeded) as e:  # noqa: BLE001
        return {"out": "error " + type(e).__name__, "outer": instr.reads, "outer_bytes": instr.measured, "cost": instr.reads, "gz": 0, "gzt": [], "sets": []}
    outer = instr.reads
    outer_bytes = instr.measured  # measured (see TrackedBytes)
    sets = []
    per_part = None
    if name == "fetch":
        parts = []
        per_part = []
        for fr in v:
            before = (instr.reads + instr.crc_bytes, instr.gz_bytes)
            y, e = drain_set(fr.messages)
            # length of this message set's bytes is not observable from the FetchResponse; the
            # per-set cost monitor uses the whole input length (an over-approximation of the set's)
            sets.append((instr.reads + instr.crc_bytes - before[0], instr.gz_bytes - before[1]))
            per_part.append((y, e))
            parts.append("[%s,%s,%s,%s,%s]" % (canon(fr.topic), canon(fr.partition), canon(fr.error), canon(fr.highwaterMark), show_set(y, e)))
        out = "[" + ",".join(parts) + "]"
    else:
        try:
            out = canon(v)
        except TypeError as e:  # a value of a shape no decoder produces: reported as a disagreement
            out = "?uncanonical(%s)" % e
    return {"out": "value " + out, "outer": outer, "outer_bytes": outer_bytes, "cost": instr.reads + instr.crc_bytes, "gz": instr.gz_bytes, "gzt": instr.gz_tokens(), "sets": sets, "parts": per_part}


# ------------------------------------------------------------------ batching of model requests
class Batch:
    def __init__(self, ctx):
        self.ctx = ctx
        self.lines = []
        self.cbs = []

    def add(self, line, cb_):
        self.lines.append(line)
        self.cbs.append(cb_)

    def flush(self):
        if not self.lines:
            return
        got = self.ctx.model("crc", self.lines)
        for l, g, c in zip(self.lines, got, self.cbs):
            c(l, g)
        self.lines, self.cbs = [], []


# ------------------------------------------------------------------ generators
def rbytes(rng, n):
    return bytes(rng.getrandbits(8) for _ in range(n)) if n < 64 else rng.getrandbits(8 * n).to_bytes(n, "big")


def gen_msg(rng, maxval=40):
    magic = rng.choice([0, 1])
    attrs = rng.choice([0, 0, 0, 4, 8, rng.randrange(256) & 0xFC])
    key = rng.choice([None, None, b"", rbytes(rng, rng.randrange(1, 9))])
    mode = rng.randrange(6)
    if mode == 0:
        value = None
    elif mode == 1:
        value = b""
    else:
        value = rbytes(rng, rng.randrange(1, maxval))
    ts = None
    if magic == 1:
        ts = rng.choice([-1, 0, 1, 2 ** 63 - 1, -(2 ** 63), rng.randrange(0, 2 ** 41)])
    return (magic, attrs, key, value, ts)


def enc_msg(m):
    return R.enc_message(m[0], m[1], m[2], m[3], m[4])


def gen_flat_set(rng, nmax=5, maxval=40):
    """-> (entries [(offset, msgbytes)], refs [canonical message], msgs)"""
    n = rng.randrange(1, nmax + 1)
    off = rng.choice([0, 0, 5, 2 ** 40, -3, 2 ** 63 - 100])
    entries, refs, msgs = [], [], []
    for _ in range(n):
        m = gen_msg(rng, maxval)
        entries.append((off, enc_msg(m)))
        refs.append(canon_ref(off, m[0], m[1], m[2], m[3], m[4]))
        msgs.append((off, m))
        off += rng.choice([1, 1, 1, 2, 7])
    return entries, refs, msgs


def gen_wrapper(rng, depth=1):
    """A gzip wrapper message around an inner set (possibly holding another wrapper).
    -> (offset, wrapper message bytes, None): what it yields is checked against the model."""
    magic = rng.choice([0, 1])
    n = rng.randrange(0, 4)
    inner_entries = []
    base = rng.randrange(0, 1000)
    if depth > 1 and rng.random() < 0.5:
        o, w, _ = gen_wrapper(rng, depth - 1)
        inner_entries.append((o, w))
    for i in range(n):
        m = gen_msg(rng, 20)
        inner_entries.append((i if magic == 1 else base + i, enc_msg(m)))
    inner = R.enc_set(inner_entries)
    if rng.random() < 0.15 and inner:
        inner = inner[: rng.randrange(0, len(inner))]  # a truncated inner set
    payload = R.gzip_bytes(inner)
    if rng.random() < 0.1:
        payload = payload[: len(payload) // 2]  # not a complete gzip stream
    value = None if rng.random() < 0.05 else payload
    wrapper = R.enc_message(magic, 1, None, value, 0 if magic == 1 else None)
    return base + max(n - 1, 0), wrapper, None


def gen_response(rng, name):
    """-> (version, bytes, count-field positions)"""

    def s(n=8):
        return bytes(rng.choice(b"abcxyz.-_09") for _ in range(rng.randrange(0, n)))

    def i32():
        return rng.choice([0, 1, -1, 7, 2 ** 31 - 1, -(2 ** 31), rng.randrange(-50, 50)])

    def i16():
        return rng.choice([0, 1, -1, 3, 35, 2 ** 15 - 1, -(2 ** 15)])

    def i64():
        return rng.choice([0, 1, -1, 2 ** 63 - 1, -(2 ** 63), rng.randrange(0, 10 ** 6)])

    def lst(f, n=3):
        return [f() for _ in range(rng.randrange(0, n + 1))]

    v = 0
    if name == "api_versions":
        b, c = R.enc_api_versions(i32(), i16(), lst(lambda: (i16(), i16(), i16()), 5))
    elif name == "produce":
        v = rng.choice([0, 1, 2])
        b, c = R.enc_produce(i32(), lst(lambda: (s(), lst(lambda: (i32(), i16(), i64(), i64())))), v, i32())
    elif name == "fetch":
        v = rng.choice([0, 2, 3])

        def mset():
            r = rng.random()
            if r < 0.1:
                return None
            if r < 0.2:
                return b""
            entries, _, _ = gen_flat_set(rng, 3, 12)
            if rng.random() < 0.3:
                o, w, _ = gen_wrapper(rng)
                entries.append((o, w))
            data = R.enc_set(entries)
            if rng.random() < 0.3:
                data = data[: rng.randrange(0, len(data) + 1)]
            return data

        b, c = R.enc_fetch(i32(), lst(lambda: (s(), lst(lambda: (i32(), i16(), i64(), mset()), 2)), 2), v, i32())
    elif name == "offset":
        b, c = R.enc_offset(i32(), lst(lambda: (s(), lst(lambda: (i32(), i16(), lst(i64))))))
    elif name == "metadata":
        brokers = lst(lambda: (rng.choice([0, 1, 2, i32()]), s(), i32()), 4)
        topics = lst(lambda: (i16(), rng.choice([b"t", b"u", s()]), lst(lambda: (i16(), rng.choice([0, 1, i32()]), i32(), lst(i32), lst(i32)))))
        b, c = R.enc_metadata(i32(), brokers, topics)
    elif name == "consumermetadata":
        b, c = R.enc_consumermetadata(i32(), i16(), i32(), s(), i32())
    elif name == "offset_commit":
        b, c = R.enc_offset_commit(i32(), lst(lambda: (s(), lst(lambda: (i32(), i16())))))
    elif name == "offset_fetch":
        b, c = R.enc_offset_fetch(i32(), lst(lambda: (s(), lst(lambda: (i32(), i64(), rng.choice([None, b"", s()]), i16())))))
    elif name == "join_group_protocol_metadata":
        b, c = R.enc_join_group_protocol_metadata(i16(), lst(lambda: rng.choice([s(), "tøpic".encode("utf-8"), "\U0001F600".encode("utf-8")])), rng.choice([None, b"", s()]))
    elif name == "join_group":
        b, c = R.enc_join_group(i32(), i16(), i32(), s(), s(), s(), lst(lambda: (s(), rng.choice([None, b"", s(20)]))))
    elif name in ("leave_group", "heartbeat"):
        b, c = R.enc_error_only(i32(), i16())
    elif name == "sync_group":
        b, c = R.enc_sync_group(i32(), i16(), rng.choice([None, b"", s(30)]))
    elif name == "sync_group_member_assignment":
        b, c = R.enc_sync_group_member_assignment(rng.choice([0, 0, 0, 1]), lst(lambda: (rng.choice([b"t", s()]), lst(i32, 4))), rng.choice([None, b"", s()]))
    else:
        raise KeyError(name)
    return v, b, c


def mutate(rng, data, counts):
    """One hostile variant of a valid response."""
    b = bytearray(data)
    mode = rng.randrange(8)
    if mode <= 2 and counts:  # a count / length field replaced by a hostile value
        off, w = rng.choice(counts)
        v = rng.choice(HOSTILE)
        if w == 2:
            v = max(-32768, min(32767, v))
        b[off : off + w] = struct.pack(">h" if w == 2 else ">i", v)
        return bytes(b), "count"
    if mode == 3 and len(b) >= 4:  # any aligned-or-not 4-byte window replaced
        off = rng.randrange(0, len(b) - 3)
        b[off : off + 4] = struct.pack(">i", rng.choice(HOSTILE))
        return bytes(b), "window4"
    if mode == 4 and len(b) >= 2:
        off = rng.randrange(0, len(b) - 1)
        b[off : off + 2] = struct.pack(">h", max(-32768, min(32767, rng.choice(HOSTILE))))
        return bytes(b), "window2"
    if mode == 5 and b:
        for _ in range(rng.randrange(1, 4)):
            b[rng.randrange(len(b))] ^= 1 << rng.randrange(8)
        return bytes(b), "bitflip"
    if mode == 6:
        return bytes(b[: rng.randrange(0, len(b) + 1)]), "truncate"
    return bytes(b) + rbytes(rng, rng.randrange(1, 9)), "append"


# ------------------------------------------------------------------ sections
def disagree(res, what, scenario, impl, model):
    res.disagreements.append({"component": "crc", "what": what, "scenario": scenario, "impl": impl, "model": model})


def crc_cases(ctx, res, n):
    """zlib.crc32 vs the Lean table form and the Lean bit-serial definition."""
    rng = ctx.rng
    b = Batch(ctx)
    for i in range(n):
        ln = i if i < 70 else rng.choice([rng.randrange(0, 300), rng.randrange(1000, 5000), 65536 + rng.randrange(3)])
        data = rbytes(rng, ln)
        want = zlib.crc32(data) & 0xFFFFFFFF
        if R.crc32(data) != want:
            disagree(res, "reference CRC differs from zlib", {"kind": "crc", "data": hx(data)}, want, R.crc32(data))
        for req in ("crc", "crcspec") if ln < 5000 else ("crc",):
            def chk(l, g, want=want, data=data):
                if g != ["int %d" % want]:
                    disagree(res, "CRC-32 model differs from zlib.crc32", {"kind": "crc", "request": l[:200]}, want, g)

            b.add("%s %s" % (req, hx(data)), chk)
        res.evaluations += 1
        res.count("crc_len_bucket=%d" % min(len(data).bit_length(), 17))
    b.flush()
    res.traces_validated += n


def set_scenario(data, extra=None):
    d = {"kind": "set", "data": "N" if data is None else hx(data)}
    if extra:
        d.update(extra)
    return d


def check_set(b, res, instr, data, scenario, tags_prefix=""):
    """Real iteration of a message set vs the model (value, end, cost, gz bytes) + cost monitor."""
    r = eval_set(instr, data)
    impl = ["set " + show_set(r["yielded"], r["end"]), "cost %d gz %d" % (r["cost"], r["gz"])]

    def chk(l, g):
        if g != impl:
            disagree(res, "message-set iteration: model differs from code", scenario, impl, g)

    b.add("decset %d %s %s" % (DEPTH, hx(data), " ".join(r["gzt"])), chk)

    def achk(l, g):
        if g != ["alloc %d gz %d" % (r["alloc"], r["gz"])]:
            disagree(res, "message-set iteration: bytes sliced/copied by the code differ from the model's allocation measure", scenario, [r["alloc"], r["gz"]], g)

    b.add("decseta %d %s %s" % (DEPTH, hx(data), " ".join(r["gzt"])), achk)

    def amon(l, g):
        if g != ["ok"]:
            res.monitor_failures.append({"what": "message-set iteration: bytes sliced/copied exceed the linear bound", "scenario": dict(scenario, alloc=r["alloc"], gz=r["gz"]), "tags": ["set-alloc-superlinear"]})

    b.add("mon-setalloc %d %d %d" % (len(data), r["gz"], r["alloc"]), amon)

    def xchk(l, g):
        if g != ["agree"]:
            disagree(res, "message-set iteration: the C12 model and the wire package's model differ", scenario, g[1:2], g[2:3])

    b.add("xdecset %d %s %s" % (DEPTH, hx(data), " ".join(r["gzt"])), xchk)

    def mon(l, g):
        if g != ["ok"]:
            res.monitor_failures.append({"what": "message-set iteration cost exceeds the linear bound", "scenario": dict(scenario, cost=r["cost"], gz=r["gz"]), "tags": ["set-cost-superlinear"]})

    b.add("mon-setcost %d %d %d" % (len(data), r["gz"], r["cost"]), mon)
    res.evaluations += 1
    res.count("set_end=" + r["end"])
    return r


def msgset_cases(ctx, res, instr, n):
    """Valid sets from the reference encoder: real decoder vs model; model encoder vs reference encoder."""
    rng = ctx.rng
    b = Batch(ctx)
    for i in range(n):
        entries, refs, msgs = gen_flat_set(rng, 6, 60 if i % 10 else 3000)
        nested = rng.random() < 0.35
        if nested:
            o, w, _ = gen_wrapper(rng, depth=rng.choice([1, 1, 2]))
            entries.insert(rng.randrange(0, len(entries) + 1), (o, w))
        data = R.enc_set(entries)
        sc = set_scenario(data, {"nested": nested})
        r = check_set(b, res, instr, data, sc)
        if not nested:
            if r["yielded"] != refs or r["end"] != "ok":
                res.monitor_failures.append({"what": "a valid message set does not decode to the messages that were encoded", "scenario": dict(sc, expected=refs, impl=show_set(r["yielded"], r["end"])), "tags": ["valid-set-not-identity"]})
            # the Lean encoder used in the truncation theorem = the reference encoder

            def chk(l, g, data=data, entries=entries):
                want = ["bytes " + hx(data), "lens " + ",".join(str(12 + len(m)) for _, m in entries)]
                if g != want:
                    disagree(res, "Lean encodeSet differs from the reference encoder", {"kind": "encset", "request": l[:300]}, want, g)

            def fm(om):
                o, m = om
                return "%d,%d,%d,%s,%s,%s" % (o, m[0], m[1], "N" if m[4] is None else m[4], "N" if m[2] is None else hx(m[2]), "N" if m[3] is None else hx(m[3]))

            b.add("encset " + ";".join(fm(om) for om in msgs), chk)
        res.count("set_nested=%s" % nested)
        res.nontrivial(["set", hx(data)])
        res.sample({"op": "decset", "data": hx(data)[:120], "impl": show_set(r["yielded"], r["end"])[:200], "cost": r["cost"]})
    b.flush()
    res.traces_validated += n


def burst_patterns(rng, nbits, exhaustive_span, per_span):
    """(start bit k, pattern bits as int with bit 0 = first bit of the window, span)."""
    for k in range(nbits):
        for s in range(1, 33):
            if k + s > nbits:
                break
            if s == 1:
                yield k, 1, 1
            elif s == 2:
                yield k, 3, 2
            elif s <= exhaustive_span:
                for mid in range(1 << (s - 2)):
                    yield k, 1 | (mid << 1) | (1 << (s - 1)), s
            else:
                for _ in range(per_span):
                    yield k, 1 | (rng.getrandbits(s - 2) << 1) | (1 << (s - 1)), s


def apply_bits(nbytes, k, pat, msb_first=False):
    e = bytearray(nbytes)
    i = 0
    while pat >> i:
        if (pat >> i) & 1:
            bit = k + i
            e[bit // 8] |= (0x80 >> (bit % 8)) if msb_first else (1 << (bit % 8))
        i += 1
    return bytes(e)


def lsb_window_start(e):
    for i, byte in enumerate(e):
        if byte:
            return 8 * i + (byte & -byte).bit_length() - 1
    return 0


def solve_window(body, k, target):
    """The 32-bit window pattern at bit k of `body` (CRC bit order) whose XOR changes the CRC-32 of
    `body` by exactly `target`.  The map window -> CRC difference is linear and bijective (this is
    the content of C12_burst_bits), so there is exactly one; found by Gaussian elimination on the 32
    single-bit responses (reference CRC, not zlib)."""
    base = R.crc32(body)
    rows = []  # (response, combo)
    for i in range(32):
        e = bytearray(len(body))
        bit = k + i
        e[bit // 8] |= 1 << (bit % 8)
        rows.append((R.crc32(bytes(x ^ y for x, y in zip(body, e))) ^ base, 1 << i))
    pivots = {}
    for v, c in rows:
        while v:
            pb = v.bit_length() - 1
            if pb in pivots:
                pv, pc = pivots[pb]
                v ^= pv
                c ^= pc
            else:
                pivots[pb] = (v, c)
                break
    v, c = target, 0
    while v:
        pb = v.bit_length() - 1
        if pb not in pivots:
            return None
        pv, pc = pivots[pb]
        v ^= pv
        c ^= pc
    return c


def burst_cases(ctx, res, instr, n_msgs, exhaustive_span, per_span, sampled_large):
    """Every bit position x every burst length <= 32 inside the checksummed region of small messages
    (exhaustive over the interior bits up to `exhaustive_span`), sampled on large messages; the
    altered message sits at position j of a set."""
    from afkak.kafkacodec import KafkaCodec as C

    rng = ctx.rng
    b = Batch(ctx)
    stats = {"skip": 0, "undetected_outside_class": 0, "nonvacuous": 0}

    def one(entries, refs, j, e_body, k, order):
        off, msg = entries[j]
        e = bytes(4) + e_body
        bad = bytes(x ^ y for x, y in zip(msg, e))
        data = R.enc_set(entries[:j] + [(off, bad)] + entries[j + 1 :])
        instr.reset(budget(len(data)))
        y, end = drain_set(C._decode_message_set_iter(data))
        res.evaluations += 1
        sc = {"kind": "burst", "entries": [[o, hx(m)] for o, m in entries], "refs": refs, "j": j, "e": hx(e), "k": k, "order": order}

        def mon(l, g):
            if g == ["ok"]:
                stats["nonvacuous"] += 1  # the driver answers `skip`, not `ok`, when crcOk/isBurst do not hold
                res.count("burst_%s=detected" % order)
            elif g == ["skip"]:
                stats["skip"] += 1
                res.count("burst_%s=outside_proved_class" % order)
                if not (y == refs[:j] and end == "ChecksumError"):
                    stats["undetected_outside_class"] += 1
            else:
                res.monitor_failures.append({"what": "an altered message was not rejected with ChecksumError (or altered content was yielded)", "scenario": dict(sc, impl=show_set(y, end)), "tags": ["burst-undetected"]})

        b.add("mon-burst %s %s %d %s %s %s" % (hx(msg), hx(e), k, ";".join(refs[:j]) or "-", ";".join(y) or "-", end), mon)
        return data, sc

    # small messages, exhaustive
    for mi in range(n_msgs):
        entries, refs, msgs = gen_flat_set(rng, 3, 6)
        j = rng.randrange(len(entries))
        nbytes = len(entries[j][1]) - 4
        cnt = 0
        for k, pat, s in burst_patterns(rng, 8 * nbytes, exhaustive_span, per_span):
            e_body = apply_bits(nbytes, k, pat)
            data, sc = one(entries, refs, j, e_body, k, "lsb")
            cnt += 1
            if cnt % 97 == 0:  # model correspondence on a sample of the corrupted sets
                check_set(b, res, instr, data, sc)
            if cnt % 11 == 0:  # the same pattern laid out most-significant-bit first
                e2 = apply_bits(nbytes, k, pat, msb_first=True)
                one(entries, refs, j, e2, lsb_window_start(e2), "msb")
            if len(b.lines) > 20000:
                b.flush()
        res.nontrivial(["burst", [hx(m) for _, m in entries], j])
        res.count("burst_messages_exhaustive")
    # targeted: for every bit of the CRC, a burst that changes the CRC in exactly that bit (a decoder
    # that compares only part of the checksum accepts one of these), plus half-word and random targets
    for _ in range(max(2, n_msgs)):
        entries, refs, msgs = gen_flat_set(rng, 3, rng.choice([6, 40, 300]))
        j = rng.randrange(len(entries))
        body = entries[j][1][4:]
        nbits = 8 * len(body)
        for k in sorted(set([0, nbits - 32, rng.randrange(0, nbits - 31), rng.randrange(0, nbits - 31)])):
            targets = [1 << i for i in range(32)] + [0xFFFF0000, 0x0000FFFF, 0xFF000000, 0x000000FF, 0x80000001] + [rng.getrandbits(32) | 1 for _ in range(4)]
            for t in targets:
                pat = solve_window(body, k, t)
                if not pat:
                    res.notes.append("solve_window found no pattern (reference CRC not bijective on a window?)")
                    continue
                e_body = apply_bits(len(body), k, pat)
                one(entries, refs, j, e_body, k + ((pat & -pat).bit_length() - 1), "targeted")
        res.nontrivial(["burst-targeted", hx(entries[j][1])])
    b.flush()
    # compressed wrapper messages: every single-bit flip and sampled bursts of every span
    for _ in range(max(2, n_msgs // 2)):
        entries, refs, msgs = gen_flat_set(rng, 2, 10)
        while True:
            o, w, _ = gen_wrapper(rng, depth=rng.choice([1, 2]))
            if len(w) >= 30:
                break
        entries.append((o, w))
        refs.append("<wrapper>")
        j = len(entries) - 1
        nbytes = len(w) - 4
        for k in range(8 * nbytes):
            one(entries, refs, j, apply_bits(nbytes, k, 1), k, "wrapper")
        for _ in range(200):
            sp = rng.randrange(2, 33)
            k = rng.randrange(0, 8 * nbytes - sp + 1)
            pat = 1 | (rng.getrandbits(sp - 2) << 1) | (1 << (sp - 1))
            one(entries, refs, j, apply_bits(nbytes, k, pat), k, "wrapper")
        res.nontrivial(["burst-wrapper", hx(w)])
    b.flush()
    # large messages, sampled
    for _ in range(sampled_large):
        entries, refs, msgs = gen_flat_set(rng, 3, rng.choice([200, 2000, 20000]))
        j = rng.randrange(len(entries))
        nbytes = len(entries[j][1]) - 4
        for _ in range(40):
            s = rng.randrange(1, 33)
            k = rng.randrange(0, 8 * nbytes - s + 1)
            pat = 1 if s == 1 else (1 | (rng.getrandbits(max(s - 2, 0)) << 1) | (1 << (s - 1)))
            e_body = apply_bits(nbytes, k, pat)
            data, sc = one(entries, refs, j, e_body, k, "lsb")
        # any alteration confined to four consecutive bytes
        for _ in range(10):
            p = rng.randrange(0, nbytes - 3)
            e_body = bytearray(nbytes)
            e_body[p : p + 4] = rbytes(rng, 4)
            if any(e_body):
                one(entries, refs, j, bytes(e_body), lsb_window_start(e_body), "4bytes")
        res.nontrivial(["burst-large", len(entries[j][1])])
        b.flush()
    b.flush()
    res.extra["burst_monitor_nonvacuous"] = res.extra.get("burst_monitor_nonvacuous", 0) + stats["nonvacuous"]
    res.extra["burst_monitor_vacuous_skipped"] = res.extra.get("burst_monitor_vacuous_skipped", 0) + stats["skip"]
    res.extra["bursts_outside_proved_class"] = stats["skip"]
    res.extra["bursts_outside_proved_class_undetected"] = stats["undetected_outside_class"]


def trunc_cases(ctx, res, instr, n_sets, every_cut_below, sampled_cuts):
    """Every truncation point of small sets, sampled cuts of large ones."""
    from afkak.kafkacodec import KafkaCodec as C

    rng = ctx.rng
    b = Batch(ctx)
    for si in range(n_sets):
        big = si % 8 == 7
        entries, refs, msgs = gen_flat_set(rng, 5, 4000 if big else 24)
        data = R.enc_set(entries)
        lens = ",".join(str(12 + len(m)) for _, m in entries)
        cuts = range(len(data) + 1) if len(data) <= every_cut_below else sorted(set([0, 1, 11, 12, 13, len(data) - 1, len(data)] + [rng.randrange(len(data) + 1) for _ in range(sampled_cuts)] + [sum(12 + len(m) for _, m in entries[:i]) + d for i in range(len(entries) + 1) for d in (-1, 0, 1)]))
        for c in cuts:
            if c < 0 or c > len(data):
                continue
            part = data[:c]
            instr.reset(budget(len(part)))
            y, end = drain_set(C._decode_message_set_iter(part))
            cost = instr.reads + instr.crc_bytes
            res.evaluations += 1
            sc = {"kind": "trunc", "entries": [[o, hx(m)] for o, m in entries], "refs": refs, "c": c}

            def mon(l, g, sc=sc, y=y, end=end):
                if g != ["ok"]:
                    res.monitor_failures.append({"what": "a truncated message set did not yield exactly the complete messages before the cut / the fetch-size-too-small signal", "scenario": dict(sc, impl=show_set(y, end)), "tags": ["truncation-wrong"]})

            b.add("mon-trunc %s %s %d %s %s" % (lens, ";".join(refs), c, ";".join(y) or "-", end), mon)
            impl = ["set " + show_set(y, end), "cost %d gz 0" % cost]

            def chk(l, g, sc=sc, impl=impl):
                if g != impl:
                    disagree(res, "truncated message set: model differs from code", sc, impl, g)

            b.add("decset %d %s" % (DEPTH, hx(part)), chk)
            res.count("trunc_end=" + end)
        res.nontrivial(["trunc", hx(data)[:400], len(data)])
        if len(b.lines) > 20000:
            b.flush()
    b.flush()
    res.traces_validated += n_sets


def fetch_trunc_cases(ctx, res, instr, n):
    """Truncation INSIDE a fetch response: 2..5 partitions (1..3 topics), each with a set of plain
    messages cut at its own point (mid-message, on a boundary, complete, empty) - in particular sets
    that are NOT the last one in the response end in a cut-short message with more bytes following.
    The real decode_fetch_response (v0 and v2) on a tracked buffer; per partition the Lean monitor
    truncOk judges what iterating that partition's messages yielded against the messages that were
    encoded; the whole outcome is compared with the model's."""
    rng = ctx.rng
    decs = real_decoders()
    b = Batch(ctx)
    for i in range(n):
        version = rng.choice([0, 2])
        parts, topics = [], []
        nparts = rng.choice([2, 2, 3, 4, 5])
        for t in range(rng.choice([1, 1, 2, 3])):
            topics.append((b"t%d" % t, []))
        for pi in range(nparts):
            entries, refs, msgs = gen_flat_set(rng, 4, 30)
            data = R.enc_set(entries)
            bounds = [sum(12 + len(m) for _, m in entries[:j]) for j in range(len(entries) + 1)]
            r = rng.random()
            if r < 0.55 and data:
                c = rng.randrange(1, len(data))                      # anywhere strictly inside
            elif r < 0.7 and len(entries) >= 1:
                c = rng.choice(bounds[:-1]) + rng.choice([1, 11, 12, 13, 17])  # just after a boundary: offset/size/crc cut
                c = min(c, len(data))
            elif r < 0.85:
                c = len(data)
            else:
                c = rng.choice(bounds)
            parts.append({"entries": entries, "refs": refs, "c": c, "data": data[:c]})
            topics[rng.randrange(len(topics))][1].append((pi, 0, 100 + pi, data[:c]))
        topics = [t for t in topics if t[1]]
        order = [p[0] for t in topics for p in t[1]]
        fdata, _ = R.enc_fetch(rng.randrange(1, 1000), topics, version, 0)
        sc = {"kind": "fetchtrunc", "version": version, "topics": [[hx(t[0]), [[p[0], hx(p[3])] for p in t[1]]] for t in topics],
              "parts": [{"entries": [[o, hx(m)] for o, m in parts[pi]["entries"]], "refs": parts[pi]["refs"], "c": parts[pi]["c"]} for pi in order]}
        r = eval_dec(instr, decs, "fetch", version, fdata)
        impl = [r["out"], "cost %d gz %d" % (r["cost"], r["gz"])]

        def chk(l, g, sc=sc, impl=impl):
            if g != impl:
                disagree(res, "decode_fetch_response (several partitions, cut sets): model differs from code", sc, [x[:600] for x in impl], [x[:600] for x in g])

        b.add("dec fetch %d %d %s" % (version, DEPTH, hx(fdata)), chk)
        got = r.get("parts")
        if got is None or len(got) != len(order):
            res.monitor_failures.append({"what": "a well-formed fetch response with cut-short message sets was not decoded into its partitions", "scenario": dict(sc, impl=r["out"][:600]), "tags": ["truncation-wrong"]})
        else:
            for k, pi in enumerate(order):
                p = parts[pi]
                y, end = got[k]
                lens = ",".join(str(12 + len(m)) for _, m in p["entries"]) or "-"
                last = k == len(order) - 1

                def mon(l, g, sc=sc, k=k, y=y, end=end, last=last):
                    if g != ["ok"]:
                        res.monitor_failures.append({"what": "fetch response: the cut-short message set of partition #%d (%s in the response) did not yield exactly the complete messages before the cut / the fetch-size-too-small signal" % (k, "last" if last else "not the last"),
                                                     "scenario": dict(sc, partition_index=k, impl=show_set(y, end)), "tags": ["truncation-wrong"]})

                b.add("mon-trunc %s %s %d %s %s" % (lens, ";".join(p["refs"]) or "-", p["c"], ";".join(y) or "-", end), mon)
                cut_kind = "complete" if p["c"] == len(R.enc_set(p["entries"])) else "cut"
                res.count("fetchtrunc:%s:%s:%s" % ("last" if last else "inner", cut_kind, end))
        res.evaluations += 1
        res.nontrivial(["fetchtrunc", hx(fdata)[:400], len(fdata)])
    b.flush()
    res.traces_validated += n


def gen_wrapper_clean(rng):
    """A complete gzip wrapper (either message format) around 0..3 plain messages.
    -> (wrapper offset, wrapper message bytes, canonical form of what it contains): stored inner
    offsets under a format-0 wrapper; wrapper offset - last inner + inner under a format-1 wrapper."""
    magic = rng.choice([0, 1])
    n = rng.randrange(0, 4)
    base = rng.randrange(0, 1000)
    inner, ms = [], []
    rel = 0
    for i in range(n):
        m = gen_msg(rng, 16)
        stored = rel if magic == 1 else base + rel
        inner.append((stored, enc_msg(m)))
        ms.append((stored, m))
        rel += rng.choice([1, 1, 2])
    payload = R.gzip_bytes(R.enc_set(inner))
    attrs = 1 | rng.choice([0, 0, 8])
    wrapper = R.enc_message(magic, attrs, rng.choice([None, b"k"]), payload, rng.choice([0, 5]) if magic == 1 else None)
    woff = (base + ms[-1][0]) if (magic == 1 and ms) else base + rel
    if magic == 1:
        last = ms[-1][0] if ms else 0
        contents = [canon_ref(woff - last + o, *m) for o, m in ms]
    else:
        contents = [canon_ref(o, *m) for o, m in ms]
    return woff, wrapper, contents


def trunc_wrapped_cases(ctx, res, instr, n_sets):
    """Every truncation point of sets whose entries are plain messages and gzip wrappers of both
    formats (possibly empty): the Lean monitor `truncOkG` on the real iterator's outcome."""
    from afkak.kafkacodec import KafkaCodec as C

    rng = ctx.rng
    b = Batch(ctx)
    for _ in range(n_sets):
        entries, contents = [], []
        for _ in range(rng.randrange(1, 5)):
            if rng.random() < 0.5:
                o, w, cont = gen_wrapper_clean(rng)
                entries.append((o, w)); contents.append(cont)
            else:
                m = gen_msg(rng, 12)
                o = rng.randrange(0, 10 ** 6)
                entries.append((o, enc_msg(m))); contents.append([canon_ref(o, *m)])
        data = R.enc_set(entries)
        lens = ",".join(str(12 + len(m)) for _, m in entries)
        cont_s = ";".join("+".join(c) if c else "~" for c in contents)
        for c in range(len(data) + 1):
            part = data[:c]
            instr.reset(budget(len(part)))
            y, end = drain_set(C._decode_message_set_iter(part))
            res.evaluations += 1
            sc = {"kind": "truncg", "entries": [[o, hx(m)] for o, m in entries], "contents": contents, "c": c}

            def mon(l, g, sc=sc, y=y, end=end):
                if g != ["ok"]:
                    res.monitor_failures.append({"what": "a truncated message set with gzip wrappers did not yield exactly the contents of the complete entries / the fetch-size-too-small signal", "scenario": dict(sc, impl=show_set(y, end)), "tags": ["truncation-wrong"]})

            b.add("mon-truncg %s %s %d %s %s" % (lens, cont_s, c, ";".join(y) or "-", end), mon)
            if c % 7 == 0:
                check_set(b, res, instr, part, sc)
            res.count("truncg_end=" + end)
        res.nontrivial(["truncg", hx(data)[:400], len(data)])
        if len(b.lines) > 20000:
            b.flush()
    b.flush()
    res.traces_validated += n_sets


def hostile_cases(ctx, res, instr, per_decoder, random_per_decoder):
    """Random bytes, mutated valid responses, hostile count/length fields - to every decode_*."""
    rng = ctx.rng
    decs = real_decoders()
    b = Batch(ctx)
    worst = {"ratio": 0.0}

    def one(name, version, data, how):
        t0 = time.perf_counter()
        r = eval_dec(instr, decs, name, version, data)
        dt = time.perf_counter() - t0
        if len(data) >= 16:
            worst["ratio"] = max(worst["ratio"], dt / len(data))
        sc = {"kind": "dec", "name": name, "version": version, "data": hx(data), "how": how}
        impl = [r["out"], "cost %d gz %d" % (r["cost"], r["gz"])]

        def chk(l, g):
            if g != impl:
                disagree(res, "decode_%s: model differs from code" % name, sc, impl, g)

        b.add("dec %s %d %d %s %s" % (name, version, DEPTH, hx(data), " ".join(r["gzt"])), chk)

        def achk(l, g):
            if g != ["alloc %d" % r["outer_bytes"]]:
                disagree(res, "decode_%s: bytes sliced by the code differ from the model's allocation measure" % name, sc, r["outer_bytes"], g)

        b.add("deca %s %d %s" % (name, version, hx(data)), achk)

        def amon(l, g):
            if g != ["ok"]:
                res.monitor_failures.append({"what": "decode_%s: bytes sliced exceed the linear bound" % name, "scenario": dict(sc, sliced=r["outer_bytes"]), "tags": ["alloc-superlinear"]})

        b.add("mon-alloc %d %d" % (len(data), r["outer_bytes"]), amon)

        def xchk(l, g):
            if g != ["agree"]:
                disagree(res, "decode_%s: the C12 model and the wire package's model differ" % name, sc, g[1:2], g[2:3])

        b.add("xdec %s %d %d %s %s" % (name, version, DEPTH, hx(data), " ".join(r["gzt"])), xchk)

        def mon(l, g):
            if g != ["ok"]:
                res.monitor_failures.append({"what": "decode_%s: primitive reads exceed the linear bound" % name, "scenario": dict(sc, reads=r["outer"]), "tags": ["reads-superlinear"]})

        b.add("mon-reads %d %d" % (len(data), r["outer"]), mon)
        if name == "fetch":
            def mon3(l, g):
                if g != ["ok"]:
                    res.monitor_failures.append({"what": "fetch response + all its message sets: cost exceeds the linear bound", "scenario": dict(sc, cost=r["cost"], gz=r["gz"]), "tags": ["fetch-total-superlinear"]})

            b.add("mon-fetchtotal %d %d %d" % (len(data), r["gz"], r["cost"]), mon3)
        for cost, gz in r["sets"]:
            def mon2(l, g, cost=cost, gz=gz):
                if g != ["ok"]:
                    res.monitor_failures.append({"what": "fetch response: message-set iteration cost exceeds the linear bound", "scenario": dict(sc, cost=cost, gz=gz), "tags": ["set-cost-superlinear"]})

            b.add("mon-setcost %d %d %d" % (len(data), gz, cost), mon2)
        res.evaluations += 1
        res.count("dec=" + name)
        res.count("how=" + how)
        res.count("outcome=" + (r["out"].split(" ")[1] if r["out"].startswith("error") else "value"))
        if how != "valid":
            res.nontrivial(["dec", name, version, hx(data)])
        res.sample({"op": "dec " + name, "how": how, "data": hx(data)[:100], "impl": r["out"][:160], "cost": r["cost"]}, limit=6)

    for name in sorted(decs):
        for i in range(per_decoder):
            v, data, counts = gen_response(rng, name)
            one(name, v, data, "valid")
            for _ in range(3):
                d2, how = mutate(rng, data, counts)
                one(name, v, d2, how)
            # every count / length field x every hostile value, on a fraction of the bases
            if i % 6 == 0:
                for off, w in counts:
                    for hv in HOSTILE:
                        hv2 = max(-32768, min(32767, hv)) if w == 2 else hv
                        d2 = data[:off] + struct.pack(">h" if w == 2 else ">i", hv2) + data[off + w :]
                        one(name, v, d2, "count-sweep")
        for _ in range(random_per_decoder):
            ver = {"produce": rng.choice([0, 1, 2, -1]), "fetch": rng.choice([0, 2, 3, 1])}.get(name, 0)
            data = rbytes(rng, rng.choice([0, 1, 3, 4, 7, 8, 10, 24, rng.randrange(0, 80), rng.randrange(80, 600)]))
            if rng.random() < 0.5 and len(data) >= 8:  # small counts so that loops are entered
                data = data[:4] + struct.pack(">i", rng.randrange(0, 4)) + data[8:]
            one(name, ver, data, "random")
        if len(b.lines) > 20000:
            b.flush()
    b.flush()
    res.extra["worst_seconds_per_byte"] = worst["ratio"]


def run_consumer(buf, mx, part, start, highwater, act=None):
    """One real Consumer handed one FetchResponse whose messages are the real iterator over `part`.
    `act` ("stop" | "commit" | "shutdown" | None): what the processor does with the Consumer's own API
    while it is being handed the block (re-entrant call, the situation of the Lean theorem
    C12_refetch_after_delivery_model)."""
    from unittest.mock import Mock

    from afkak.common import FetchResponse
    from afkak.consumer import Consumer
    from afkak.kafkacodec import KafkaCodec as C
    from twisted.internet.defer import Deferred
    from twisted.internet.task import Clock

    clock = Clock()
    delivered = []
    reentry = []

    def processor(cn, msgs):
        delivered.extend(m.offset for m in msgs)
        if act is None:
            return None
        try:
            r = getattr(cons, act)()
            if isinstance(r, Deferred):
                r.addErrback(lambda f: reentry.append("errback " + f.type.__name__))
            reentry.append("returned")
        except Exception as e:  # noqa: BLE001 - what the re-entrant call raises is an observation
            reentry.append("raised " + type(e).__name__)
        return None

    cons = Consumer(Mock(reactor=clock), "t", 0, processor, buffer_size=buf, max_buffer_size=mx)
    cons._start_d = Deferred()
    failed = []
    cons._start_d.addErrback(lambda f: failed.append(f.type.__name__))
    cons._fetch_offset = start
    cons._request_d = Deferred()
    raised = None
    try:
        cons._handle_fetch_response([FetchResponse("t", 0, 0, highwater, C._decode_message_set_iter(part))])
    except Exception as e:  # noqa: BLE001 - an escaping exception is an observation, not a harness crash
        raised = type(e).__name__
    scheduled = len(clock.getDelayedCalls())
    # let the scheduled refetch happen (callLater(0, _do_fetch)) and read the FetchRequest the Consumer really
    # hands to its client: refetchOk is then about the next request EMITTED, not about private attributes
    emitted, emit_err = [], None
    try:
        clock.advance(0)
        for call in cons.client.send_fetch_request.call_args_list:
            for rq in call.args[0]:
                emitted.append((rq.topic, rq.partition, int(rq.offset), int(rq.max_bytes)))
    except Exception as e:  # noqa: BLE001
        emit_err = type(e).__name__
    return {"raised": raised, "delivered": delivered, "failed": failed, "new_b": "fail" if failed else str(cons.buffer_size), "after": cons._fetch_offset, "scheduled": scheduled,
            "reentry": reentry, "running": cons._start_d is not None, "emitted": emitted, "emit_err": emit_err}


def grow_cases(ctx, res, n):
    """The real Consumer's reaction to a message set cut short: `_handle_fetch_response` is handed a
    FetchResponse whose messages are the real iterator over the first c bytes of a set.  Observed:
    the next fetch offset, the buffer size (or the failure of the start Deferred), what reached the
    processor.  Compared with `grow` and judged by the Lean monitor `refetchOk`."""
    import logging

    rng = ctx.rng
    b = Batch(ctx)
    logging.getLogger("afkak.consumer").setLevel(logging.CRITICAL)
    for i in range(n):
        mode = rng.randrange(4)
        if mode == 0:
            buf, mx = rng.choice([1, 4096, 2 ** 20 - 1, 2 ** 20, 2 ** 20 + 1, 2 ** 24]), None
        else:
            buf = rng.choice([1, 2, 1000, 4096, 65536, 2 ** 20, 2 ** 20 + 1, 2 ** 22, rng.randrange(1, 2 ** 25)])
            mx = rng.choice([buf, buf + 1, buf * 2 - 1 if buf > 1 else 2, buf * 2, buf * 16, buf * 16 + 1, buf * 3, 2 ** 26 if buf <= 2 ** 26 else buf])
        start = rng.choice([0, 5, 10 ** 6])
        nmsg = rng.randrange(1, 5)
        entries, refs, offs = [], [], []
        off = start
        for _ in range(nmsg):
            m = gen_msg(rng, 12)
            entries.append((off, enc_msg(m)))
            offs.append(off)
            off += rng.choice([1, 1, 3])
        data = R.enc_set(entries)
        bounds = [sum(12 + len(m) for _, m in entries[:j]) for j in range(nmsg + 1)]
        c = rng.choice([0, 1, 11, 12, 13, len(data), rng.randrange(len(data) + 1), rng.choice(bounds), max(0, rng.choice(bounds) - 1), min(len(data), rng.choice(bounds) + 1)])
        k = sum(1 for x in bounds[1:] if x <= c)
        # what the processor does to the Consumer while it is handed the block (half of the cases: nothing)
        act = rng.choice([None, None, None, "stop", "commit", "shutdown"])
        g_ = run_consumer(buf, mx, data[:c], start, off, act)
        delivered, failed, new_b, after, scheduled = g_["delivered"], g_["failed"], g_["new_b"], g_["after"], g_["scheduled"]
        res.evaluations += 1
        sc = {"kind": "grow", "buffer": buf, "max": mx, "entries": [[o, hx(m)] for o, m in entries], "c": c, "start": start, "act": act}
        if g_["raised"]:
            res.monitor_failures.append({"what": "handling a fetch response whose message set is cut short raised %s" % g_["raised"], "scenario": sc, "tags": ["truncated-raises"]})
            continue
        if delivered != offs[:k]:
            res.monitor_failures.append({"what": "the consumer's processor did not receive exactly the complete messages of a set cut short", "scenario": dict(sc, delivered=delivered, expected=offs[:k]), "tags": ["truncated-delivery-wrong"]})

        em = g_.get("emitted") or []
        if not failed and g_["running"] and scheduled == 1 and not g_["raised"]:
            res.count("grow_next_fetch_request_emitted=%d" % len(em))
            if len(em) != 1 or em[0][:2] != ("t", 0) or g_.get("emit_err"):
                res.monitor_failures.append({"what": "the refetch scheduled after a fetch response did not hand exactly one FetchRequest for the partition to the client", "scenario": dict(sc, emitted=em, error=g_.get("emit_err")), "tags": ["refetch-not-emitted"]})
            else:
                if (em[0][2], str(em[0][3])) != (after, new_b):
                    res.count("grow_emitted_request_differs_from_private_state")
                # judged: the request the client is handed (offset, max_bytes)
                after, new_b = em[0][2], str(em[0][3])

        def mon(l, g, sc=sc, new_b=new_b, after=after):
            if g != ["ok"]:
                res.monitor_failures.append({"what": "after a message set cut short the consumer skipped data or did not enlarge its buffer as specified", "scenario": dict(sc, new_buffer=new_b, fetch_offset_after=after), "tags": ["skipped-or-not-enlarged"]})

        b.add("mon-refetch %s %d %d %d %d %s %d %s" % (",".join(map(str, offs)), k, start, after, buf, "N" if mx is None else mx, c, new_b), mon)

        def chk(l, g, sc=sc, new_b=new_b, k=k, c=c, buf=buf):
            want = ["fail"] if new_b == "fail" else ["int " + new_b]
            if k == 0 and c > 0 and g != want:
                disagree(res, "buffer growth: model differs from Consumer._handle_fetch_response", sc, want, g)

        b.add("grow %d %s" % (buf, "N" if mx is None else mx), chk)
        # a processor that stopped / shut down the consumer ends the run: no refetch is due then
        if not failed and g_["running"] and scheduled != 1:
            res.monitor_failures.append({"what": "no refetch was scheduled after handling the fetch response", "scenario": dict(sc, scheduled=scheduled), "tags": ["no-refetch"]})
        if not g_["running"] and not failed and not (k > 0 and act in ("stop", "shutdown")):
            res.monitor_failures.append({"what": "the consumer is no longer running after handling a fetch response although nothing stopped it", "scenario": dict(sc, reentry=g_["reentry"]), "tags": ["stopped-by-itself"]})
        if k > 0:
            res.count("grow_reentry=%s" % (act or "none"))
            for x in g_["reentry"]:
                res.count("grow_reentry_outcome=%s:%s" % (act, x))
            if act:
                res.nontrivial(["grow-reentry", act, buf, mx, c, hx(data)])
        res.count("grow_case=%s" % ("too-small" if (k == 0 and c > 0) else ("empty" if c == 0 else "delivered")))
        res.count("grow_outcome=%s" % ("fail" if failed else ("grown" if new_b != str(buf) else "same")))
        if k == 0 and c > 0:
            res.nontrivial(["grow", buf, mx, c, hx(data)])
    b.flush()
    res.traces_validated += n


def f15_family(n):
    """The cursor-looping layouts of finding F15 (fixed): every loop of every decoder can be made to
    read the same bytes again by a string length < -1.  Kept as a generator so that they run on
    every tier: (name, version, data)."""
    out = []
    # metadata: topic loop parked on (err, strlen=-8), reads the zero partition count before it again
    out.append(("metadata", 0, struct.pack(">iii", 1, 0, n) + struct.pack(">hhi", 0, 0, 0) + struct.pack(">hh", 0, -8)))
    # join-group protocol metadata: subscription strlen=-2 -> cursor does not move
    out.append(("join_group_protocol_metadata", 0, struct.pack(">hi", 0, n) + struct.pack(">h", -2)))
    # offset-fetch: partition loop, metadata strlen = -16 walks back over the partition entry
    out.append(("offset_fetch", 0, struct.pack(">ii", 1, 1) + struct.pack(">h", 0) + struct.pack(">i", n) + struct.pack(">iq", 0, 0) + struct.pack(">h", -16) + struct.pack(">h", 0)))
    # join-group: member loop, member_id strlen=-2 then member_data len -6: net zero
    out.append(("join_group", 0, struct.pack(">ihi", 1, 0, 1) + struct.pack(">hhh", 0, 0, 0) + struct.pack(">i", n) + struct.pack(">h", 0) + struct.pack(">i", -6)))
    # fetch: partition loop, message-set size -18 walks back over the 14-byte partition header
    for v, head in ((0, struct.pack(">ii", 1, 1)), (2, struct.pack(">iii", 1, 0, 1))):
        out.append(("fetch", v, head + struct.pack(">h", 0) + struct.pack(">i", n) + struct.pack(">ihq", 0, 0, 0) + struct.pack(">i", -18)))
    # sync-group member assignment: second topic has strlen -6: re-reads the first topic's zero partition count
    out.append(("sync_group_member_assignment", 0, struct.pack(">hi", 0, n) + struct.pack(">h", 0) + struct.pack(">i", 0) + struct.pack(">h", -6)))
    return out


def cost_evidence(ctx, res, instr):
    """The F15 layouts with a huge count: the real decoder must stop after a number of reads bounded
    by the input length.  Wall clock and peak allocation are recorded as evidence only."""
    decs = real_decoders()
    b = Batch(ctx)
    rows = []
    for name, v, data in f15_family(2 ** 31 - 1) + f15_family(4 * 10 ** 6):
        tracemalloc.start()
        t0 = time.perf_counter()
        r = eval_dec(instr, decs, name, v, data)
        dt = time.perf_counter() - t0
        peak = tracemalloc.get_traced_memory()[1]
        tracemalloc.stop()
        rows.append({"decoder": name, "len": len(data), "reads": r["outer"], "seconds": round(dt, 6), "peak_bytes": peak, "outcome": r["out"][:60]})
        sc = {"kind": "dec", "name": name, "version": v, "data": hx(data), "how": "f15-layout"}
        impl = [r["out"], "cost %d gz %d" % (r["cost"], r["gz"])]

        def chk(l, g, sc=sc, impl=impl, name=name):
            if g != impl:
                disagree(res, "decode_%s: model differs from code" % name, sc, impl, g)

        b.add("dec %s %d %d %s" % (name, v, DEPTH, hx(data)), chk)

        def mon(l, g, sc=sc, r=r, name=name):
            if g != ["ok"]:
                res.monitor_failures.append({"what": "decode_%s: primitive reads exceed the linear bound (cursor-looping layout)" % name, "scenario": dict(sc, reads=r["outer"]), "tags": ["reads-superlinear"]})

        b.add("mon-reads %d %d" % (len(data), r["outer"]), mon)
        res.evaluations += 1
        res.nontrivial(["f15", name, hx(data)])
    b.flush()
    res.extra["cost_evidence"] = rows


def alloc_evidence(ctx, res, instr):
    """tracemalloc peak and wall clock per input size class (evidence only, never compared): a valid
    response / message set of about that size and a hostile variant of it (a count field claiming
    2^31-1), decoded by the real code."""
    from afkak.kafkacodec import KafkaCodec as C

    rng = ctx.rng
    decs = real_decoders()
    rows = []

    def measure(label, kind, n, fn):
        instr.reset(budget(n) * 4)
        tracemalloc.start()
        t0 = time.perf_counter()
        try:
            fn()
            out = "value"
        except (Exception, ReadBudgetExceeded) as e:  # noqa: BLE001
            out = type(e).__name__
        dt = time.perf_counter() - t0
        peak = tracemalloc.get_traced_memory()[1]
        tracemalloc.stop()
        rows.append({"input": label, "kind": kind, "len": n, "outcome": out, "reads": instr.reads, "sliced_bytes": instr.measured,
                     "peak_bytes": peak, "peak_per_input_byte": round(peak / max(n, 1), 2), "seconds": round(dt, 5)})

    for size in ctx.scale([256, 4096, 65536], [256, 4096, 65536, 1048576]):
        # metadata: many topics with a few partitions
        per_topic = 2 + 2 + 6 + 4 + 3 * (14 + 4 + 8 + 4 + 8)
        nt = max(1, size // per_topic)
        topics = [(0, b"t%05d" % i, [(0, p, 1, [1, 2], [1, 2]) for p in range(3)]) for i in range(nt)]
        data, counts = R.enc_metadata(1, [(1, b"host", 9092)], topics)
        measure("metadata", "valid", len(data), lambda: decs["metadata"](tracked(data), 0))
        off, w = counts[2]
        bad = data[:off] + struct.pack(">i", 2 ** 31 - 1) + data[off + w :]
        measure("metadata", "count=2^31-1", len(bad), lambda: decs["metadata"](tracked(bad), 0))
        # a message set of ~size bytes in ~100-byte messages, iterated; and the same cut short
        msgs = [(i, R.enc_message(0, 0, None, bytes(rng.getrandbits(8) for _ in range(64)))) for i in range(max(1, size // 90))]
        ms = R.enc_set(msgs)
        measure("message set", "valid", len(ms), lambda: list(C._decode_message_set_iter(tracked(ms))))
        measure("message set", "cut short", len(ms) - 7, lambda: list(C._decode_message_set_iter(tracked(ms[:-7]))))
        fdata, _ = R.enc_fetch(1, [(b"t", [(0, 0, len(msgs), ms)])])
        measure("fetch + sets", "valid", len(fdata), lambda: [list(r.messages) for r in decs["fetch"](tracked(fdata), 0)])
    res.extra["alloc_by_size"] = rows


def scaling_data(shape, n, tiny, wmagic):
    """n minimal messages (cycling through `tiny`): as one flat set, the same cut 5 bytes short, or as
    the payload of one gzip wrapper of format `wmagic`."""
    if shape == "gzip-wrapper":
        inner = R.enc_set([((i if wmagic == 1 else 1000 + i), tiny[i & 3]) for i in range(n)])
        w = R.enc_message(wmagic, 1, None, R.gzip_bytes(inner), 0 if wmagic == 1 else None)
        return R.enc_set([(1000 + n - 1, w)])
    flat = R.enc_set([(i, tiny[i & 3]) for i in range(n)])
    return flat[: len(flat) - 5] if shape == "flat-cut" else flat


def scaling_cases(ctx, res, instr):
    """Linear or not?  One message set (and one gzip wrapper's payload) holding thousands to tens of
    thousands of minimal messages, iterated by the real decoder on a tracked buffer: the MEASURED bytes
    sliced and the counted reads/checksummed bytes must satisfy the same Lean monitors (setAllocOk,
    setCostOk) the theorems C12_alloc_msgset / C12_linear_msgset prove for every input.  The two
    smallest sizes are also compared with the model exactly (the list-based model is itself too slow
    beyond ~1000 entries; the monitors are arithmetic on the measured numbers).  Per-byte figures and
    wall clock go to the evidence (growth of sliced bytes per input byte is what tells linear from
    quadratic; time is evidence only)."""
    rng = ctx.rng
    b = Batch(ctx)
    rows = []
    sizes = ctx.scale([200, 1000, 6000, 30000], [200, 1000, 6000, 30000, 100000])
    for n in sizes:
        magic = rng.choice([0, 1])
        tiny = [R.enc_message(magic, 0, None, rng.choice([b"", None, b"x"]), 0 if magic == 1 else None) for _ in range(4)]
        wmagic = rng.choice([0, 1])
        shapes = [(sh, scaling_data(sh, n, tiny, wmagic)) for sh in (("flat", "gzip-wrapper", "flat-cut") if n <= 30000 else ("flat",))]
        for shape, data in shapes:
            t0 = time.perf_counter()
            r = eval_set(instr, data)
            dt = time.perf_counter() - t0
            # the replay rebuilds the bytes from (shape, messages, tiny, wmagic): too long to store
            sc = {"kind": "scaling", "shape": shape, "messages": n, "tiny": [hx(t) for t in tiny], "wmagic": wmagic, "len": len(data)}
            tot = len(data) + r["gz"]
            rows.append({"shape": shape, "messages": n, "len": len(data), "gz": r["gz"], "yielded": len(r["yielded"]), "end": r["end"], "reads+crc": r["cost"],
                         "sliced": r["alloc"], "sliced_per_byte": round(r["alloc"] / max(tot, 1), 3), "cost_per_byte": round(r["cost"] / max(tot, 1), 3), "seconds": round(dt, 4)})
            if r["end"] != "ok" or len(r["yielded"]) != (n - 1 if shape == "flat-cut" else n):
                res.monitor_failures.append({"what": "a valid large message set is not decoded completely", "scenario": dict(sc, end=r["end"], yielded=len(r["yielded"])), "tags": ["valid-set-not-identity"]})

            def amon(l, g, sc=sc, r=r):
                if g != ["ok"]:
                    res.monitor_failures.append({"what": "message-set iteration: bytes sliced/copied exceed the linear bound (many tiny messages)", "scenario": dict(sc, alloc=r["alloc"], gz=r["gz"]), "tags": ["set-alloc-superlinear"]})

            b.add("mon-setalloc %d %d %d" % (len(data), r["gz"], r["alloc"]), amon)

            def mon(l, g, sc=sc, r=r):
                if g != ["ok"]:
                    res.monitor_failures.append({"what": "message-set iteration cost exceeds the linear bound (many tiny messages)", "scenario": dict(sc, cost=r["cost"], gz=r["gz"]), "tags": ["set-cost-superlinear"]})

            b.add("mon-setcost %d %d %d" % (len(data), r["gz"], r["cost"]), mon)
            if n <= 1000:
                impl = ["alloc %d gz %d" % (r["alloc"], r["gz"])]

                def achk(l, g, sc=sc, impl=impl):
                    if g != impl:
                        disagree(res, "message-set iteration (many tiny messages): bytes sliced by the code differ from the model's allocation measure", sc, impl, g)

                b.add("decseta %d %s %s" % (DEPTH, hx(data), " ".join(r["gzt"])), achk)
                impl2 = ["set " + show_set(r["yielded"], r["end"]), "cost %d gz %d" % (r["cost"], r["gz"])]

                def chk(l, g, sc=sc, impl2=impl2):
                    if g != impl2:
                        disagree(res, "message-set iteration (many tiny messages): model differs from code", sc, [x[:300] for x in impl2], [x[:300] for x in g])

                b.add("decset %d %s %s" % (DEPTH, hx(data), " ".join(r["gzt"])), chk)
            res.evaluations += 1
            res.count("scaling_shape=%s" % shape)
            res.count("scaling_messages_log2=%d" % n.bit_length())
            res.nontrivial(["scaling", shape, n, hx(data[:64])])
    b.flush()
    res.extra["scaling_by_size"] = rows
    flat_rows = [x for x in rows if x["shape"] == "flat"]
    if len(flat_rows) >= 2:
        res.extra["scaling_sliced_per_byte_growth"] = round(flat_rows[-1]["sliced_per_byte"] / max(flat_rows[0]["sliced_per_byte"], 1e-9), 3)


def run_corpus(ctx, res, instr):
    if not os.path.isdir(CORPUS):
        return
    decs = real_decoders()
    b = Batch(ctx)
    for fn in sorted(os.listdir(CORPUS)):
        if not fn.endswith(".json"):
            continue
        sc = json.load(open(os.path.join(CORPUS, fn)))
        sc = sc.get("scenario", sc)
        if sc.get("kind") == "dec":
            data = b"" if sc["data"] == "-" else bytes.fromhex(sc["data"])
            r = eval_dec(instr, decs, sc["name"], sc["version"], data)
            impl = [r["out"], "cost %d gz %d" % (r["cost"], r["gz"])]

            def chk(l, g, sc=sc, impl=impl):
                if g != impl:
                    disagree(res, "corpus %s: model differs from code" % sc.get("name"), sc, impl, g)

            b.add("dec %s %d %d %s %s" % (sc["name"], sc["version"], DEPTH, hx(data), " ".join(r["gzt"])), chk)

            def mon(l, g, sc=sc, r=r):
                if g != ["ok"]:
                    res.monitor_failures.append({"what": "corpus: primitive reads exceed the linear bound", "scenario": dict(sc, reads=r["outer"]), "tags": ["reads-superlinear"]})

            b.add("mon-reads %d %d" % (len(data), r["outer"]), mon)
        elif sc.get("kind") == "set":
            data = b"" if sc["data"] == "-" else bytes.fromhex(sc["data"])
            check_set(b, res, instr, data, sc)
        res.count("corpus")
        res.evaluations += 1
    b.flush()


def run(ctx, res):
    res.rule = (
        "crc: random byte strings (every length 0..69, long) vs zlib. sets: 1-6 random v0/v1 messages (null/empty/long key+value, "
        "boundary timestamps/offsets), optionally a gzip wrapper (depth<=2), from the independent encoder. burst: every bit position x "
        "every span<=32 (interior bits exhaustive up to a span limit, sampled above) inside the checksummed region of small messages at "
        "any position of a set, sampled on large ones, plus 4-byte alterations and MSB-first layouts. trunc: every cut of small sets, "
        "boundary+-1 and sampled cuts of large ones. hostile: each decode_* on valid/mutated/random bytes and every count/length field x "
        "{-32768,-8,-2,-1,0,32767,2^31-1}. non-trivial = a corrupted/truncated/hostile input (not a plain valid one); distinct by content hash."
    )
    if ctx.tier == "thorough":
        run_sharded(ctx, res)
    else:
        sections(ctx, res, 1.0, corpus=True)
    res.notes.append("real time and peak allocation of the Kafka-level decoders are recorded under cost_evidence / worst_seconds_per_byte / alloc_by_size as evidence only; "
                     "the real peak allocation of afkak.codec.gzip_decode (alone and under decode_fetch_response + iteration) on hostile gzip members IS compared with a linear bound (gzip_alloc_*)")


def sections(ctx, res, f, corpus):
    """All generator sections, sizes scaled by `f` (a shard of the thorough tier runs a fraction)."""

    def n(q, t):
        return max(1, int(ctx.scale(q, t) * f))

    # a stage that trips over an implementation which no longer offers what it drives is a broken
    # correspondence (exit 1, the other stages still run), not a crash of the check
    from harness.lib.xl5_guard import guarded as G

    with Instr() as instr:
        if corpus:
            G(res, "crc/corpus", run_corpus, ctx, res, instr)
            G(res, "crc/cost-evidence", cost_evidence, ctx, res, instr)
            G(res, "crc/alloc-evidence", alloc_evidence, ctx, res, instr)
            G(res, "crc/scaling", scaling_cases, ctx, res, instr)
        G(res, "crc/crc", crc_cases, ctx, res, n(300, 3000))
        G(res, "crc/msgset", msgset_cases, ctx, res, instr, n(600, 8000))
        G(res, "crc/burst", burst_cases, ctx, res, instr, n_msgs=n(6, 24), exhaustive_span=ctx.scale(8, 11), per_span=ctx.scale(2, 6), sampled_large=n(20, 150))
        G(res, "crc/trunc", trunc_cases, ctx, res, instr, n_sets=n(100, 1200), every_cut_below=ctx.scale(400, 1500), sampled_cuts=ctx.scale(20, 100))
        G(res, "crc/trunc-wrapped", trunc_wrapped_cases, ctx, res, instr, n_sets=n(40, 500))
        G(res, "crc/fetch-trunc", fetch_trunc_cases, ctx, res, instr, n(400, 6000))
        G(res, "crc/hostile", hostile_cases, ctx, res, instr, per_decoder=n(40, 500), random_per_decoder=n(300, 4000))
    G(res, "crc/grow", grow_cases, ctx, res, n(1500, 20000))
    if corpus:
        # real Consumer over the real KafkaClient over the simulated cluster, a log holding a message
        # larger than buffer_size: the buffer must grow by the rule and every message be delivered
        # (the fetch-size-too-small signal has to reach the CONSUMER's iteration through the client)
        from harness.lib import consumer_fullstack

        G(res, "crc/consumer-growth", consumer_fullstack.growth_stage, ctx, res, "C12", ctx.scale(25, 40))
        # the REAL gzip decoder (a parameter of the model) on hostile gzip members inside messages with
        # a valid CRC: real peak allocation (tracemalloc) against a bound linear in input + inflated bytes
        from harness.lib import xl5_gzip
        from harness.lib.xl5_guard import guarded

        guarded(res, "crc/gzip-alloc", xl5_gzip.stage, ctx, res, ctx.scale(500, 6000))


SHARDS = 16
SHARD_FRACTION = 0.4  # each of the 16 shards runs 40 % of the single-process thorough sizes


class ShardCtx:
    """What a worker process needs of core.Ctx: tier, seed, an rng derived from (seed, shard), the model runner."""

    def __init__(self, tier, seed, shard):
        import random

        from harness import core

        self.tier, self.seed, self.shard = tier, seed, shard
        self.rng = random.Random((seed * 1000003 + shard * 7919 + 12) ^ 0xC12)
        self._run_model = core.run_model

    def scale(self, q, t):
        return t if self.tier == "thorough" else q

    def model(self, comp, lines):
        return self._run_model(comp, lines)


def _shard_worker(args):
    tier, seed, shard = args
    ctx = ShardCtx(tier, seed, shard)
    res = Result()
    try:
        sections(ctx, res, SHARD_FRACTION, corpus=(shard == 0))
        crashed = None
    except Exception:  # noqa: BLE001 - reported to the parent, which turns it into "undecided"
        import traceback

        crashed = traceback.format_exc()
    return {"shard": shard, "crashed": crashed, "evaluations": res.evaluations, "distinct": res.distinct, "samples": res.samples,
            "hist": res.hist, "traces_validated": res.traces_validated, "disagreements": res.disagreements[:50],
            "n_disagreements": len(res.disagreements), "monitor_failures": res.monitor_failures[:50],
            "n_monitor_failures": len(res.monitor_failures), "notes": res.notes, "extra": res.extra}


def run_sharded(ctx, res):
    """Thorough tier: 16 worker processes, each with its own rng derived from (VERIF_SEED, shard)."""
    import multiprocessing

    from harness import core

    with multiprocessing.get_context("fork").Pool(SHARDS) as pool:
        outs = pool.map(_shard_worker, [(ctx.tier, ctx.seed, i) for i in range(SHARDS)])
    for o in outs:
        if o["crashed"]:
            raise core.Undecided("shard %d crashed:\n%s" % (o["shard"], o["crashed"][-3000:]))
        res.evaluations += o["evaluations"]
        res.distinct |= o["distinct"]
        for sm in o["samples"]:
            res.sample(sm, limit=6)
        for k, v in o["hist"].items():
            res.count(k, v)
        res.traces_validated += o["traces_validated"]
        res.disagreements.extend(o["disagreements"])
        res.monitor_failures.extend(o["monitor_failures"])
        for nt in o["notes"]:
            if nt not in res.notes:
                res.notes.append(nt)
        for k, v in o["extra"].items():
            if isinstance(v, (int, float)) and isinstance(res.extra.get(k), (int, float)):
                res.extra[k] = max(res.extra[k], v) if k.startswith("worst") else res.extra[k] + v
            elif k not in res.extra:
                res.extra[k] = v
    res.extra["shards"] = SHARDS


def search(ctx, res, broken):
    """A proof or the correspondence broke: look for an input on which the PROPERTY fails."""
    r2 = Result()
    with Instr() as instr:
        cost_evidence(ctx, r2, instr)
        scaling_cases(ctx, r2, instr)
        burst_cases(ctx, r2, instr, n_msgs=ctx.scale(3, 10), exhaustive_span=ctx.scale(6, 9), per_span=2, sampled_large=ctx.scale(10, 40))
        trunc_cases(ctx, r2, instr, n_sets=ctx.scale(40, 300), every_cut_below=600, sampled_cuts=30)
        trunc_wrapped_cases(ctx, r2, instr, n_sets=ctx.scale(30, 200))
        fetch_trunc_cases(ctx, r2, instr, ctx.scale(600, 4000))
        hostile_cases(ctx, r2, instr, per_decoder=ctx.scale(20, 120), random_per_decoder=ctx.scale(100, 800))
        msgset_cases(ctx, r2, instr, ctx.scale(100, 1000))
    grow_cases(ctx, r2, ctx.scale(300, 3000))
    from harness.lib import consumer_fullstack

    consumer_fullstack.growth_stage(ctx, r2, "C12", ctx.scale(40, 300))
    if not r2.monitor_failures:
        from harness.lib import xl5_gzip

        xl5_gzip.stage(ctx, r2, ctx.scale(1500, 10000))
    return r2.monitor_failures[:3]


def replay(ctx, data):
    f = data.get("failure") or {}
    if isinstance(f.get("scenario"), dict) and "fullstack_spec" in f["scenario"]:
        from harness.lib import consumer_check

        return consumer_check.replay(ctx, data, "C12")
    if isinstance(f.get("scenario"), dict) and f["scenario"].get("xl5") == "c12-gzip":
        from harness.lib import xl5_gzip

        rc = xl5_gzip.replay(ctx, f["scenario"])
        print("VIOLATION property=C12 replay=(this file)" if rc else "scenario passes on the current tree")
        return rc
    nlc = (data.get("no_longer_checks") or [{}])[0].get("what", {})
    sc = f.get("scenario") or (nlc.get("scenario") if isinstance(nlc, dict) else None) or data.get("scenario") or (data if "kind" in data else {})
    print("replay scenario:", json.dumps(sc)[:2000])
    res = Result()
    with Instr() as instr:
        b = Batch(ctx)
        kind = sc.get("kind")
        if kind == "dec":
            d = b"" if sc["data"] == "-" else bytes.fromhex(sc["data"])
            r = eval_dec(instr, real_decoders(), sc["name"], sc["version"], d)
            print("impl :", r["out"][:1500], "| reads", r["outer"], "cost", r["cost"])
            g = ctx.model("crc", ["dec %s %d %d %s %s" % (sc["name"], sc["version"], DEPTH, hx(d), " ".join(r["gzt"])), "mon-reads %d %d" % (len(d), r["outer"])])
            print("model:", g[0])
            print("monitor reads<=2*len+1:", g[1])
            bad = g[1] != ["ok"]
        elif kind in ("burst", "trunc"):
            from afkak.kafkacodec import KafkaCodec as C

            entries = [(o, bytes.fromhex(m)) for o, m in sc["entries"]]
            refs = sc["refs"]
            if kind == "burst":
                j = sc["j"]
                e = bytes.fromhex(sc["e"])
                off, msg = entries[j]
                badm = bytes(x ^ y for x, y in zip(msg, e))
                dat = R.enc_set(entries[:j] + [(off, badm)] + entries[j + 1 :])
                y, end = drain_set(C._decode_message_set_iter(dat))
                line = "mon-burst %s %s %d %s %s %s" % (hx(msg), hx(e), sc["k"], ";".join(refs[:j]) or "-", ";".join(y) or "-", end)
            else:
                dat = R.enc_set(entries)[: sc["c"]]
                y, end = drain_set(C._decode_message_set_iter(dat))
                lens = ",".join(str(12 + len(m)) for _, m in entries)
                line = "mon-trunc %s %s %d %s %s" % (lens, ";".join(refs), sc["c"], ";".join(y) or "-", end)
            g = ctx.model("crc", [line, "decset %d %s" % (DEPTH, hx(dat))])
            print("impl :", show_set(y, end)[:1500])
            print("model:", g[1])
            print("monitor:", g[0])
            bad = g[0] not in (["ok"], ["skip"])
        elif kind == "truncg":
            from afkak.kafkacodec import KafkaCodec as C

            entries = [(o, bytes.fromhex(m)) for o, m in sc["entries"]]
            dat = R.enc_set(entries)[: sc["c"]]
            y, end = drain_set(C._decode_message_set_iter(dat))
            lens = ",".join(str(12 + len(m)) for _, m in entries)
            cont_s = ";".join("+".join(c) if c else "~" for c in sc["contents"])
            g = ctx.model("crc", ["mon-truncg %s %s %d %s %s" % (lens, cont_s, sc["c"], ";".join(y) or "-", end)])
            print("impl :", show_set(y, end)[:1500])
            print("monitor:", g[0])
            bad = g[0] != ["ok"]
        elif kind == "set":
            d = b"" if sc["data"] == "-" else bytes.fromhex(sc["data"])
            r = check_set(b, res, instr, d, sc)
            b.flush()
            print("impl :", show_set(r["yielded"], r["end"])[:1500], "cost", r["cost"])
            print("disagreements:", res.disagreements[:1], "monitor failures:", res.monitor_failures[:1])
            bad = bool(res.monitor_failures)
        elif kind == "scaling":
            d = scaling_data(sc["shape"], sc["messages"], [bytes.fromhex(t) for t in sc["tiny"]], sc["wmagic"])
            r = eval_set(instr, d)
            g = ctx.model("crc", ["mon-setalloc %d %d %d" % (len(d), r["gz"], r["alloc"]), "mon-setcost %d %d %d" % (len(d), r["gz"], r["cost"])])
            print("impl : %d messages yielded, end %s; input %d bytes + gunzip %d; sliced %d bytes (measured), reads+checksummed %d" % (len(r["yielded"]), r["end"], len(d), r["gz"], r["alloc"], r["cost"]))
            print("monitor setAllocOk (sliced <= 3*(len+gz)):", g[0])
            print("monitor setCostOk (reads+crc <= 2*(len+gz)+2):", g[1])
            bad = g[0] != ["ok"] or g[1] != ["ok"]
        elif kind == "fetchtrunc":
            topics = [(bytes.fromhex(t) if t != "-" else b"", [(pi, 0, 100 + pi, b"" if d == "-" else bytes.fromhex(d)) for pi, d in ps]) for t, ps in sc["topics"]]
            fdata, _ = R.enc_fetch(1, topics, sc["version"], 0)
            r = eval_dec(instr, real_decoders(), "fetch", sc["version"], fdata)
            print("impl :", r["out"][:1500])
            got = r.get("parts") or []
            bad = len(got) != len(sc["parts"])
            lines = []
            for p_, (y, end) in zip(sc["parts"], got):
                lens = ",".join(str(12 + len(m) // 2) for _, m in p_["entries"]) or "-"
                lines.append("mon-trunc %s %s %d %s %s" % (lens, ";".join(p_["refs"]) or "-", p_["c"], ";".join(y) or "-", end))
            g = ctx.model("crc", lines) if lines else []
            for k, (l, a) in enumerate(zip(lines, g)):
                print("partition #%d monitor truncOk: %s   (%s)" % (k, a, l[:300]))
                bad = bad or a != ["ok"]
        elif kind == "grow":
            import logging

            logging.getLogger("afkak.consumer").setLevel(logging.CRITICAL)
            entries = [(o, bytes.fromhex(m)) for o, m in sc["entries"]]
            dat = R.enc_set(entries)
            bounds = [sum(12 + len(m) for _, m in entries[:j]) for j in range(len(entries) + 1)]
            k = sum(1 for x in bounds[1:] if x <= sc["c"])
            offs = [o for o, _ in entries]
            g_ = run_consumer(sc["buffer"], sc["max"], dat[: sc["c"]], sc["start"], offs[-1] + 1, sc.get("act"))
            line = "mon-refetch %s %d %d %d %d %s %d %s" % (",".join(map(str, offs)), k, sc["start"], g_["after"], sc["buffer"], "N" if sc["max"] is None else sc["max"], sc["c"], g_["new_b"])
            g = ctx.model("crc", [line, "grow %d %s" % (sc["buffer"], "N" if sc["max"] is None else sc["max"])])
            print("impl : raised", g_["raised"], "delivered", g_["delivered"], "fetch offset", sc["start"], "->", g_["after"], "buffer", sc["buffer"], "->", g_["new_b"], "processor re-entered", sc.get("act"), g_["reentry"])
            print("model: grow", g[1], "complete messages", k)
            print("monitor:", g[0])
            bad = g[0] != ["ok"] or g_["delivered"] != offs[:k] or bool(g_["raised"])
        else:
            print("nothing to replay for kind", kind)
            return 0
    if bad:
        print("VIOLATION property=C12 replay=(this file)")
        return 1
    return 0
