"""C13 - consumer: correspondence of afkak/consumer.py with Afkak/Consumer.lean + the C13 monitors on implementation traces.
The body is shared by the four consumer properties: harness/lib/consumer_check.py."""
from harness.lib import consumer_check as K

COMPONENTS = ["consumer"]
TRUSTED = [
    "scripted environment: harness/lib/consumer_fakeclient.py reproduces the real KafkaClient's result kinds and cancel outcomes as listed in harness/lib/client_iface.md (kept honest by the client-layer checks and the full-stack stage)",
    "Deferred / inlineCallbacks / LoopingCall / DelayedCall semantics as flattened into the handlers of Afkak/Consumer.lean",
]
ASSUMPTIONS = [
    "model and theorems: the processor calls stop/commit/shutdown (not start) from inside a call and returns None, raises, or returns a plain Deferred (one that fires when cancelled); API calls made from inside the processor do not themselves trigger processor invocations that re-enter the API. Outside this (restart from inside the processor, Deferreds that outlive their cancellation) only the beyond-model stage applies: Lean monitors on implementation traces, no model",
    "a client request completes at most once; a fetch/offset request whose cancel the client swallowed completes later, with a failure or a success (client_iface.md: the client goes on resolving metadata), and the consumer drops that late result; a coordinator-routed commit whose cancel was swallowed completes later only with a failure",
    "an offset / offset-fetch reply carries exactly one response for the consumer's partition",
]


def run(ctx, res):
    K.run(ctx, res, "C13")


def search(ctx, res, broken):
    return K.search(ctx, res, broken, "C13")


def replay(ctx, data):
    return K.replay(ctx, data, "C13")
