"""C10 - after a connection drop, unanswered requests are re-sent once, in order; reconnect/back-off; close.

Same model, drivers and generators as C06 (harness/props/c06.py, harness/lib/brokerclient_*.py), biased
towards drops, connect failures, back-off and close; the Lean monitor `Afkak.Monitor.C10` is evaluated on the
traces recorded from the real `_KafkaBrokerClient`.
"""
from harness.props import c06 as base

PID = "C10"
MON = "c10"
COMPONENTS = ["brokerclient"]
PROFILES = ["drops", "drops", "connect", "close", "replies"]
TRUSTED = base.TRUSTED + [
    "virtual time: twisted.internet.task.Clock; delays and advances are multiples of 1/8 s so that float and exact rational arithmetic coincide",
]
ASSUMPTIONS = base.ASSUMPTIONS + [
    "the retry policy returns non-negative delays (KafkaClient asserts this for attempt 1)",
    "timers fire when the clock reaches their due time (Clock.advance)",
]


def run(ctx, res):
    res.rule = (
        "scenarios generated ONLINE against the real _KafkaBrokerClient with a scripted retry policy and the Clock reactor: drops before/"
        "between/inside frames, while connecting, during back-off, repeated connect failures, drops twice in a row, mixed answered/cancelled/"
        "unsent/no-reply request sets, interleaved cancel/close/disconnect/updateMetadata; plus bounded-exhaustive enumeration of the reachable "
        "states (29-symbol alphabet, two ids). Compared per event: observations in strict order (which serial was written to which connection, "
        "connection attempts, timers with their delays, Deferred firings) and the internal state (white box). non-trivial (C10) = a re-send "
        "after a drop, a back-off timer that fired, a close with pending requests, or an idle/closing drop. distinct = by content hash."
    )
    base.bc_run(ctx, res, PID, MON, PROFILES)


def search(ctx, res, broken):
    return base.bc_search(ctx, res, broken, PID, MON, PROFILES)


def replay(ctx, data):
    return base.bc_replay(ctx, data, PID, MON)
