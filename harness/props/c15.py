"""C15 - group assignment: correspondence of afkak/_group.py:_ConsumerProtocol (+ the member codecs of
afkak/kafkacodec.py) with Afkak/Assign.lean, and the Lean monitors Afkak.Monitor.C15 evaluated on the
implementation's outputs.

A scenario is {"kind": "assign", "members": [[id, [topic, ...]], ...] (in listed order), "tp":
[[topic, [partition, ...]], ...], "relist": [indices]}, a leader history {"kind": "generations", "leader": id, "leader_topics": [...], "gens": [{"members": [...],
"cluster": [[topic, [partition, ...]], ...]}, ...]} driven through the REAL Coordinator._join_and_sync (harness/lib/assign_leader.py),
or a codec case {"kind": "encode"|"decode"|"meta-enc"|"meta-dec"|"utf8-enc"|"utf8-dec", ...}.  Everything a scenario does is a function of its content, so a stored scenario
replays exactly.
"""
import glob
import json
import os
import random

from harness import core
from harness.core import Result

COMPONENTS = ["assign"]
TRUSTED = [
    "model of Python str ordering as lexicographic order on code points, of sorted() as insertion sort, of dict/defaultdict as "
    "insertion-ordered association lists, of itertools.cycle as a rotating list, of struct as big-endian two's complement, of Python slices, and of "
    "CPython's strict UTF-8 codec (Afkak/Assign.lean); each is exercised by the correspondence on every run",
    "harness/props/c15.py: generators, the canonical rendering of assignments, the calls into the real _ConsumerProtocol / KafkaCodec, and harness/lib/assign_leader.py (fake "
    "client + hand-packed JoinGroup/SyncGroup/Heartbeat responses around one real Coordinator that leads every generation), and the two-call replay of the "
    "leader's glue on _ConsumerProtocol used for the error paths a real client would retry forever (its AST shape is pinned by harness/consts/assign.py)",
]
ASSUMPTIONS = [
    "member ids are distinct (the group coordinator assigns them) and a topic's partition list has no repeated id: hypotheses of the C15 theorems and "
    "the condition under which the monitors are evaluated (scenarios violating them are still compared model-vs-code)",
    "C15_codec_roundtrip / C15_in_range_total: partition ids in int32, topic names ASCII and at most 32767 characters, fewer than 2^31 topics/partitions",
    "C15_leader_glue: _load_topic_partitions is the modelled retry loop (Afkak.Assign.loadTopicPartitions, compared with the real method on every run); "
    "C15_leader_outcomes assumes nothing about the loader's answer",
]

CORPUS = os.path.join(core.VERIF, "corpus", "assign")


# ---------------------------------------------------------------- tokens of the driver's line protocol
def tstr(s):
    return "~" if s == "" else ".".join(str(ord(c)) for c in s)


def tints(l):
    return ",".join(str(int(x)) for x in l)


def tmap(d):
    """d: dict or list of pairs topic -> partitions, in order"""
    items = list(d.items()) if isinstance(d, dict) else list(d)
    return "-" if not items else "|".join(tstr(t) + "=" + tints(ps) for t, ps in items)


def tmembers(ms):
    return "-" if not ms else ";".join(tstr(i) + ":" + ",".join(tstr(t) for t in subs) for i, subs in ms)


def tobs(obs):
    return "-" if not obs else ";".join(tstr(i) + ">" + tmap(a) for i, a in obs)


def hx(b):
    return b.hex() if b else "-"


def exc_line(e):
    """canonical form of a Python exception: class name only (log/message text ignored)"""
    from afkak._group import _NeedTopicPartitions

    if isinstance(e, _NeedTopicPartitions):
        ts = sorted(e.topics)
        return "need " + (",".join(tstr(t) for t in ts) if ts else "-")
    return "error " + type(e).__name__


def sort_outer(line):
    """`asg id>map;id>map` with the outer (unobservable) dict order canonicalised"""
    if not line.startswith("asg ") or line == "asg -":
        return line
    return "asg " + ";".join(sorted(line[4:].split(";")))


# ---------------------------------------------------------------- generators
TOPICS = ["t", "t1", "t10", "t2", "T", "a.b", "topic-x", "zz", "_u", "0", "orders", "orders.retry", "Z9", "a", "ab", "b"]
ODD_IDS = ["", "a", "A", "a1", "a10", "a2", "é", "z", "Z", "\U0001F600", "ab", "b", "￿", "m", "m-", "m.", "Ā"]


FULLWIDTH = "０１２３４５６７８９"
ARABIC = "٠١٢٣٤٥٦٧٨٩"


def id_family(rng):
    """member ids that an operator (or an id scheme) would call 'the same but for ...': numeric suffixes with and without
    zero padding, digits of other scripts, case, surrounding blanks, prefixes of each other, composed / decomposed
    accents, separators.  Any two of them are DIFFERENT ids; an order that ties two of them depends on the listing."""
    base = rng.choice(["worker-", "worker-", "w", "consumer", "c_", "node.", "é-", "e\u0301-", ""])
    k = rng.choice([0, 1, 1, 2, 3, 7, 9, 10, 12])
    ks = str(k)
    out = [base + ks, base + "0" + ks, base + "00" + ks, base + ks + "0", base + str(k + 1), base + str(k * 10 + 1), base + ks + "-0", base + ks + "-00",
           base.upper() + ks, base.capitalize() + ks, base + ks + " ", " " + base + ks, base + "".join(FULLWIDTH[int(c)] for c in ks),
           base + "".join(ARABIC[int(c)] for c in ks), base + "+" + ks, base + ks + ".0", base, base + ks + "a", base + ks + "A",
           base.replace("-", "_") + ks, base.replace("é", "e\u0301") + ks, base + ks + "\u200b"]
    return [x for j, x in enumerate(out) if x not in out[:j]]


def loose_key(i):
    """what a 'friendly' ordering of ids might compare: NFKC-folded, blanks and zero-width characters dropped, case
    folded, digit runs as numbers.  Only used to MEASURE how often the generator lists two ids that tie under it."""
    import re
    import unicodedata

    t = unicodedata.normalize("NFKC", i).replace("\u200b", "").strip().casefold()
    return tuple(int(x) if k % 2 else x for k, x in enumerate(re.split(r"(\d+)", t)))


def gen_ids(rng, n):
    mode = rng.randrange(6)
    if mode >= 4:
        pool = id_family(rng)
        if rng.random() < 0.4:
            pool = pool + [x for x in id_family(rng) if x not in pool]
        while len(pool) < n:
            pool.append("extra-%d" % len(pool))
        ids = rng.sample(pool, n)
    elif mode == 0:
        ids = ["member-%d" % i for i in rng.sample(range(1, 30), n)]  # "member-10" < "member-2"
    elif mode == 1:
        ids = rng.sample(ODD_IDS, n)
    elif mode == 2:
        ids = ["afkak-%032x" % rng.getrandbits(128) for _ in range(n)]
    else:
        ids = rng.sample(["m%d" % i for i in range(1, 13)] + ["M1", "m", "n0"], n)
    return ids


def gen_partitions(rng):
    n = rng.choice([0, 0, 1, 1, 2, 3, 3, 4, 5, 6, 7, 8, 9, 10, 11, 12])
    mode = rng.randrange(6)
    if mode == 0:
        ps = list(range(n))
    elif mode == 1:
        ps = sorted(rng.sample(range(0, 40), n))  # gaps
    elif mode == 2:
        ps = rng.sample(range(0, 40), n)  # gaps, unsorted
    elif mode == 3:
        ps = rng.sample([0, 1, 2, 7, 2**31 - 1, 2**31 - 2, 65536, 255, 256, -1, -(2**31), 1000000], min(n, 12))
    elif mode == 4:
        ps = list(range(n))
        rng.shuffle(ps)
    else:
        base = rng.randrange(0, 1000)
        ps = [base + 3 * i for i in range(n)]
    return ps


def gen_assign(rng):
    """One assignment scenario; returns (scenario, shape tag)."""
    nm = rng.choice([1, 2, 2, 3, 3, 4, 5, 6, 7, 8])
    ids = gen_ids(rng, nm)
    nt = rng.choice([1, 1, 2, 2, 3, 4, 5])
    topics = rng.sample(TOPICS, nt)
    shape = rng.choice(["identical", "identical", "overlap", "overlap", "disjoint", "exclusive", "mixed"])
    subs = []
    if shape == "identical":
        for _ in ids:
            s = list(topics)
            if rng.random() < 0.5:
                rng.shuffle(s)
            if rng.random() < 0.15:
                s.append(rng.choice(s))  # the same topic named twice
            subs.append(s)
    elif shape == "overlap":
        for _ in ids:
            subs.append(rng.sample(topics, rng.randrange(1, nt + 1)))
    elif shape == "disjoint":
        for k, _ in enumerate(ids):
            subs.append([t for j, t in enumerate(topics) if j % nm == k])  # each topic wanted by exactly one member
    elif shape == "exclusive":
        # one member wants only a topic nobody else wants; the others share the rest
        lone = rng.choice([t for t in TOPICS if t not in topics])
        k = rng.randrange(nm)
        for j, _ in enumerate(ids):
            subs.append([lone] if j == k else rng.sample(topics, rng.randrange(1, nt + 1)))
        topics = topics + [lone]
    else:
        for _ in ids:
            subs.append(rng.sample(topics, rng.randrange(0, nt + 1)))  # possibly subscribed to nothing
    if rng.random() < 0.02:
        subs = [[] for _ in ids]  # nobody subscribes to anything: `assert all_topics`
    tp = [[t, gen_partitions(rng)] for t in topics]
    rng.shuffle(tp)
    tags = [shape]
    r = rng.random()
    if r < 0.06:
        tp = [e for e in tp if rng.random() < 0.5]  # unknown topics
        tags.append("topics-dropped")
    elif r < 0.09:
        tp = []  # the leader's first call
        tags.append("tp-empty")
    if rng.random() < 0.3:
        extra = rng.choice([t for t in TOPICS if t not in topics] + ["unused"])
        if all(t != extra for t, _ in tp):
            tp.append([extra, gen_partitions(rng)])
            tags.append("tp-extra")
    if rng.random() < 0.03 and tp:
        e = rng.choice(tp)
        if e[1]:
            e[1].append(rng.choice(e[1]))  # a partition id listed twice
            tags.append("dup-partition")
    if rng.random() < 0.02 and tp:
        rng.choice(tp)[1].append(rng.choice([2**31, -(2**31) - 1, 2**40]))  # not an int32
        tags.append("partition-out-of-range")
    if rng.random() < 0.015:
        bad = "café"
        subs[rng.randrange(nm)].append(bad)
        tp.append([bad, [0, 1]])
        tags.append("non-ascii-topic")
    if rng.random() < 0.12:
        # a subscription list naming a topic more than once (afkak sends the list verbatim), of any length up to
        # the number of distinct topics of the group and beyond
        k = rng.randrange(nm)
        if subs[k]:
            subs[k] = list(subs[k]) + [rng.choice(subs[k]) for _ in range(rng.randrange(1, 4))]
            rng.shuffle(subs[k])
            tags.append("topic-repeated-in-subscription")
    members = [[i, s] for i, s in zip(ids, subs)]
    if len(set(loose_key(i) for i in ids)) < len(ids):
        tags.append("ids-that-tie-under-a-loose-order")
    if rng.random() < 0.03 and nm >= 2:
        members.append([members[0][0], rng.sample(topics, rng.randrange(0, len(topics) + 1))])  # repeated member id
        tags.append("dup-member-id")
    rng.shuffle(members)
    relist = list(range(len(members)))
    rng.shuffle(relist)
    return {"kind": "assign", "members": members, "tp": tp, "relist": relist}, tags


# ---------------------------------------------------------------- the implementation side
def impl_members(proto, members):
    from afkak.common import _JoinGroupResponseMember

    return [_JoinGroupResponseMember(i, proto.join_group_protocols(list(s))[0].protocol_metadata) for i, s in members]


def impl_generate(proto, members, tp):
    """-> ("enc", [(id, bytes)]) or (canonical exception line, None)"""
    try:
        out = proto.generate_assignments(impl_members(proto, members), dict((t, list(ps)) for t, ps in tp))
        return "enc", [(m.member_id, bytes(m.member_metadata)) for m in out]
    except Exception as e:  # noqa: BLE001 - every exception class is an observation
        return exc_line(e), None


def impl_round_robin(proto, members, tp):
    """The real (private) _round_robin_assignment on the dict generate_assignments would build.
    -> (canonical line, {member: [(topic, [partition])]} or None).  A helper that no longer has the shape this
    harness knows (renamed, other arguments, other result type) yields the line `shape-changed ...`: a
    disagreement for this sub-comparison only; the public boundary is still compared and monitored."""
    from afkak.kafkacodec import KafkaCodec

    md = {}
    try:
        for m in impl_members(proto, members):
            md[m.member_id] = KafkaCodec.decode_join_group_protocol_metadata(m.member_metadata)
    except Exception as e:  # noqa: BLE001 - a member's own metadata does not decode: an observation, not a crash
        return exc_line(e), None
    try:
        fn = proto._round_robin_assignment
    except AttributeError:
        return "shape-changed _round_robin_assignment is gone", None
    try:
        a = fn(md, dict((t, list(ps)) for t, ps in tp))
    except TypeError as e:
        return "shape-changed _round_robin_assignment: %s" % e, None
    except Exception as e:  # noqa: BLE001
        return exc_line(e), None
    try:
        plain = [(str(m), [(str(t), [int(p) for p in ps]) for t, ps in inner.items()]) for m, inner in a.items()]
        if not all(isinstance(m, str) for m in a):
            raise TypeError("keys are not member ids")
    except Exception as e:  # noqa: BLE001
        return "shape-changed _round_robin_assignment returned %s (%s)" % (type(a).__name__, type(e).__name__), None
    return "asg " + tobs(plain), dict((m, inner) for m, inner in plain)


def impl_leader(proto, members, tp):
    """The leader's glue of Coordinator._join_and_sync (its shape is pinned by harness/consts/assign.py): first
    generate_assignments(members, topic_partitions={}); on _NeedTopicPartitions the harness plays
    client._load_topic_partitions(*e.topics) and answers with the scenario's map; then the second call."""
    from afkak._group import _NeedTopicPartitions

    ms = impl_members(proto, members)
    try:
        try:
            out = proto.generate_assignments(ms, topic_partitions={})
        except _NeedTopicPartitions:
            out = proto.generate_assignments(ms, topic_partitions=dict((t, list(ps)) for t, ps in tp))
    except Exception as e:  # noqa: BLE001
        return exc_line(e)
    return "enc " + ("-" if not out else ";".join(tstr(m.member_id) + ":" + hx(bytes(m.member_metadata)) for m in out))


def impl_decode(proto, b):
    try:
        d = proto.decode_assignment(b)
        plain = [(t, [int(p) for p in ps]) for t, ps in d.items()]
    except Exception as e:  # noqa: BLE001
        return exc_line(e), None
    return "map " + tmap(plain), plain


class Batch:
    """Requests for the model, each with what the implementation answered and how to report a difference."""

    def __init__(self):
        self.lines, self.expect, self.meta = [], [], []

    def add(self, line, expect, meta):
        self.lines.append(line)
        self.expect.append(expect)
        self.meta.append(meta)


MON_NAMES = {
    "answers": ("some listed member did not get exactly one assignment", "answers"),
    "once": ("a partition of a subscribed topic is not assigned to exactly one member", "exactly-once"),
    "else": ("something that is not a partition of a subscribed topic was assigned", "nothing-else"),
    "sub": ("a partition was assigned to a member not subscribed to its topic", "only-subscribed"),
    "bal": ("identical subscriptions but loads differ by more than one", "balanced"),
}


def run_assign(proto, sc, tags, batch, res):
    """Run one assignment scenario on the real code, queue the model/monitor requests."""
    members, tp = sc["members"], sc["tp"]
    mtok, ttok = tmembers(members), tmap(tp)
    res.evaluations += 1
    for t in tags:
        res.count("shape=" + t)
    res.count("members=%d" % len(members))
    res.count("topics_subscribed=%d" % len({t for _, s in members for t in s}))
    nparts = sum(len(ps) for _, ps in tp)
    res.count("partitions_total=%s" % ("0" if nparts == 0 else "1-4" if nparts <= 4 else "5-12" if nparts <= 12 else "13-30" if nparts <= 30 else ">30"))
    for _, ps in tp:
        res.count("partitions_per_topic=%d" % len(ps))
        if ps != sorted(ps):
            res.count("partition_list_unsorted")
        if ps and sorted(ps) != list(range(min(ps), min(ps) + len(ps))):
            res.count("partition_ids_noncontiguous")
    if [i for i, _ in members] != sorted(i for i, _ in members):
        res.count("members_listed_unsorted")

    try:
        rr_line, assigned = impl_round_robin(proto, members, tp)
    except Exception as e:  # noqa: BLE001 - never let a private helper's new shape stop the public comparison
        rr_line, assigned = "shape-changed %s: %s" % (type(e).__name__, e), None
    if rr_line.startswith("shape-changed"):
        res.count("private_helper_shape_changed")
    batch.add("rr %s %s" % (mtok, ttok), sort_outer(rr_line), ("corr", sc, "rr"))
    gen_line, encs = impl_generate(proto, members, tp)
    gen_expect = gen_line if encs is None else "enc " + ("-" if not encs else ";".join(tstr(i) + ":" + hx(b) for i, b in encs))
    try:
        wtok = "-" if not members else ";".join(tstr(m.member_id) + ":" + hx(bytes(m.member_metadata)) for m in impl_members(proto, members))
        batch.add("genb %s %s" % (wtok, ttok), gen_expect, ("corr", sc, "genb"))
        lead = impl_leader(proto, members, tp)
        batch.add("leader %s %s" % (wtok, ttok), lead, ("corr", sc, "leader"))
        res.count("leader_outcome=" + lead.split(" ")[0] + ("" if lead.startswith(("enc", "need")) else " " + lead.split(" ")[1]))
    except Exception as e:  # noqa: BLE001
        res.disagreements.append({"component": "assign", "request": "genb/leader", "impl": "harness could not drive the byte-level entry: %s: %s" % (type(e).__name__, e), "model": "", "scenario": sc})
    res.count("outcome=" + gen_line.split(" ")[0] + ("" if gen_line.startswith(("enc", "need")) else " " + gen_line.split(" ")[1]))
    if encs is None:
        batch.add("gen %s %s" % (mtok, ttok), gen_line, ("corr", sc, "gen"))
        res.sample({"scenario": sc, "impl": gen_line}, limit=4)
        return
    batch.add("gen %s %s" % (mtok, ttok), "enc " + ("-" if not encs else ";".join(tstr(i) + ":" + hx(b) for i, b in encs)), ("corr", sc, "gen"))
    obs = []
    ok = True
    for i, b in encs:
        dline, dec = impl_decode(proto, b)
        batch.add("decode " + hx(b), dline, ("corr", sc, "decode"))
        if dec is None:
            ok = False
            res.monitor_failures.append({"what": "a member cannot decode the assignment the leader encoded for it: " + dline, "scenario": sc, "tags": ["decode-own-raises"]})
            continue
        obs.append((i, dec))
        if assigned is not None:
            batch.add("mon-own %s %s" % (tmap(assigned.get(i, [])), tmap(dec)), "ok", ("mon-own", sc, i))
    if not ok:
        return
    batch.add("mon %s %s %s" % (mtok, ttok, tobs(obs)), None, ("mon", sc, None))
    # the same members listed in another order must get the same partitions
    relisted = [members[k] for k in sc["relist"]]
    gen2, encs2 = impl_generate(proto, relisted, tp)
    if not well_formed(sc):
        pass  # a repeated member id: which entry wins depends on the order, outside the property's hypotheses
    elif encs2 is None:
        res.monitor_failures.append({"what": "relisting the members changes the outcome to " + gen2, "scenario": sc, "tags": ["perm-outcome"]})
    else:
        obs2 = []
        for i, b in encs2:
            _, dec = impl_decode(proto, b)
            obs2.append((i, dec if dec is not None else [("undecodable", [])]))
        batch.add("mon-same %s %s" % (tobs(obs), tobs(obs2)), None, ("mon-same", sc, None))
    total = sum(len(ps) for _, a in obs for _, ps in a)
    loads = sorted(sum(len(ps) for _, ps in a) for _, a in obs)
    if len(members) >= 2 and total >= 2:
        res.nontrivial(["assign", members, tp])
    if any(t not in s for _, s in members for t, ps in tp if ps and any(t in s2 for _, s2 in members)):
        res.count("skip_loop_exercised")
    if total > len(members):
        res.count("cycle_wraps")
    res.sample({"scenario": sc, "impl_decoded": [[i, a] for i, a in obs], "loads": loads}, limit=4)


def gen_history(rng):
    """A history of 2..4 generations led by the same real Coordinator: members come and go and are listed in
    a fresh order each time, topics gain (rarely lose) partitions, new topics appear."""
    topics = rng.sample(TOPICS, rng.choice([1, 2, 2, 3]))
    leader = rng.choice(["worker-a", "m5", "lead", "Z"])
    leader_topics = rng.sample(topics, rng.randrange(1, len(topics) + 1))
    others = {}
    for i in rng.sample(["worker-b", "worker-c", "m1", "m10", "m2", "a", "zz"], rng.randrange(0, 4)):
        others[i] = rng.sample(topics, rng.randrange(1, len(topics) + 1)) if rng.random() < 0.6 else list(leader_topics)
    cluster = dict((t, rng.sample(range(0, 12), rng.randrange(1, 7))) for t in topics)
    gens = []
    for g in range(rng.choice([2, 2, 3, 4])):
        if g:
            for t in list(cluster):
                r = rng.random()
                if r < 0.5:  # the operator expands the topic
                    more = [p for p in range(0, 24) if p not in cluster[t]]
                    cluster[t] = cluster[t] + rng.sample(more, rng.randrange(1, 5))
                elif r < 0.58 and len(cluster[t]) > 1:  # deleted and recreated smaller
                    cluster[t] = cluster[t][: rng.randrange(1, len(cluster[t]))]
            if rng.random() < 0.4:  # a member joins, maybe with a brand-new topic
                nid = rng.choice([i for i in ["worker-d", "m3", "b", "y", "m11"] if i not in others] or ["w%d" % g])
                if rng.random() < 0.5:
                    nt = rng.choice([t for t in TOPICS if t not in cluster])
                    cluster[nt] = rng.sample(range(0, 12), rng.randrange(1, 5))
                    others[nid] = [nt] + rng.sample(topics, rng.randrange(0, len(topics) + 1))
                else:
                    others[nid] = rng.sample(topics, rng.randrange(1, len(topics) + 1))
            if others and rng.random() < 0.25:
                del others[rng.choice(sorted(others))]
        members = [[leader, list(leader_topics)]] + [[i, list(sub)] for i, sub in sorted(others.items())]
        rng.shuffle(members)
        gen = {"members": members, "cluster": [[t, list(ps)] for t, ps in sorted(cluster.items())]}
        if rng.random() < 0.3:
            # the leader's partition load takes time: the metadata of some subscribed topic is not usable for a while
            # (leader election, topic being created) - shorter AND longer than the session timeout (30 s)
            slow = rng.sample(sorted(cluster), rng.randrange(1, len(cluster) + 1))
            gen["load_delay"] = dict((t, rng.choice([0.5, 3, 12, 29, 31, 45, 90, 400])) for t in slow)
        gens.append(gen)
    if rng.random() < 0.12:  # in the last generation the loader's answer leaves topics out (breaks its contract)
        last = gens[-1]
        pool = [t for t, _ in last["cluster"]]
        last["loader_omits"] = rng.sample(pool, rng.randrange(1, min(2, len(pool)) + 1))
    return {"kind": "generations", "leader": leader, "leader_topics": leader_topics, "gens": gens}


def run_history_sc(proto, sc, batch, res):
    """Drive the REAL Coordinator._join_and_sync as leader through every generation of the history
    (harness/lib/assign_leader.py); per generation compare the SyncGroup assignments with the model's
    leaderAssign applied to that generation's partition map, and evaluate the monitors on what the members
    decode against the partitions the cluster has in that generation."""
    from harness.lib import assign_leader

    res.evaluations += 1
    res.count("history_generations=%d" % len(sc["gens"]))
    try:
        recs = assign_leader.run_history(sc["leader"], sc["leader_topics"], sc["gens"])
    except Exception as e:  # noqa: BLE001
        res.disagreements.append({"component": "assign-leader", "request": "history", "impl": "driver failed: %s: %s" % (type(e).__name__, e), "model": "", "scenario": sc})
        return
    prev = None
    for g, (gen, rec) in enumerate(zip(sc["gens"], recs), 1):
        label = "generation %d of the history" % g
        members, tp = gen["members"], gen["cluster"]
        omits = gen.get("loader_omits") or []
        loaded = [e for e in tp if e[0] not in omits]  # what _load_topic_partitions answers in this generation
        ttok = tmap(tp)
        if omits:
            res.count("history_loader_omits_topic")
        if omits and rec["encs"] is None and rec["wire"] is not None and rec["escaped"] is not None:
            # the exception that left _join_and_sync vs the model's leaderAssign on the loader's (partial) answer
            batch.add("leader %s %s" % (";".join(tstr(i) + ":" + hx(b) for i, b in rec["wire"]), tmap(loaded)), exc_line(rec["escaped"]), ("corr", sc, "leader@%d(escaped)" % g))
            res.count("history_need_escapes_join_and_sync")
            if rec["idle"]:
                res.count("history_leader_idle_after_escape")
            res.nontrivial(["history-escape", sc["leader"], sc["gens"][:g]])
            continue
        if rec["encs"] is None or rec["wire"] is None:
            res.count("history_generation_without_sync")
            wire = rec["wire"] or [(i, bytes(proto.join_group_protocols(list(sub))[0].protocol_metadata)) for i, sub in members]
            batch.add("leader %s %s" % (";".join(tstr(i) + ":" + hx(b) for i, b in wire), ttok), "no-sync " + rec["note"][:300], ("corr", sc, "leader@%d" % g))
            continue
        encs = rec["encs"]
        wtok = ";".join(tstr(i) + ":" + hx(b) for i, b in rec["wire"])
        batch.add("leader %s %s" % (wtok, tmap(loaded)), "enc " + ";".join(tstr(i) + ":" + hx(b) for i, b in encs), ("corr", sc, "leader@%d" % g))
        dl = max((gen.get("load_delay") or {"": 0}).values())
        res.count("history_partition_load_takes=%s" % ("0s" if dl == 0 else "<session-timeout" if dl < 30 else ">session-timeout"))
        res.count("history_loads_per_generation=%d" % len(rec["loads"] or []))
        if prev is not None and prev != tp:
            res.count("history_partition_map_changed")
        if prev is not None and any(len(dict(prev).get(t, ps)) < len(ps) for t, ps in tp):
            res.count("history_topic_grew")
        prev = tp
        obs, ok = [], True
        for i, b in encs:
            dline, dec = impl_decode(proto, b)
            if dec is None:
                ok = False
                res.monitor_failures.append({"what": "%s: a member cannot decode the assignment the leader sent for it: %s" % (label, dline), "scenario": sc, "tags": ["gen-decode-own-raises"]})
            else:
                obs.append((i, dec))
        if not ok:
            continue
        batch.add("mon %s %s %s" % (tmembers(members), ttok, tobs(obs)), None, ("mon", sc, label))
        if rec["leader_got"] is not None:
            own = dict(obs).get(sc["leader"], [])
            batch.add("mon-own %s %s" % (tmap(own), tmap(sorted(rec["leader_got"].items()))), "ok", ("mon-own", sc, "%s (leader's on_join_complete, %s)" % (sc["leader"], label)))
        if g >= 2:
            res.nontrivial(["history", sc["leader"], sc["gens"][:g]])
    res.sample({"scenario": sc, "impl_loads": [r["loads"] for r in recs]}, limit=5)


def gen_loader(rng):
    """_load_topic_partitions: which topics are asked for, and the successive metadata replies (topics omitted, in
    error, without partitions, extra topics)."""
    pool = rng.sample(TOPICS, 4)
    asked = rng.sample(pool[:3], rng.randrange(1, 4))
    if rng.random() < 0.1:
        asked.append(asked[0])  # the same topic asked twice
    replies = []
    for k in range(rng.randrange(1, 5)):
        good = rng.random() < 0.35 + 0.2 * k
        reply = []
        for t in rng.sample(pool, len(pool)):
            if t in asked and good:
                reply.append([t, 0, rng.sample(range(0, 16), rng.randrange(1, 6))])
            elif rng.random() < 0.75:
                err = rng.choice([0, 0, 0, 3, 5])
                reply.append([t, err, rng.sample(range(0, 16), rng.randrange(0, 5)) if err == 0 else []])
        replies.append(reply)
    sc = {"kind": "loader", "asked": asked, "replies": replies}
    if rng.random() < 0.75:
        # brokers are listed and partitions have leaders - except these, which are leaderless right now
        # (broker just died / election in progress / topic just expanded): some of a topic's partitions,
        # all of them, or none
        pairs = sorted({(t, p) for r in replies for t, _e, ps in r for p in ps})
        mode = rng.randrange(4)
        if mode == 0 or not pairs:
            lless = []
        elif mode == 1:
            lless = [list(x) for x in pairs if rng.random() < 0.35]
        elif mode == 2:
            t0 = rng.choice(pairs)[0]
            lless = [list(x) for x in pairs if x[0] == t0]
        else:
            lless = [list(rng.choice(pairs))]
        sc["leaderless"] = lless
    return sc


def run_loader_sc(sc, batch, res):
    """The REAL KafkaClient._load_topic_partitions vs the model, and the contract the leader's glue relies on."""
    from harness.lib import assign_leader

    res.evaluations += 1
    asked, replies = sc["asked"], sc["replies"]
    rtok = "/".join("-" if not r else "|".join("%s=%d:%s" % (tstr(t), e, tints(ps)) for t, e, ps in r) for r in replies)
    atok = ",".join(tstr(t) for t in asked)
    try:
        lless = None if sc.get("leaderless") is None else {(t, p) for t, p in sc["leaderless"]}
        kind, val, n = assign_leader.run_loader(asked, [[(t, e, ps) for t, e, ps in r] for r in replies], lless)
    except Exception as e:  # noqa: BLE001
        kind, val, n = "error", "driver %s: %s" % (type(e).__name__, e), 0
    if kind == "snap":
        line = "snap %s after %d" % (tmap(val), n)
        batch.add("mon-load %s %s" % (atok, tmap(val)), None, ("mon-load", sc, None))
        if 1 <= n <= len(replies):
            last = replies[n - 1]
            batch.add("mon-loadfull %s %s %s" % (atok, "-" if not last else "|".join("%s=%d:%s" % (tstr(t), e, tints(ps)) for t, e, ps in last), tmap(val)), None, ("mon-loadfull", sc, None))
            lp = sc.get("leaderless")
            res.count("loader_leaderless=%s" % ("no-brokers" if lp is None else "none" if not lp else "some" if any(t in asked for t, _p in lp) else "other-topics"))
        res.nontrivial(["loader", asked, replies])
    elif kind == "pending":
        line = "pending"
    else:
        line = "error %s" % val
    res.count("loader_outcome=%s" % kind)
    if any(t not in [x[0] for x in replies[0]] for t in asked):
        res.count("loader_first_reply_omits_asked_topic")
    batch.add("load %s %s" % (atok, rtok), line, ("corr", sc, "load"))


def settle(batch, got, res, trace=None):
    """Compare the model's answers with the implementation's; classify monitor answers."""
    for line, exp, meta, g in zip(batch.lines, batch.expect, batch.meta, got):
        kind, sc, what = meta
        g1 = g[0] if g else ""
        if trace is not None:
            trace.append((line, exp, g1, kind))
        if kind == "corr":
            if what == "rr":
                g1 = sort_outer(g1)
            if g1 != exp:
                res.disagreements.append({"component": "assign", "request": line[:4000], "impl": exp[:4000], "model": g1[:4000], "scenario": sc})
        elif kind == "mon":
            res.traces_validated += 1
            fields = dict(f.split("=") for f in g1.split()) if g1 and g1 != "bad-op" else {}
            if not fields:
                res.disagreements.append({"component": "assign", "request": line[:4000], "impl": "(monitor request)", "model": g1, "scenario": sc})
                continue
            res.count("monitor_wellformed=" + fields["wf"])
            if fields["wf"] != "yes":
                continue  # repeated member id / partition id: outside the property's hypotheses
            res.count("monitor_identical_subscriptions=" + fields["ident"])
            for k, (text, tag) in MON_NAMES.items():
                if fields[k] != "ok":
                    if what:  # a generation of a leader history: judged against the cluster's partitions in that generation
                        res.monitor_failures.append({"what": "%s: %s" % (what, text), "scenario": sc, "tags": ["gen-" + tag]})
                    else:
                        res.monitor_failures.append({"what": text, "scenario": sc, "tags": [tag]})
        elif kind == "mon-loadfull":
            res.traces_validated += 1
            if g1 != "ok":
                res.monitor_failures.append({"what": "_load_topic_partitions fired with a snapshot that does not list exactly the partitions the metadata reply lists for a requested topic (a partition left out is assigned to no member)", "scenario": sc, "tags": ["loader-leaves-partitions-out"]})
        elif kind == "mon-load":
            res.traces_validated += 1
            if g1 != "ok":
                res.monitor_failures.append({"what": "_load_topic_partitions fired with a snapshot that lacks a requested topic (the leader's second generate_assignments then raises _NeedTopicPartitions outside its handler: no SyncGroup, member idle)", "scenario": sc, "tags": ["loader-contract"]})
        elif kind == "mon-own":
            if g1 != "ok":
                res.monitor_failures.append({"what": "member %r decodes something else than it was assigned" % what, "scenario": sc, "tags": ["decodes-own"]})
        elif kind == "mon-same":
            if not well_formed(sc):
                continue
            res.count("relisted_checked")
            if g1 != "ok":
                res.monitor_failures.append({"what": "the assignment depends on the order the members are listed in", "scenario": sc, "tags": ["perm-invariant"]})


def well_formed(sc):
    ids = [i for i, _ in sc["members"]]
    return len(set(ids)) == len(ids) and all(len(set(ps)) == len(ps) for _, ps in sc["tp"])


# ---------------------------------------------------------------- the byte-level member codec on its own
def gen_codec(rng):
    """A codec scenario: encode (possibly out-of-range) maps, or decode (possibly hostile) bytes."""
    from afkak.kafkacodec import KafkaCodec

    r = rng.random()
    if r < 0.35:
        n = rng.choice([0, 1, 1, 2, 3, 5])
        names = rng.sample(TOPICS + ["", "café", "x" * 32767, "x" * 32768, "\u0080", "\x7f"], n)
        m = [[t, gen_partitions(rng) + ([rng.choice([2**31, -(2**31) - 1])] if rng.random() < 0.08 else [])] for t in names]
        v = rng.choice([0, 0, 0, 1, -1, 32767, 32768, -32768, -32769])
        return {"kind": "encode", "version": v, "map": m}
    # start from a valid encoding
    n = rng.choice([0, 1, 1, 2, 3])
    names = rng.sample(TOPICS, n)
    valid = KafkaCodec.encode_sync_group_member_assignment(0, dict((t, gen_partitions(rng)) for t in names), b"")
    b = bytearray(valid)
    mode = rng.randrange(12)
    if mode == 0:
        pass
    elif mode == 1:
        b = b[: rng.randrange(0, len(b) + 1)]  # truncated
    elif mode == 2:
        b[0:2] = rng.choice([b"\x00\x01", b"\xff\xff", b"\x01\x00"])  # version
    elif mode == 3:
        c = int.from_bytes(b[2:6], "big", signed=True) + rng.choice([-1, 1, 2, -5, 2**31 - 1 - n, -(2**31) - n])
        b[2:6] = (c & 0xFFFFFFFF).to_bytes(4, "big")  # topic count off
    elif mode == 4 and n:
        b[6:8] = rng.choice([b"\xff\xff", b"\xff\xfe", b"\x80\x00", b"\x7f\xff", b"\x00\x00"])  # first topic's length
    elif mode == 5 and n:
        k = 8 + int.from_bytes(b[6:8], "big")
        b[k : k + 4] = rng.choice([b"\xff\xff\xff\xff", b"\x80\x00\x00\x00", b"\x7f\xff\xff\xff", b"\x00\x00\x00\x00", b"\x00\x00\x00\x0d"])  # partition count
    elif mode == 6 and n and b[6:8] != b"\x00\x00":
        b[8] = rng.choice([0x80, 0xFF, 0xC3])  # non-ASCII byte in the topic
    elif mode == 7:
        b[-4:] = rng.choice([b"\xff\xff\xff\xff", b"\xff\xff\xff\xfe", b"\x00\x00\x00\x01", b"\x7f\xff\xff\xff"])  # user data length
    elif mode == 8:
        b += bytes(rng.randrange(256) for _ in range(rng.randrange(1, 6)))  # trailing bytes
    elif mode == 9 and n:
        body = bytes(b[6:-4])
        b = bytearray(b[:2] + (2 * n).to_bytes(4, "big") + body + body + b[-4:])  # every topic twice
    elif mode == 10:
        for _ in range(rng.randrange(1, 4)):
            if b:
                b[rng.randrange(len(b))] = rng.randrange(256)  # random byte damage
    else:
        b = bytearray(rng.randrange(256) for _ in range(rng.randrange(0, 24)))  # arbitrary bytes
    return {"kind": "decode", "hex": bytes(b).hex()}


UTF8_EDGE = [0x00, 0x41, 0x7F, 0x80, 0x8F, 0x90, 0x9F, 0xA0, 0xBF, 0xC0, 0xC1, 0xC2, 0xDF, 0xE0, 0xE1, 0xEC, 0xED, 0xEE, 0xEF, 0xF0, 0xF1, 0xF3, 0xF4, 0xF5, 0xFF]
CODEPOINTS = [0x0, 0x41, 0x7F, 0x80, 0x7FF, 0x800, 0xFFF, 0x1000, 0xD7FF, 0xD800, 0xDFFF, 0xE000, 0xFFFF, 0x10000, 0x3FFFF, 0x40000, 0xFFFFF, 0x100000, 0x10FFFF, 0xE9, 0x1F600]


def gen_text_cps(rng):
    return [rng.choice(CODEPOINTS) if rng.random() < 0.6 else rng.randrange(0, 0x110000) for _ in range(rng.randrange(0, 6))]


def gen_meta(rng):
    """Member-metadata codec and UTF-8 cases."""
    from afkak.kafkacodec import KafkaCodec

    r = rng.random()
    if r < 0.2:
        return {"kind": "utf8-enc", "cps": gen_text_cps(rng)}
    if r < 0.5:
        if rng.random() < 0.5:
            b = bytes(rng.choice(UTF8_EDGE) for _ in range(rng.randrange(0, 7)))
        else:
            good = "".join(chr(c) for c in gen_text_cps(rng) if not 0xD800 <= c <= 0xDFFF).encode("utf-8")
            b = bytearray(good)
            for _ in range(rng.randrange(0, 3)):
                if b:
                    k = rng.randrange(len(b))
                    if rng.random() < 0.5:
                        b[k] = rng.choice(UTF8_EDGE)
                    else:
                        del b[k]
            b = bytes(b)
        return {"kind": "utf8-dec", "hex": b.hex()}
    if r < 0.7:
        n = rng.choice([0, 1, 2, 3])
        topics = [[ord(ch) for ch in rng.choice(TOPICS)] if rng.random() < 0.6 else gen_text_cps(rng) for _ in range(n)]
        if rng.random() < 0.05:
            topics.append([0x78] * rng.choice([32767, 32768]))
        if rng.random() < 0.05:
            topics.append([0xE9] * 16384)  # 32768 bytes of UTF-8 from 16384 characters
        return {"kind": "meta-enc", "version": rng.choice([0, 0, 0, 1, -1, 32767, 32768, -32769]), "topics": topics}
    names = rng.sample(TOPICS + ["é", "\U0001F600x", "", "\uffff"], rng.choice([0, 1, 2, 3]))
    b = bytearray(KafkaCodec.encode_join_group_protocol_metadata(rng.choice([0, 0, 1, 3]), names, b""))
    mode = rng.randrange(9)
    if mode == 1:
        b = b[: rng.randrange(0, len(b) + 1)]
    elif mode == 2:
        c = int.from_bytes(b[2:6], "big", signed=True) + rng.choice([-1, 1, 2, -7, 2**31 - 1 - len(names)])
        b[2:6] = (c & 0xFFFFFFFF).to_bytes(4, "big")
    elif mode == 3 and names:
        b[6:8] = rng.choice([b"\xff\xff", b"\xff\xfe", b"\x80\x00", b"\x7f\xff", b"\x00\x00", b"\x00\x01"])
    elif mode == 4 and names and b[6:8] != b"\x00\x00":
        b[8] = rng.choice(UTF8_EDGE)
    elif mode == 5:
        b[-4:] = rng.choice([b"\xff\xff\xff\xff", b"\xff\xff\xff\xfe", b"\x00\x00\x00\x01", b"\x00\x00\x00\x00"])
    elif mode == 6:
        b += bytes(rng.randrange(256) for _ in range(rng.randrange(1, 5)))
    elif mode == 7:
        for _ in range(rng.randrange(1, 4)):
            if b:
                b[rng.randrange(len(b))] = rng.choice(UTF8_EDGE + [rng.randrange(256)])
    elif mode == 8:
        b = b[:-4] + b"\x00\x00\x00\x03abc"  # user data present
    return {"kind": "meta-dec", "hex": bytes(b).hex()}


def run_meta(sc, batch, res):
    from afkak.kafkacodec import KafkaCodec

    res.evaluations += 1
    k = sc["kind"]
    if k == "utf8-enc":
        try:
            out = "bytes " + hx("".join(chr(c) for c in sc["cps"]).encode("utf-8"))
        except Exception as e:  # noqa: BLE001
            out = exc_line(e)
        batch.add("utf8-enc " + tstr("".join(chr(c) for c in sc["cps"])), out, ("corr", sc, k))
    elif k == "utf8-dec":
        b = bytes.fromhex(sc["hex"])
        try:
            out = "str " + tstr(b.decode("utf-8"))
        except Exception as e:  # noqa: BLE001
            out = exc_line(e)
        batch.add("utf8-dec " + hx(b), out, ("corr", sc, k))
    elif k == "meta-enc":
        topics = ["".join(chr(c) for c in t) for t in sc["topics"]]
        try:
            out = "bytes " + hx(KafkaCodec.encode_join_group_protocol_metadata(sc["version"], topics, b""))
        except Exception as e:  # noqa: BLE001
            out = exc_line(e)
        batch.add("meta-enc %d %s" % (sc["version"], ",".join(tstr(t) for t in topics) if topics else "-"), out, ("corr", sc, k))
        if out.startswith("bytes") and topics:
            res.nontrivial([k, sc["version"], sc["topics"]])
    else:
        b = bytes.fromhex(sc["hex"])
        try:
            m = KafkaCodec.decode_join_group_protocol_metadata(b)
            out = "meta %d %s %s" % (m.version, ",".join(tstr(t) for t in m.subscriptions) if m.subscriptions else "-", "null" if m.user_data is None else hx(bytes(m.user_data)))
            if m.subscriptions:
                res.nontrivial([k, sc["hex"]])
        except Exception as e:  # noqa: BLE001
            out = exc_line(e)
        batch.add("meta-dec " + hx(b), out, ("corr", sc, k))
    res.count("meta_%s=%s" % (k, out.split(" ")[0] + ("" if not out.startswith("error") else " " + out.split(" ")[1])))


def run_codec(proto, sc, batch, res):
    from afkak.kafkacodec import KafkaCodec

    res.evaluations += 1
    if sc["kind"] == "encode":
        try:
            out = "bytes " + hx(KafkaCodec.encode_sync_group_member_assignment(sc["version"], dict((t, list(ps)) for t, ps in sc["map"]), b""))
        except Exception as e:  # noqa: BLE001
            out = exc_line(e)
        batch.add("encode %d %s" % (sc["version"], tmap(sc["map"])), out, ("corr", sc, "encode"))
        res.count("codec_encode=" + out.split(" ")[0] + ("" if out.startswith("bytes") else " " + out.split(" ")[1]))
        if out.startswith("bytes") and sc["map"]:
            res.nontrivial(["encode", sc["version"], sc["map"]])
    else:
        b = bytes.fromhex(sc["hex"])
        dline, dec = impl_decode(proto, b)
        batch.add("decode " + hx(b), dline, ("corr", sc, "decode"))
        res.count("codec_decode=" + dline.split(" ")[0] + ("" if dec is not None else " " + dline.split(" ")[1]))
        if dec:
            res.nontrivial(["decode", sc["hex"]])


# ---------------------------------------------------------------- running batches
def run_scenarios(scs, res, model, trace=None):
    """scs: list of (scenario, tags).  Runs the implementation, then the model once, then settles."""
    from afkak._group import _ConsumerProtocol

    proto = _ConsumerProtocol()
    batch = Batch()
    for sc, tags in scs:
        if sc["kind"] == "assign":
            run_assign(proto, sc, tags, batch, res)
        elif sc["kind"] in ("encode", "decode"):
            run_codec(proto, sc, batch, res)
        elif sc["kind"] == "generations":
            run_history_sc(proto, sc, batch, res)
        elif sc["kind"] == "loader":
            run_loader_sc(sc, batch, res)
        else:
            run_meta(sc, batch, res)
    if batch.lines:
        settle(batch, model("assign", batch.lines), res, trace)


def disagrees(sc):
    r = Result()
    run_scenarios([(sc, [])], r, core.run_model)
    return bool(r.disagreements), r


def shrink(sc):
    """ddmin-style: drop members, topics, partitions, subscriptions while model and code still disagree."""
    if sc.get("kind") != "assign":
        return sc
    cur = json.loads(json.dumps(sc))
    changed = True
    while changed:
        changed = False
        cands = []
        for k in range(len(cur["members"])):
            c = json.loads(json.dumps(cur))
            del c["members"][k]
            c["relist"] = list(range(len(c["members"])))
            cands.append(c)
        for k in range(len(cur["tp"])):
            c = json.loads(json.dumps(cur))
            del c["tp"][k]
            cands.append(c)
            for j in range(len(cur["tp"][k][1])):
                c = json.loads(json.dumps(cur))
                del c["tp"][k][1][j]
                cands.append(c)
        for k in range(len(cur["members"])):
            for j in range(len(cur["members"][k][1])):
                c = json.loads(json.dumps(cur))
                del c["members"][k][1][j]
                cands.append(c)
        for c in cands:
            if disagrees(c)[0]:
                cur, changed = c, True
                break
    return cur


def corpus_scenarios():
    out = []
    for p in sorted(glob.glob(os.path.join(CORPUS, "*.json"))):
        data = json.load(open(p))
        for sc in data if isinstance(data, list) else [data]:
            sc = dict(sc)
            sc.pop("comment", None)
            if sc["kind"] == "assign":
                sc.setdefault("relist", list(reversed(range(len(sc["members"])))))
            out.append((sc, ["corpus"]))
    return out


def generate(rng, n_assign, n_codec, n_hist=0):
    scs = [gen_assign(rng) for _ in range(n_assign)]
    scs += [(gen_history(rng), []) for _ in range(n_hist)]
    scs += [(gen_loader(rng), []) for _ in range(n_hist // 2)]
    scs += [(gen_codec(rng) if k % 2 == 0 else gen_meta(rng), []) for k in range(n_codec)]
    return scs


def exhaustive_small(max_members=3):
    """Bounded-exhaustive support (thorough tier): every way for 1..3 members to subscribe to subsets of two
    topics (incl. nothing), x 0..3 partitions per topic (non-contiguous ids, listed unsorted), x every listing
    order of the members.  6720 scenarios."""
    import itertools

    topics = ["b", "a.c"]
    ids = ["m2", "m10", "M"]
    parts = {0: [], 1: [7], 2: [9, 2], 3: [4, 0, 11]}
    out = []
    for nm in range(1, max_members + 1):
        for choice in itertools.product(range(4), repeat=nm):
            subs = [[t for k, t in enumerate(topics) if c >> k & 1] for c in choice]
            for n0 in range(4):
                for n1 in range(4):
                    tp = [[topics[1], parts[n1]], [topics[0], [p + 20 for p in parts[n0]]]]
                    for order in itertools.permutations(range(nm)):
                        members = [[ids[k], subs[k]] for k in order]
                        out.append(({"kind": "assign", "members": members, "tp": tp, "relist": list(reversed(range(nm)))}, ["exhaustive-small"]))
    return out


def _worker(args):
    """One shard of the thorough tier (separate process; its own PRNG derived from seed and shard)."""
    seed, shard, n_assign, n_codec, n_hist = args
    rng = random.Random((seed * 1000003 + shard) * 7919 + 15)
    res = Result()
    if shard == -1:
        run_scenarios(exhaustive_small(), res, core.run_model)
    else:
        run_scenarios(generate(rng, n_assign, n_codec, n_hist), res, core.run_model)
    return {"evaluations": res.evaluations, "distinct": list(res.distinct), "hist": res.hist, "traces": res.traces_validated,
            "disagreements": res.disagreements[:5], "monitor_failures": res.monitor_failures[:5], "samples": res.samples[:1]}


def merge(res, part):
    res.evaluations += part["evaluations"]
    res.distinct.update(part["distinct"])
    for k, v in part["hist"].items():
        res.count(k, v)
    res.traces_validated += part["traces"]
    res.disagreements.extend(part["disagreements"])
    res.monitor_failures.extend(part["monitor_failures"])
    for s in part["samples"]:
        res.sample(s, limit=6)


def run_sharded(seed, shards, n_assign, n_codec, res, first_shard=0, n_hist=0):
    import multiprocessing as mp

    workers = min(16, os.cpu_count() or 1, shards)
    jobs = [(seed, first_shard + k, n_assign, n_codec, n_hist) for k in range(shards)]
    if first_shard == 0:
        jobs.insert(0, (seed, -1, 0, 0, 0))  # the bounded-exhaustive enumeration
    with mp.get_context("fork").Pool(workers) as pool:
        for part in pool.imap_unordered(_worker, jobs):
            merge(res, part)


RULE = (
    "assign: 1..8 members (ids: numbered, uuid-like, odd unicode/empty/prefix pairs) listed in random order; subscriptions identical / overlapping / "
    "disjoint / one member alone on a topic nobody else wants / some member subscribed to nothing; 1..6 topics with 0..12 partitions each, ids "
    "contiguous, with gaps, unsorted, int32 extremes; unknown topics, empty partition map, unused extra topics; rarely a repeated partition id, a "
    "repeated member id, a partition id outside int32, a non-ASCII topic. Each scenario: real _round_robin_assignment, generate_assignments and "
    "decode_assignment of every encoded member assignment vs the model, the Lean monitors on the decoded implementation output, and a second run with "
    "the members relisted. codec: real encode_sync_group_member_assignment on maps incl. out-of-range values, and decode_assignment on valid, truncated, "
    "damaged and arbitrary bytes, vs the model. non-trivial = assignment scenario that succeeded with >= 2 members and >= 2 partitions handed out, or a "
    "codec case that produced/parsed a non-empty map, or a leader history of >= 2 generations; distinct = by content hash. histories: one REAL "
    "Coordinator is the leader for 2..4 generations (fake client, real codecs, rebalance triggered through a failing heartbeat); between generations members "
    "join/leave/are relisted, topics gain or lose partitions, new topics appear; per generation the leader's SyncGroup assignments are compared with the model "
    "and the monitors are evaluated on what the members decode against the cluster's partition map of THAT generation; in some histories the loader's answer "
    "of the last generation leaves topics out (the exception leaving _join_and_sync is compared with the model's). loader: the REAL "
    "KafkaClient._load_topic_partitions is driven with successive metadata replies (topics omitted, in error, without partitions, extra topics) vs the "
    "model, and the contract the leader's glue needs (an entry with >= 1 partition for every topic asked) is evaluated on every snapshot it returns. quick: corpus + 5000 assign + 2500 codec + 600 histories; thorough: 64 shards x (12000 + 5000 + 1500) in up to 16 "
    "processes plus a bounded-exhaustive enumeration of small inputs (not a complete enumeration of the input space: exhaustive=false)."
)


def run(ctx, res):
    res.rule = RULE
    res.extra["exhaustive"] = False
    corp = corpus_scenarios()
    res.count("corpus_scenarios", len(corp))
    run_scenarios(corp, res, ctx.model)
    if ctx.tier == "thorough":
        run_sharded(ctx.seed, 64, 12000, 5000, res, n_hist=1500)
        res.notes.append("thorough tier includes the bounded-exhaustive enumeration exhaustive_small(): 1..3 members x all subscription subsets of 2 topics x 0..3 partitions per topic x all listing orders (6720 scenarios)")
    else:
        run_scenarios(generate(ctx.rng, 5000, 2500, 600), res, ctx.model)
    from harness.lib import assign_syncwire  # stage `syncwire`: the second sentence across the real SyncGroup wire path

    from harness.lib.xl5_guard import guarded

    guarded(res, "assign/syncwire", assign_syncwire.run_stage, ctx, res)
    # report shrunk disagreements
    for d in res.disagreements[:3]:
        if isinstance(d.get("scenario"), dict) and d["scenario"].get("kind") == "assign":
            d["shrunk"] = shrink(d["scenario"])
    res.extra["branch_histogram"] = {k: v for k, v in res.hist.items() if k.startswith(("outcome=", "leader_", "loader_", "history_", "private_", "codec_", "meta_", "skip_", "cycle_", "monitor_"))}


def search(ctx, res, broken):
    """A proof or the correspondence broke: look for an input on which the PROPERTY fails on the code."""
    r2 = Result()
    seeds = []
    for b in broken:
        w = b.get("what")
        if isinstance(w, dict):
            for key in ("shrunk", "scenario"):
                sc = w.get(key)
                if isinstance(sc, dict) and sc.get("kind") == "assign":
                    seeds.append(sc)
    rng = ctx.rng
    near = []
    for sc in seeds[:6]:
        for _ in range(60):  # relist / extend / permute around the disagreeing scenario
            c = json.loads(json.dumps(sc))
            rng.shuffle(c["members"])
            if rng.random() < 0.5 and c["tp"]:
                rng.choice(c["tp"])[1].append(rng.randrange(100, 200))
            if rng.random() < 0.3:
                c["members"].append(["zz-extra-%d" % rng.randrange(100), [t for t, _ in c["tp"]][: rng.randrange(0, 3)]])
            c["relist"] = list(range(len(c["members"])))
            rng.shuffle(c["relist"])
            near.append((c, ["search-near"]))
    run_scenarios(near, r2, ctx.model)
    if not r2.monitor_failures:
        if ctx.tier == "thorough":
            run_sharded(ctx.seed, 16, 6000, 0, r2, first_shard=1000, n_hist=1500)
        else:
            run_scenarios(generate(rng, 6000, 0, 1200), r2, ctx.model)
    return r2.monitor_failures[:3]


def replay(ctx, data):
    sc = None
    for path in (("failure", "scenario"), ("scenario",)):
        d = data
        for k in path:
            d = d.get(k) if isinstance(d, dict) else None
        if isinstance(d, dict) and "kind" in d:
            sc = d
            break
    if sc is None:
        for b in data.get("no_longer_checks", []):
            w = b.get("what")
            if isinstance(w, dict) and isinstance(w.get("shrunk") or w.get("scenario"), dict):
                sc = w.get("shrunk") or w.get("scenario")
                break
    if sc is None:
        print("replay: no scenario in this file (a broken proof obligation has none):", json.dumps(data.get("no_longer_checks", data))[:2000])
        return 0
    if sc["kind"] == "syncwire":
        from harness.lib import assign_syncwire

        return assign_syncwire.replay_one(ctx, sc)
    if sc["kind"] == "assign":
        sc.setdefault("relist", list(reversed(range(len(sc["members"])))))
    print("replay scenario:", json.dumps(sc))
    r = Result()
    trace = []
    run_scenarios([(sc, [])], r, ctx.model, trace)
    for line, exp, got, kind in trace:
        print("  request:", line[:600])
        if kind == "corr":
            print("    implementation:", str(exp)[:600])
            print("    model:         ", got[:600], "" if (got == exp or (line.startswith("rr ") and sort_outer(got) == exp)) else "   <-- DIFFERENT")
        else:
            print("    monitor on the implementation's output:", got[:300])
    for d in r.disagreements:
        print("  DISAGREEMENT impl:", d["impl"][:600], "| model:", d["model"][:600])
    for f in r.monitor_failures:
        print("  MONITOR FAILS:", f["what"], f["tags"])
    if r.monitor_failures:
        print("VIOLATION property=C15 replay=(this file)")
        return 1
    if r.disagreements:
        print("model and implementation disagree on this scenario; no monitor fails")
        return 1
    print("model and implementation agree; all monitors ok")
    return 0
