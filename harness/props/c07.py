"""C07 - requests reach the responsible broker; results return in payload order.

Correspondence of the real KafkaClient (over real _KafkaBrokerClients over the in-memory network,
harness/lib/client_sim.py) with lean/Afkak/ClientNet.lean + ClientCache.lean: every boundary-crossing
event is replayed to the model and the observations (requests issued per broker client, timers,
cancels, closes, results), the cache after every step and the reactor's timers are compared.  The Lean
monitor Afkak.Monitor.C07 is evaluated on the real traces.  Also: kernel-level correspondence of
route / assemble / _normalize_hosts on generated inputs.  `net_scenarios` is shared by C08, C11, C20.
"""
import json
import multiprocessing
import os
import random
import re
import traceback
from fractions import Fraction

from harness.lib import client_common as CC

COMPONENTS = ["client"]
TRUSTED = [
    "harness/lib/client_sim.py: recording subclass of _KafkaBrokerClient installed as afkak.client._KafkaBrokerClient (calls through, changes nothing), recording Clock/endpoint factory, seeded replacement of afkak.client.random",
    "attribution of a broker request to its operation by inspecting the caller's stack frame (observation only)",
    "harness/lib/client_wire.py: independent request parsers / response encoders for the simulated brokers",
    "the broker client below the modelled boundary is the REAL _KafkaBrokerClient (its own model: C06/C10)",
]
ASSUMPTIONS = [
    "C07_accounting assumes each broker answers for exactly the partitions it was asked (hypothesis `answersAsked`) and distinct payload keys",
    "protocol version discovery is off in the scenarios (ApiVersions is C04's); wire order inside one request is the encoder's (C04/C09)",
]
VERIF = os.path.dirname(os.path.dirname(os.path.dirname(os.path.abspath(__file__))))
CORPUS = os.path.join(VERIF, "corpus", "client")
MON = {"c07": "mon-c07", "c11": "mon-c11", "c20": "mon-c20", "iface": "mon-iface"}


def slug(msg):
    m = re.sub(r"\[[^\]]*\]", "", msg)
    m = re.sub(r"[0-9]+", "", m)
    m = re.sub(r"[^a-zA-Z]+", "-", m).strip("-").lower()
    return m[:60]


# ------------------------------------------------------------------------------------------------
# comparing one executed scenario with the model

def timers_str(st):
    from harness.lib.client_sim import rat
    return CC.lst("%s@%s" % (nm, rat(Fraction(t).limit_denominator(10**9))) for t, nm in st["timers"])


def mirror_lines(sim):
    """mon-mirror requests for the metadata-reply steps that nothing else perturbed"""
    from harness.lib.client_sim import six
    out = []
    prev = None
    node_of = {}
    for st in sim.steps:
        for o in st["obs"]:
            w = o.split(" ")
            if w[0] == "bcNew":
                node_of[w[1]] = w[2]
        w = st["line"].split(" ")
        is_meta = (w[0] == "fire" and w[2:4] == ["ok", "meta"]) or (w[0] == "bootreply" and w[2] == "meta")
        if is_meta and prev is not None and st["dump"] is not None:
            obs = [o for o in st["obs"] if not o.startswith("t-")]
            # only the merge happened in this step (no continuation created clients / issued requests / reset anything)
            calm = all(o.startswith(("cancelTimer", "bootLose", "bcUpdate", "bcClose", "down")) or (o.startswith("result") and o.endswith("ok True")) for o in obs)
            loads_all = None
            # the operation whose reply this is: full refresh iff the metadata request asked for no topic
            k = w[1]
            if w[0] == "fire":
                for s2 in sim.steps:
                    for o in s2["obs"]:
                        if o.startswith("mk %s " % k):
                            loads_all = o.split(" ")[4] == "meta:-"
            else:
                loads_all = sim.boot_meta_all.get(int(k))
            i0 = 4 if w[0] == "fire" else 3
            if calm and loads_all is not None:
                closed = [node_of[o.split(" ")[1]] for o in obs if o.startswith("bcClose")]
                out.append(("mon-mirror %d %s %s %s %s %s" % (1 if loads_all else 0, w[i0], w[i0 + 1], CC.lst(sorted(closed)), six(prev), six(st["dump"])), st["line"]))
            elif not calm and len(w) > i0 + 1:
                # a perturbed merge step (closing a dropped broker's client failed requests in flight, whose failure
                # resets the cache): when the LAST thing the step did was to fire the load's Deferred with True (nothing
                # ran after the merge), the cache still equals the response for every topic it covers and for its brokers
                idx = [i for i, o in enumerate(obs) if o.startswith(("result", "mk", "bcNew"))]
                if idx and obs[idx[-1]].startswith("result") and obs[idx[-1]].endswith("ok True"):
                    out.append(("mon-covered %s %s %s" % (w[i0], w[i0 + 1], six(st["dump"])), st["line"]))
        if st["dump"] is not None:
            prev = st["dump"]
    return out


def allinvalid_lines(sim):
    """after a FailedPayloadsError the cache holds no routing (C08: a failed send invalidates)"""
    from harness.lib.client_sim import six
    out = []
    for st in sim.steps:
        obs = [o for o in st["obs"] if not o.startswith("t-")]
        last_fp = max([i for i, o in enumerate(obs) if o.startswith("result") and " failedPayloads " in o] or [-1])
        if last_fp >= 0 and st["dump"] is not None:
            # nothing after the failure in the same step may have re-filled the cache
            if not any(o.startswith(("mk", "bcUpdate", "result")) for o in obs[last_fp + 1:]):
                out.append(("mon-allinvalid " + six(st["dump"]), st["line"]))
    return out


def kept_lines(sim):
    """C08: no broker the client knew before a step is forgotten by it (`brokersKept`, proved of every event of the
    model: C08_brokers_never_forgotten) - every pair of consecutive dumps"""
    from harness.lib.client_sim import six
    out = []
    prev = None
    for st in sim.steps:
        if st["dump"] is None:
            continue
        if prev is not None and six(prev).split(" ")[0] != six(st["dump"]).split(" ")[0]:
            out.append(("mon-kept %s %s" % (six(prev), six(st["dump"])), st["line"]))
        prev = st["dump"]
    return out


def route_lines(sim):
    """C07's routing kernel against the code: for every send that resolved all of its keys from the cache (no
    metadata/coordinator load in its step) the requests the real client issued in that step - broker node and
    payload indices per request, in issue order - must be what the Lean kernel `route` computes from the cache
    dump taken just before the step.  -> [(driver line, expected answer, step line)]"""
    from harness.lib.client_sim import six
    out = []
    prev = None
    node_of = {}
    for st in sim.steps:
        for o in st["obs"]:
            w = o.split(" ")
            if w[0] == "bcNew":
                node_of[w[1]] = w[2]
        w = st["line"].split(" ")
        if w[0] == "send" and prev is not None and st["dump"] is not None:
            obs = [o for o in st["obs"] if not o.startswith("t-")]
            mks = [o.split(" ") for o in obs if o.startswith("mk ")]
            attrs = {o.split(" ")[1]: o.split(" ")[3] for o in st["obs"] if o.startswith("t-attr ")}
            if mks and all(m[4].startswith("payloads:") for m in mks) and all(m[1] in attrs for m in mks):
                groups = ";".join("%s=%s" % (node_of[m[2]], attrs[m[1]]) for m in mks)
                out.append(("mon-route %s %s %s" % (w[2], w[5], six(prev)), "groups " + groups, st["line"]))
        if st["dump"] is not None:
            prev = st["dump"]
    return out


def compare(sim, got, off):
    """-> (index of the first disagreeing step or None, detail). got[off] answers the cfg line."""
    from harness.lib.client_sim import model_obs
    for i, st in enumerate(sim.steps):
        g = got[off + 1 + 2 * i]
        nd = got[off + 2 + 2 * i]
        obs = model_obs(st)
        if g != obs:
            boots = sum(1 for o in g if o.startswith(("bootCancel", "bootLose")))
            if not (st["line"].startswith("close") and boots >= 2 and sorted(g) == sorted(obs)):
                return i, {"step": st["line"], "impl": obs, "model": g}
        if st["dump"] is not None:
            if nd[:7] != st["dump"]:
                return i, {"step": st["line"], "what": "cache after the step", "impl": st["dump"], "model": nd[:7]}
            mt = nd[7].split(" ", 1)[1]
            if mt != timers_str(st):
                return i, {"step": st["line"], "what": "pending client timers after the step", "impl": timers_str(st), "model": mt}
    return None, None


def evaluate(ctx_model, scn, sim, focus, want_mon=("c07",)):
    """Run model + monitors for one executed scenario. -> dict(dis=..., mon=[...], counts)"""
    lines = sim.model_lines()
    tl = sim.trace_lines() + [MON[m] for m in want_mon]
    extra = []
    extra_mon = "c08"
    if "c08" in focus or focus == "all":
        extra = mirror_lines(sim) + allinvalid_lines(sim) + kept_lines(sim)
    elif focus == "c07":
        # C07 routes by "the current metadata": a failed send must leave none behind (the Lean predicate
        # Monitor.C08.allInvalid, proved of the model: C08_failed_send_invalidates) - otherwise the next request of the
        # group/partition goes to the broker that just failed without asking anyone
        extra = allinvalid_lines(sim)
        extra_mon = "c07"
    routes = route_lines(sim) if focus in ("c07", "all") else []
    # the monitors on the MODEL's own trace of the same events (the soundness statements
    # Cxx_model_traces_satisfy_monitor, proved for C11, open for C07/C20, are evaluated on every scenario)
    mmon = [m for m in want_mon if m in ("c07", "c11", "c20")]
    # the mon-*-model requests go right after the model's own events: the observed trace starts with a `cfg` line again,
    # which resets the driver (and with it the model trace `mtrace` that these requests evaluate)
    mlines = ["mon-%s-model" % m for m in mmon]
    got_all = ctx_model("client", lines + mlines + tl + [e[0] for e in extra] + [r[0] for r in routes])
    mm = got_all[len(lines):len(lines) + len(mlines)]
    got = got_all[:len(lines)] + got_all[len(lines) + len(mlines):]
    out = {"dis": None, "mon": []}
    if sim.stray:
        out["dis"] = {"what": "observations outside any step (harness)", "impl": sim.stray[:5]}
    i, det = compare(sim, got, 0)
    if i is not None and out["dis"] is None:
        out["dis"] = det
        out["dis"]["at"] = i
    tr = got[len(lines):len(lines) + len(tl)]
    if any(x == ["bad-op"] for x in tr[:-len(want_mon)]):
        bad = [l for l, x in zip(tl, tr) if x == ["bad-op"]][:3]
        out["dis"] = out["dis"] or {"what": "trace line the driver cannot parse", "impl": bad}
    for m, v in zip(want_mon, tr[-len(want_mon):]):
        if v != ["ok"]:
            msgs = v[0][5:].split(" ; ") if v and v[0].startswith("fail ") else [repr(v)]
            out["mon"].append({"monitor": m, "messages": msgs})
    ex = got[len(lines) + len(tl):]
    for (l, stepline), v in zip(extra, ex):
        if v != ["ok"]:
            out["mon"].append({"monitor": extra_mon, "messages": ["%s -> %s at step %s" % (l.split(" ")[0], v, stepline)]})
    rt = got[len(lines) + len(tl) + len(extra):]
    for (l, want, stepline), v in zip(routes, rt):
        if v != [want]:
            out["mon"].append({"monitor": "c07", "messages": ["the requests of a send resolved from the cache are not what the kernel route computes: kernel %s, client %s at step %s" % (v, want, stepline)]})
    wellformed = not any(x == "bad-op" or (isinstance(x, str) and x.startswith("bad-op")) for g in got[:len(lines)] for x in g)
    if out["dis"] is None and wellformed:
        for m, v in zip(mmon, mm):
            if v != ["ok"]:
                msgs = v[0][5:].split(" ; ") if v and v[0].startswith("fail ") else [repr(v)]
                out["mon"].append({"monitor": m, "messages": ["the MODEL's own trace is rejected by the %s monitor: %s" % (m, x) for x in msgs]})
    out["nmirror"] = len(extra)
    out["ncovered"] = sum(1 for e in extra if e[0].startswith("mon-covered"))
    out["nallinvalid"] = sum(1 for e in extra if e[0].startswith("mon-allinvalid"))
    out["nroute"] = len(routes)
    return out


# ------------------------------------------------------------------------------------------------
# scenario batches

def features(sim):
    """what a scenario exercised (for the nontrivial rule and histograms)"""
    f = {}
    for st in sim.steps:
        w = st["line"].split(" ")[0]
        f["ev=" + w] = f.get("ev=" + w, 0) + 1
        for o in st["obs"]:
            k = o.split(" ")[0]
            if k == "result":
                k = "result=" + o.split(" ")[2] + ("" if o.split(" ")[2] != "fail" else ":" + o.split(" ")[3].split(":")[0])
            f["ob=" + k] = f.get("ob=" + k, 0) + 1
    return f


def nontrivial(focus, f):
    if focus == "c07":
        return f.get("ob=t-attr", 0) >= 2
    if focus == "c08":
        return sum(v for k, v in f.items() if k in ("ev=fire", "ev=bootreply")) >= 2 and f.get("ob=bcUpdate", 0) >= 1
    if focus == "c11":
        return f.get("ob=bcCancel", 0) >= 1 and f.get("ev=advance", 0) >= 1
    if focus == "c20":
        return f.get("ev=close", 0) >= 1 and (f.get("ob=bcClose", 0) >= 1 or f.get("ob=bootCancel", 0) >= 1 or f.get("ob=bootLose", 0) >= 1)
    return True


def run_batch(model, seed, n, focus, want_mon, prefix_scn=None, timeout_s=None):
    """Generate/execute/evaluate n scenarios from `seed`. Returns a summary dict (picklable)."""
    import time
    from harness.lib import client_scen as SC

    CC.quiet()
    rng = random.Random(seed)
    out = {"n": 0, "hist": {}, "distinct": [], "dis": [], "mon": [], "samples": [], "errors": [], "nmirror": 0, "nroute": 0}
    t0 = time.time()
    for it in range(n):
        if timeout_s and time.time() - t0 > timeout_s:
            break
        try:
            if prefix_scn is not None:
                cut = rng.randrange(0, len(prefix_scn["cmds"]) + 1)
                scn, run = SC.generate(rng, focus, nsteps=rng.randrange(2, 14), prefix=prefix_scn["cmds"][:cut], cfg=prefix_scn["cfg"])
            else:
                scn, run = SC.generate(rng, focus)
        except Exception:
            out["errors"].append(traceback.format_exc()[-1500:])
            if len(out["errors"]) > 3:
                break
            continue
        run.dispose()
        sim = run.sim
        try:
            ev = evaluate(model, scn, sim, focus, want_mon)
        except Exception:
            out["errors"].append(traceback.format_exc()[-1500:])
            continue
        out["n"] += 1
        f = features(sim)
        for k, v in f.items():
            out["hist"][k] = out["hist"].get(k, 0) + v
        out["nmirror"] += ev["nmirror"]
        out["ncovered"] = out.get("ncovered", 0) + ev.get("ncovered", 0)
        out["nallinvalid"] = out.get("nallinvalid", 0) + ev.get("nallinvalid", 0)
        out["nroute"] += ev.get("nroute", 0)
        if nontrivial(focus, f):
            out["distinct"].append(json.dumps(scn["cmds"], sort_keys=True))
        if len(out["samples"]) < 2 and nontrivial(focus, f):
            out["samples"].append({"cfg": scn["cfg"], "cmds": scn["cmds"][:6], "first_steps": [(s["line"], s["obs"][:6]) for s in sim.steps[:5]]})
        if ev["dis"] is not None and len(out["dis"]) < 3:
            out["dis"].append({"scenario": scn, "detail": ev["dis"]})
        for m in ev["mon"]:
            if len(out["mon"]) < 5:
                out["mon"].append({"scenario": scn, "monitor": m["monitor"], "messages": m["messages"]})
    return out


def _worker(args):
    from harness import core
    seed, n, focus, want_mon, timeout_s = args
    try:
        return run_batch(core.run_model, seed, n, focus, want_mon, timeout_s=timeout_s)
    except Exception:
        return {"n": 0, "hist": {}, "distinct": [], "dis": [], "mon": [], "samples": [], "errors": [traceback.format_exc()[-1500:]], "nmirror": 0, "nroute": 0}


def still_fails(model, scn, focus, want_mon, kind, key):
    from harness.lib import client_scen as SC
    try:
        run = SC.execute(scn)
    except Exception:
        return False
    run.dispose()
    try:
        ev = evaluate(model, scn, run.sim, focus, want_mon)
    except Exception:
        return False
    if kind == "dis":
        return ev["dis"] is not None
    return any(slug(msg) == key for m in ev["mon"] for msg in m["messages"])


def shrink(model, scn, focus, want_mon, kind, key, budget=120):
    """ddmin-lite over the command list (indices are modulo, so removal keeps a runnable scenario)."""
    cur = list(scn["cmds"])
    tries = 0
    chunk = max(1, len(cur) // 2)
    while chunk >= 1 and tries < budget:
        i = 0
        progressed = False
        while i < len(cur) and tries < budget:
            cand = cur[:i] + cur[i + chunk:]
            tries += 1
            if cand and still_fails(model, {"cfg": scn["cfg"], "cmds": cand}, focus, want_mon, kind, key):
                cur = cand
                progressed = True
            else:
                i += chunk
        if not progressed:
            chunk //= 2
    return {"cfg": scn["cfg"], "cmds": cur, "focus": focus}


def merge(res, ctx, outs, focus, pid):
    for o in outs:
        res.evaluations += o["n"]
        res.traces_validated += o["n"]
        for k, v in o["hist"].items():
            res.count(focus + ":" + k, v)
        for d in o["distinct"]:
            res.nontrivial(d)
        for s in o["samples"]:
            res.sample(s, limit=3)
        res.extra["mirror_checks"] = res.extra.get("mirror_checks", 0) + o["nmirror"]
        res.extra["route_kernel_checks"] = res.extra.get("route_kernel_checks", 0) + o.get("nroute", 0)
        res.extra["covered_mirror_checks"] = res.extra.get("covered_mirror_checks", 0) + o.get("ncovered", 0)
        res.extra["allinvalid_checks"] = res.extra.get("allinvalid_checks", 0) + o.get("nallinvalid", 0)
        for e in o["errors"]:
            res.disagreements.append({"component": "client-net", "what": "harness/scenario crashed", "trace": e})
        for d in o["dis"]:
            sc = shrink(ctx.model, d["scenario"], focus, (), "dis", None) if len(res.disagreements) < 2 else d["scenario"]
            res.disagreements.append({"component": "client-net", "scenario": sc, "detail": d["detail"]})
        for m in o["mon"]:
            if m["monitor"] == "iface" and pid == "C07":
                m = dict(m, monitor="c07")  # the interface contract is checked (and reported) with C07
            if m["monitor"] != pid.lower():
                continue  # another property's monitor: reported by that property's check
            # one failure per distinct message, so that a known finding never masks another violation
            for msg in sorted(set(slug(x) for x in m["messages"])):
                text = next(x for x in m["messages"] if slug(x) == msg)
                if sum(1 for f in res.monitor_failures if f["tags"] == [pid.lower() + "-" + msg]) >= 3:
                    continue
                first = not any(f["tags"] == [pid.lower() + "-" + msg] for f in res.monitor_failures)
                sc = shrink(ctx.model, m["scenario"], focus, (m["monitor"],) if m["monitor"] in MON else (), "mon", msg) if first and len(res.monitor_failures) < 4 else m["scenario"]
                res.monitor_failures.append({"what": "%s monitor failed on the real client: %s" % (pid, text), "scenario": sc, "tags": [pid.lower() + "-" + msg]})


def net_scenarios(ctx, res, n, focus, pid=None):
    """n scenarios of the real client vs ClientNet + monitors; thorough tier: 16 worker processes."""
    pid = pid or focus.upper()
    want = tuple(m for m in ("c07", "c11", "c20") if m == focus) or ("c07",)
    if focus in ("c08", "c07"):
        want = ("c07", "iface")
    base = ctx.rng.randrange(1 << 30)
    if ctx.tier == "thorough":
        nw = 16
        per = (n + nw - 1) // nw
        with multiprocessing.Pool(nw) as pool:
            outs = pool.map(_worker, [(base + i, per, focus, want, 780) for i in range(nw)])
    else:
        outs = [run_batch(ctx.model, base, n, focus, want, timeout_s=70)]
    merge(res, ctx, outs, focus, pid)


def corpus_scenarios(prefix):
    out = []
    if os.path.isdir(CORPUS):
        for fn in sorted(os.listdir(CORPUS)):
            if fn.startswith(prefix) and fn.endswith(".json"):
                out.append((fn, json.load(open(os.path.join(CORPUS, fn)))))
    return out


def run_corpus(ctx, res, prefixes, focus, pid):
    """stored scenarios (minimised past failures, hand-written seeds) run first"""
    from harness.lib import client_scen as SC
    want = tuple(m for m in ("c07", "c11", "c20") if m == focus) or ("c07",)
    for pre in prefixes:
        for fn, scn in corpus_scenarios(pre):
            if "cmds" not in scn:
                continue
            run = SC.execute(scn)
            run.dispose()
            ev = evaluate(ctx.model, scn, run.sim, focus, want)
            res.evaluations += 1
            res.count("corpus")
            if ev["dis"] is not None:
                res.disagreements.append({"component": "client-net", "scenario": scn, "corpus": fn, "detail": ev["dis"]})
            for m in ev["mon"]:
                if m["monitor"] == pid.lower():
                    res.monitor_failures.append({"what": "%s monitor failed on corpus scenario %s: %s" % (pid, fn, "; ".join(m["messages"][:3])), "scenario": scn, "tags": [pid.lower() + "-" + slug(x) for x in m["messages"]]})


# ------------------------------------------------------------------------------------------------
# kernel-level correspondence: route / assemble (against the real coroutine's own bookkeeping is done by
# the net scenarios; here the pure helpers with many more inputs) and _normalize_hosts

def gen_hosts(rng):
    forms = []
    n = rng.randrange(0, 6)
    for _ in range(n):
        h = rng.choice(["a", "b", "kafka", "10.0.0.1", "B", "a.b", " a", "a ", "", "zz"])
        r = rng.random()
        if r < 0.3:
            forms.append(("s", h))
        elif r < 0.7:
            forms.append(("s", "%s:%s" % (h, rng.choice(["9092", "1", " 9093 ", "+7", "-1", "x", "", "09", "1:2"]))))
        else:
            forms.append(("t", h, rng.choice(["9092", "1", "x", " 12 "])))
    return forms


def normhosts_cases(ctx, res, n):
    from afkak.client import _normalize_hosts

    lines, expect, inputs = [], [], []
    for _ in range(n):
        forms = gen_hosts(ctx.rng)
        arg = []
        toks = []
        for f in forms:
            if f[0] == "s":
                arg.append(f[1] if ctx.rng.random() < 0.5 else f[1].encode())
                toks.append("s=" + (f[1].encode().hex() or "-"))
            else:
                arg.append((f[1], f[2]))
                toks.append("t=%s=%s" % (f[1].encode().hex() or "-", f[2].encode().hex() or "-"))
        as_string = forms and all(f[0] == "s" and "," not in f[1] for f in forms) and ctx.rng.random() < 0.4
        try:
            r = _normalize_hosts(",".join(f[1] for f in forms) if as_string else arg)
            e = ["hosts " + CC.lst("%s:%d" % (h.encode().hex() or "-", p) for h, p in r)]
        except (ValueError, IndexError):
            e = ["error"]
        lines.append("normhosts " + ("|".join(toks) or "-"))
        expect.append(e)
        inputs.append(forms)
        res.count("normhosts=" + e[0].split(" ")[0])
        res.evaluations += 1
    got = ctx.model("client", lines)
    for l, e, g, f in zip(lines, expect, got, inputs):
        if e != g and len(res.disagreements) < 10:
            res.disagreements.append({"component": "client-cache", "request": l, "input": f, "impl": e, "model": g})
        if e != ["error"] and len(res.monitor_failures) < 10:
            # monitor: unique, sorted, default port (C07_normalize_hosts)
            hs = e[0].split(" ")[1]
            hp = [] if hs == "-" else [(bytes.fromhex(x.split(":")[0] if x.split(":")[0] != "-" else "").decode(), int(x.split(":")[1])) for x in hs.split(",")]
            if hp != sorted(set(hp)):
                res.monitor_failures.append({"what": "_normalize_hosts result not unique+sorted", "scenario": {"hosts": f}, "tags": ["c07-normalize-hosts"]})


def run(ctx, res):
    CC.quiet()
    res.rule = ("net: online-generated scenarios on the real KafkaClient over real broker clients over the in-memory network: 1..5 brokers, "
                "arbitrary leader maps incl. leaderless/unknown partitions, payload lists of 1..7 keys in any order (15% with duplicates) for "
                "produce/fetch/offset/commit/offset-fetch, replies in any order with any error codes / missing / extra partitions / garbage, "
                "connections refused/dropped/never accepted, timeouts, cancels, cluster changes between replies; every step compared with the "
                "model (observations, cache, timers) and Afkak.Monitor.C07 evaluated on the real trace. non-trivial = a scenario in which at "
                "least two payload-carrying broker requests were issued; distinct by content hash. kernel: _normalize_hosts on generated forms.")
    run_corpus(ctx, res, ["c07-", "net-"], "c07", "C07")
    normhosts_cases(ctx, res, ctx.scale(400, 5000))
    net_scenarios(ctx, res, ctx.scale(3000, 200000), "c07")


def search(ctx, res, broken):
    from harness.core import Result
    r2 = Result()
    return search_net(ctx, r2, broken, "c07", "C07")


def search_net(ctx, r2, broken, focus, pid):
    """bias towards the shrunk disagreeing scenarios (extend / cut them), then fresh scenarios"""
    want = tuple(m for m in ("c07", "c11", "c20") if m == focus) or ("c07",)
    outs = []
    for b in broken:
        w = b.get("what")
        sc = w.get("scenario") if isinstance(w, dict) else None
        if sc and "cmds" in sc:
            outs.append(run_batch(ctx.model, ctx.rng.randrange(1 << 30), ctx.scale(150, 1500), focus, want, prefix_scn=sc, timeout_s=40))
    outs.append(run_batch(ctx.model, ctx.rng.randrange(1 << 30), ctx.scale(700, 8000), focus, want, timeout_s=ctx.scale(60, 400)))
    merge(r2, ctx, outs, focus, pid)
    return r2.monitor_failures[:3]


def replay_net(ctx, data, pid, focus):
    from harness.lib import client_scen as SC
    from harness.lib.client_sim import model_obs
    f = data.get("failure") or {}
    sc = f.get("scenario")
    if sc is None:
        for b in data.get("no_longer_checks", []):
            if isinstance(b.get("what"), dict) and isinstance(b["what"].get("scenario"), dict):
                sc = b["what"]["scenario"]
                break
    if sc is None or "cmds" not in sc:
        print("nothing to replay in this file:", json.dumps(data)[:600])
        return 0
    CC.quiet()
    run = SC.execute(sc)
    run.dispose()
    sim = run.sim
    want = ("c07", "c11", "c20")
    got = ctx.model("client", sim.model_lines())
    for i, st in enumerate(sim.steps):
        g = got[1 + 2 * i]
        obs = model_obs(st)
        print("%s step %d: %s" % ("  " if g == obs else "!!", i, st["line"]))
        print("      impl :", obs)
        if g != obs:
            print("      model:", g)
    ev = evaluate(ctx.model, sc, sim, "all", want)
    print("disagreement:", json.dumps(ev["dis"], default=str))
    print("monitors:", json.dumps(ev["mon"], default=str))
    mine = [m for m in ev["mon"] if m["monitor"] == pid.lower()]
    if mine:
        print("VIOLATION property=%s replay=(this file)" % pid)
        return 1
    return 1 if ev["dis"] is not None else 0


def replay(ctx, data):
    sc = (data.get("failure") or {}).get("scenario") or {}
    if "hosts" in sc:
        from afkak.client import _normalize_hosts
        print("hosts", sc["hosts"])
        return 0
    return replay_net(ctx, data, "C07", "c07")
