"""C08 - cached metadata mirrors the broker's answer and self-heals.

Correspondence of KafkaClient's cache code (_merge_topic_metadata, _update_brokers, reset_*,
_handle_responses, _get_brokerclient) with Afkak/ClientCache.lean over histories of metadata
responses interleaved with requests, + the Lean monitors Afkak.Monitor.C08 on the real dumps.
Two drivers: `direct` (the real methods of a real KafkaClient, responses decoded by the real codec)
and `net` (harness/lib/client_sim.py: the real client over real broker clients over the in-memory
network, see c07.py) which also checks invalidation after failed sends and recovery.
"""
import json
import os

from harness.lib import client_common as CC
from harness.lib import client_wire as W

COMPONENTS = ["client"]
CONSTS = ["client", "clientquery"]
TRUSTED = [
    "harness/lib/client_wire.py: independent encoders of the broker responses fed to the real client",
    "dump of the real client's dictionaries (harness/lib/client_common.dump_real)",
]
ASSUMPTIONS = [
    "replicas/isr of partition metadata are not modelled (not used by routing)",
    "recovery 'within the retry budget' after leader moves is exercised end to end by the simulation, proved only as C08_recovers_step",
]

CORPUS = os.path.join(os.path.dirname(os.path.dirname(os.path.dirname(os.path.abspath(__file__)))), "corpus", "client")


# ------------------------------------------------------------------------------------------------
# direct histories

def gen_history(rng, nops):
    """ops: dicts; every random choice is in the op (replays exactly)."""
    ops = []
    known = set()
    for _ in range(nops):
        r = rng.random()
        if r < 0.50:
            bs, ts, full = CC.gen_metadata(rng, known_ids=sorted(known))
            known.update(b[0] for b in bs)
            ops.append({"op": "merge", "brokers": bs, "topics": ts, "all": full})
        elif r < 0.68:
            ops.append({"op": "client", "node": rng.choice(sorted(known)) if known and rng.random() < 0.9 else rng.randrange(1, 12)})
        elif r < 0.84:
            n = rng.randrange(1, 5)
            resps = [(rng.choice(CC.TOPICS), rng.choice([0, 0, 0, 3, 6, 14, 15, 16, 19, 7, 1, 10])) for _ in range(n)]
            ops.append({"op": "handle", "foe": rng.random() < 0.5, "group": rng.choice([None, "g0", "g1"]), "resps": resps})
        elif r < 0.90:
            ops.append({"op": "reset-topic", "topics": rng.sample(CC.TOPICS, rng.randrange(0, 3))})
        elif r < 0.94:
            ops.append({"op": "reset-group", "group": rng.choice(CC.GROUPS)})
        elif r < 0.96:
            ops.append({"op": "reset-all"})
        else:
            ops.append({"op": "coord", "group": rng.choice(CC.GROUPS), "broker": rng.choice(CC.gen_cluster(rng))})
    return ops


def model_line(op):
    k = op["op"]
    if k == "merge":
        return "merge %d %s %s" % (1 if op["all"] else 0, CC.fmt_brokers(op["brokers"]), CC.fmt_topics(op["topics"]))
    if k == "client":
        return "client-add %d" % op["node"]
    if k == "handle":
        return "handle %d %s %s" % (1 if op["foe"] else 0, op["group"] or "-", CC.fmt_keys(op["resps"]))
    if k == "reset-topic":
        return "reset-topic " + CC.lst(op["topics"])
    if k == "reset-group":
        return "reset-group " + op["group"]
    if k == "reset-all":
        return "reset-all"
    if k == "coord":
        return "coord %s %s" % (op["group"], CC.fmt_broker(op["broker"]))
    raise ValueError(k)


class FakeResp(object):
    def __init__(self, topic, error):
        self.topic, self.partition, self.error = topic, 0, error

    def __repr__(self):
        return "R(%s,%d)" % (self.topic, self.error)


def run_direct_impl(ops):
    """Run a history on a real KafkaClient. -> per op (answer lines, dump lines, closed ids)"""
    from afkak import KafkaClient
    from afkak.common import BrokerMetadata, BrokerResponseError
    from afkak.kafkacodec import KafkaCodec
    from harness.sim.world import World

    w = World()
    c = KafkaClient("boot:9092", reactor=w.clock, endpoint_factory=w.net, enable_protocol_version_discovery=False)
    out = []
    seen_bcs = {}
    qtopics = query_topics(ops)
    for op in ops:
        k = op["op"]
        closed = []
        for n, bc in list(c.clients.items()):
            seen_bcs[id(bc)] = (n, bc)
        try:
            ans = None
            ans = _apply_op(c, op, k, seen_bcs, closed, KafkaCodec, BrokerMetadata, BrokerResponseError)
        except Exception as e:  # the real code crashed: an observation, not a harness error
            ans = ["raise " + type(e).__name__]
        out.append((ans, CC.dump_real(c), closed, real_queries(c, qtopics)))
    return out


def query_topics(ops):
    """the topics the query methods are asked about in a history: the generator's universe, every topic the history
    names (stored histories may use others), and one nobody ever mentions"""
    names = list(CC.TOPICS)
    for op in ops:
        for n in [t[0] for t in op.get("topics", []) if isinstance(t, (list, tuple))] + [r[0] for r in op.get("resps", [])] + \
                [t for t in op.get("topics", []) if isinstance(t, str)]:
            if n not in names:
                names.append(n)
    return names + ["nosuch"]


def real_queries(c, topics):
    """answers of the real cache query methods, in the format of the model driver's `query` request"""
    def bm(b):
        return "%d@%s:%d" % (b.node_id, b.host, b.port)
    lines = ["q %s %d %d" % (t, 1 if c.has_metadata_for_topic(t) else 0, c.metadata_error_for_topic(t)) for t in topics]
    groups = c.consumer_group_to_brokers
    lines.append("groups " + CC.lst("%s=%s" % (g, bm(b)) for g, b in groups.items()))
    return lines


def _apply_op(c, op, k, seen_bcs, closed, KafkaCodec, BrokerMetadata, BrokerResponseError):
    if True:
        if k == "merge":
            body = W.metadata_response(op["brokers"], [(n, e, [(pe, p, l, [], []) for pe, p, l in ps]) for n, e, ps in op["topics"]])
            brokers, topics = KafkaCodec.decode_metadata_response(b"\x00\x00\x00\x01" + body)
            c._merge_topic_metadata(brokers, topics, op["all"])
            for n, bc in seen_bcs.values():
                if bc._dDown is not None and not getattr(bc, "_verif_seen_closed", False):
                    bc._verif_seen_closed = True
                    closed.append(n)
            ans = ["closed " + CC.ints(sorted(closed))]
        elif k == "client":
            try:
                c._get_brokerclient(op["node"])
                ans = ["ok"]
            except KeyError:
                ans = ["keyerror"]
        elif k == "handle":
            try:
                c._handle_responses([FakeResp(t, e) for t, e in op["resps"]], op["foe"], None, op["group"])
                ans = ["ok"]
            except BrokerResponseError as e:
                ans = ["raise %d" % e.errno]
            except TypeError:
                ans = ["raise TypeError"]
        elif k == "reset-topic":
            c.reset_topic_metadata(*op["topics"])
            ans = ["ok"]
        elif k == "reset-group":
            c.reset_consumer_group_metadata(op["group"])
            ans = ["ok"]
        elif k == "reset-all":
            c.reset_all_metadata()
            ans = ["ok"]
        elif k == "coord":
            # what _handleConsumerMetadataResponse does on success (a closure; reached through the network in c07.py)
            bm = BrokerMetadata(*op["broker"])
            c._group_to_coordinator[op["group"]] = bm
            c._update_brokers([bm])
            ans = ["ok"]
    return ans


def six(dump):
    """the 6 tokens of a dump that the monitors parse: brokers clients t2b parts errs groups"""
    d = {l.split(" ", 1)[0]: l.split(" ", 1)[1] for l in dump}
    return " ".join(d[k] for k in ("brokers", "clients", "t2b", "parts", "errs", "groups"))


EMPTY6 = "- - - - - -"


def examined(op, ans):
    """the responses whose stale-routing answers must have invalidated: ALL of them (C08: a not-leader answer
    invalidates - also behind the first error that fail_on_error raises, 55f24eb) - except that a TypeError
    (coordinator error code on a call without a group) propagates at once: up to and including that response"""
    if ans == ["raise TypeError"]:
        out = []
        for t, e in op["resps"]:
            out.append((t, e))
            if e in (14, 15, 16):
                break
        return out
    if ans == ["ok"] or ans[0].startswith("raise "):
        return op["resps"]
    return []


def check_direct(ctx, res, histories, label="direct"):
    """Run histories on impl and model; diff; evaluate monitors on the impl's dumps."""
    lines, expect, meta = [], [], []
    for hi, ops in enumerate(histories):
        impl = run_direct_impl(ops)
        lines.append("reset"); expect.append(["ok"]); meta.append((hi, -1, "reset"))
        prev6 = EMPTY6
        nmerge = 0
        for oi, (op, (ans, dump, closed, queries)) in enumerate(zip(ops, impl)):
            lines.append(model_line(op)); expect.append(ans); meta.append((hi, oi, "op"))
            lines.append("dump"); expect.append(dump); meta.append((hi, oi, "dump"))
            # the cache QUERY methods (has_metadata_for_topic, metadata_error_for_topic, consumer_group_to_brokers) answer
            # from the model's cache what the real methods answer (Afkak/ClientQuery.lean)
            lines.append("query " + "+".join(query_topics(ops))); expect.append(queries); meta.append((hi, oi, "query"))
            for q in queries[:-1]:
                res.count("query_has=%s" % q.split(" ")[2]); res.count("query_err=%s" % q.split(" ")[3])
            cur6 = six(dump)
            if op["op"] == "merge" and op["topics"]:
                # monitor queryMirror (C08_query_monitor_holds) on the REAL answers for the topics the response covered
                covered = {n for n, _, _ in op["topics"]}
                ans_tok = CC.lst("%s=%s:%s" % tuple(q.split(" ")[1:4]) for q in queries[:-1] if q.split(" ")[1] in covered)
                lines.append("mon-query %s %s" % (CC.fmt_topics(op["topics"]), ans_tok))
                expect.append(["ok"]); meta.append((hi, oi, "mon-query"))
            if op["op"] == "merge":
                nmerge += 1
                lines.append("mon-mirror %d %s %s %s %s %s" % (1 if op["all"] else 0, CC.fmt_brokers(op["brokers"]), CC.fmt_topics(op["topics"]), CC.ints(closed), prev6, cur6))
                expect.append(["ok"]); meta.append((hi, oi, "mon-mirror"))
                res.count("merge_all=%s" % op["all"]); res.count("merge_closed=%d" % min(len(closed), 2))
                for _, _, ps in op["topics"]:
                    for _, _, l in ps:
                        res.count("leader_kind=" + ("none" if l == -1 else "listed" if l in [b[0] for b in op["brokers"]] else "unlisted"))
            elif op["op"] == "handle":
                ex = examined(op, ans)
                lines.append("mon-invalidate %s %s %s" % (op["group"] or "-", CC.fmt_keys(ex), cur6))
                expect.append(["ok"]); meta.append((hi, oi, "mon-invalidate"))
                res.count("handle=" + ans[0].split(" ")[0])
                if not op["foe"] and op["group"] is not None and ans != ["ok"] and len(res.monitor_failures) < 20:
                    # the statement of C08_fail_on_error_false_never_raises, on the implementation
                    res.monitor_failures.append({"what": "_handle_responses raised %s although fail_on_error=False" % ans, "scenario": {"driver": label, "ops": ops[: oi + 1]}, "tags": ["c08-fail-on-error-false-raised"]})
            if cur6.split(" ")[0] != prev6.split(" ")[0]:
                # no operation makes the client forget a broker it knew (C08_brokers_never_forgotten)
                lines.append("mon-kept %s %s" % (prev6, cur6))
                expect.append(["ok"]); meta.append((hi, oi, "mon-kept"))
            res.count("op=" + op["op"])
            prev6 = cur6
        res.evaluations += 1
        if nmerge >= 2:
            res.nontrivial(ops)
        res.sample({"driver": label, "ops": ops[:4], "last_dump": impl[-1][1] if impl else None}, limit=2)
    got = ctx.model("client", lines)
    bad_hist, bad_mon = set(), set()
    for (hi, oi, kind), l, e, g in zip(meta, lines, expect, got):
        if e == g:
            continue
        ops = histories[hi]
        if kind.startswith("mon-"):
            # the monitors judge the IMPLEMENTATION's dumps: evaluated whether or not the model agrees
            if hi in bad_mon:
                continue
            bad_mon.add(hi)
            if len(res.monitor_failures) < 20:
                res.monitor_failures.append({"what": "C08 monitor %s failed on the real client's cache: %s" % (kind, g), "scenario": {"driver": label, "ops": ops[: oi + 1]}, "request": l, "tags": ["c08-" + kind]})
        elif hi not in bad_hist:
            bad_hist.add(hi)
            sc = shrink_direct(ctx, ops[: oi + 1]) if len(res.disagreements) < 2 else ops[: oi + 1]
            if len(res.disagreements) < 20:
                res.disagreements.append({"component": "client-cache", "driver": label, "scenario": {"driver": label, "ops": sc}, "at": oi, "impl": e, "model": g})
            else:
                res.count("more_disagreements")
    res.traces_validated += len(histories)


def disagree_direct(ctx, ops):
    impl = run_direct_impl(ops)
    lines, expect = ["reset"], [["ok"]]
    for op, (ans, dump, _, queries) in zip(ops, impl):
        lines += [model_line(op), "dump", "query " + "+".join(query_topics(ops))]
        expect += [ans, dump, queries]
    return ctx.model("client", lines) != expect


def shrink_direct(ctx, ops):
    """ddmin-lite: drop single ops while the disagreement persists."""
    cur = list(ops)
    changed = True
    while changed and len(cur) > 1:
        changed = False
        for i in range(len(cur)):
            cand = cur[:i] + cur[i + 1:]
            try:
                if cand and disagree_direct(ctx, cand):
                    cur, changed = cand, True
                    break
            except Exception:
                pass
    return cur


def corpus_histories():
    out = []
    if os.path.isdir(CORPUS):
        for fn in sorted(os.listdir(CORPUS)):
            if fn.startswith("c08-") and fn.endswith(".json"):
                d = json.load(open(os.path.join(CORPUS, fn)))
                out.append([fix_op(o) for o in d["ops"]])
    return out


def fix_op(o):
    o = dict(o)
    if o["op"] == "merge":
        o["brokers"] = [tuple(b) for b in o["brokers"]]
        o["topics"] = [(n, e, [tuple(p) for p in ps]) for n, e, ps in o["topics"]]
    if o["op"] == "handle":
        o["resps"] = [tuple(r) for r in o["resps"]]
    if o["op"] == "coord":
        o["broker"] = tuple(o["broker"])
    return o


def run(ctx, res):
    CC.quiet()
    res.rule = ("direct: histories of 1..12 generated metadata responses (1..5 brokers added/removed/re-addressed, topics appearing, "
                "erroring, losing leaders, leaders unlisted or unknown, duplicate ids/names, partial and full refreshes) interleaved with "
                "broker-client creation, _handle_responses passes (all error classes, both fail_on_error), resets and coordinator updates, on "
                "a real KafkaClient; the cache is compared with the model after EVERY operation. net: see C07 (same cache compared after every "
                "event of real network scenarios). non-trivial = history with >= 2 metadata responses; distinct by content hash.")
    hs = corpus_histories()
    res.count("corpus", len(hs))
    n = ctx.scale(2500, 150000)
    for _ in range(n):
        hs.append(gen_history(ctx.rng, ctx.rng.randrange(1, ctx.scale(14, 30))))
    check_direct(ctx, res, hs)
    from harness.props import c07
    # stored network scenarios of this property (e.g. the witness of C08_recovers_within_retry_budget_counterexample)
    c07.run_corpus(ctx, res, ["net-c08-"], "c08", "C08")
    c07.net_scenarios(ctx, res, ctx.scale(1200, 80000), focus="c08")
    # end-to-end recovery (C08's last sentence): real Producer + Consumers over real clients over the simulated
    # cluster, finite fault sequences (leader moves, restarts, re-addressing), then the recovery monitors
    from harness.lib import e2e_recovery
    e2e_recovery.run(ctx, res, ctx.scale(100, 600))


def search(ctx, res, broken):
    from harness.core import Result
    r2 = Result()
    hs = [gen_history(ctx.rng, ctx.rng.randrange(1, 20)) for _ in range(ctx.scale(1500, 20000))]
    for b in broken:
        sc = (b.get("what") or {}).get("scenario") if isinstance(b.get("what"), dict) else None
        if sc and sc.get("driver") == "direct":
            base = [fix_op(o) for o in sc["ops"]]
            for _ in range(200):
                hs.append(base + gen_history(ctx.rng, ctx.rng.randrange(0, 4)))
    check_direct(ctx, r2, hs, label="direct")
    from harness.props import c07
    c07.net_scenarios(ctx, r2, ctx.scale(300, 3000), focus="c08")
    return r2.monitor_failures[:3]


def replay(ctx, data):
    CC.quiet()
    f = data.get("failure") or {}
    sc = f.get("scenario")
    if sc is None:
        for b in data.get("no_longer_checks", []):
            if isinstance(b.get("what"), dict) and "scenario" in b["what"]:
                sc = b["what"]["scenario"]
    if sc is None:
        print("nothing to replay in this file (broken proof?)", json.dumps(data)[:400])
        return 0
    if f.get("stage") == "e2e_recovery" or any(str(t).startswith("e2e-recovery-") for t in f.get("tags", [])):
        from harness.lib import e2e_recovery
        rc = e2e_recovery.replay(ctx, sc)
        if rc:
            print("VIOLATION property=C08 replay=(this file)")
        return rc
    if sc.get("driver") != "direct":
        from harness.props import c07
        return c07.replay(ctx, data)
    from harness.core import Result
    ops = [fix_op(o) for o in sc["ops"]]
    r = Result()
    check_direct(ctx, r, [ops])
    impl = run_direct_impl(ops)
    for op, (ans, dump, closed, queries) in zip(ops, impl):
        print("op", json.dumps(op))
        print("  impl", ans, dump, queries)
    print("disagreements", json.dumps(r.disagreements, default=str)[:2000])
    print("monitor failures", json.dumps(r.monitor_failures, default=str)[:2000])
    if r.monitor_failures:
        print("VIOLATION property=C08 replay=(this file)")
        return 1
    return 1 if r.disagreements else 0
