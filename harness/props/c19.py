"""C19 - producer: correspondence of afkak/producer.py with Afkak/Producer.lean (scripted environment and
full stack) + the Lean monitors Afkak.Monitor.C19 evaluated on the implementation's traces."""
from harness.lib import producer_check as K

PID = "C19"
COMPONENTS = K.COMPONENTS
TRUSTED = K.TRUSTED
ASSUMPTIONS = K.ASSUMPTIONS[PID]


def run(ctx, res):
    K.run(ctx, res, PID)


def search(ctx, res, broken):
    return K.search(ctx, res, broken, PID)


def replay(ctx, data):
    return K.replay(ctx, data, PID)
