"""C17 - a started member always progresses: correspondence of the real ConsumerGroup/Coordinator with Afkak/Group.lean + monitors."""
from harness.lib import group_run

COMPONENTS = ["group"]
TRUSTED = [
    "scripted environment harness/lib/group_fakeclient.py: fake client reproducing the real client's cancel outcomes (client_iface.md), fake partition consumers (start/shutdown/stop recorded; completion decided by the scenario)",
    "Twisted Deferred/inlineCallbacks/DeferredList/LoopingCall semantics as folded into Afkak/Group.lean (checked by the per-step correspondence, not proved)",
    "extractor harness/consts/group.py: symbolic run of rejoin_after_error / _get_coordinator_failed / rejoin_d_errback over the class hierarchy of afkak/common.py",
    "full-stack stage: recording proxies harness/lib/group_fullstack.py (RecClient around each member's real KafkaClient, RecReactor, RecConsumer, and ConClient around the client each real partition Consumer gets: its fetch / offset / commit calls are attributed to that consumer and placed after the group step during which they happen)",
]
ASSUMPTIONS = [
    "partition consumers keep the guarantee side of C02/C03/C13: shutdown()/stop() do not raise for a running consumer, a consumer whose shutdown Deferred fired has stopped",
    "a consumer's shutdown completion is an environment event: one that never completes (F11) wedges on_join_prepare; the member is then 'joining', not idle",
    "the client keeps ClientIface: each request completes at most once with one of the result kinds; cancel outcomes as in client_iface.md",
    "composition with the consumer package (Afkak.GroupCompose): a Consumer whose stop() has run issues no request (C13_stop_leaves_nothing_fetching, C13_stop_leaves_no_timer) - the enabling condition of the product model's consumer events; checked on the real Consumer objects by the composed monitors of the full-stack stage",
    "times are dyadic rationals in the scenarios so that Twisted's float arithmetic is exact; reactor latency is not modelled",
]


def run(ctx, res):
    group_run.run(ctx, res, "C17")


def search(ctx, res, broken):
    return group_run.search(ctx, res, broken, "C17")


def replay(ctx, data):
    return group_run.replay(ctx, data, "C17")
