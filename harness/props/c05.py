"""C05 - responses and message sets decode to exactly what was encoded.

The driver encodes generated well-formed values with the INDEPENDENT grammar (`spec-enc`,
`Afkak/Wire/Spec.lean`); the bytes are cross-checked against the independent Python codec
(`harness/sim/refcodec.py`), handed to the REAL decoders of afkak, and
* correspondence: the model decoder (`dec` / `dec-set`) must return what the real decoder returned
  (value for value, exception class for exception class), also on truncated and corrupted bytes;
* monitor: `Afkak.Monitor.C05` (`mon-c05`): what the real decoder returned is exactly the encoded
  value - for message sets with the absolute offsets the protocol defines for format-0 and format-1
  compressed wrappers, to nesting depth 2.
gzip is an external of the model: compression is done here (1..4 gzip members per payload); the real
`gzip_decode` is checked against an independent RFC 1952 decompressor (`ref_gunzip`), both on the
wrapper payloads and in a stage of its own (`gzip_codec_cases`).
"""
import gzip
import json
import os
import zlib

from harness.core import VERIF, Result
from harness.lib import wire_common as W
from harness.lib import wire_resps as R
from harness.lib.wire_common import vr

COMPONENTS = ["wire"]
CONSTS = ["wire", "wiregen"]  # "wiregen": the model terms regenerated from the AST (harness/consts/wiregen.py), proved equal to the hand-written model
TRUSTED = [
    "snappy: python-snappy is not installed; afkak.codec.snappy_decode / snappy_encode (xerial framing) are compared with the model Afkak/Wire/Xerial.lean through a stub `snappy` module object (identity compress / decompress with a call budget) - the real compressor is a trusted external",
    "harness/lib/wire_translate.py (Python AST -> Lean translator for the typed, exception-raising functions of _util.py / kafkacodec.py; documented subset, nothing dropped silently except the guards it lists in the generated file) and the library primitives its terms are written in (Afkak/Wire/Primitives.lean + GenPrims.lean: struct pack/unpack/calcsize incl. %s repeat counts, slicing, encode/decode, dict/defaultdict, nativeString, the generator monad Y): the C0x_generated_*_eq_model obligations are about the terms it emits",
    "the Kafka protocol grammar as written in Afkak/Wire/Spec.lean (from the protocol guide) and, independently, in harness/sim/refcodec.py; their encodings are compared byte for byte on every run",
    "Afkak.Wire.Crc.crc32 (used to RUN grammar and model) is compared with zlib.crc32 on every run (C04 run); the theorems hold for any checksum function",
    "gzip is a parameter of the model and the theorems, which assume only gunzip(gzip x) = x; that assumption is CHECKED on the implementation every run: afkak.codec.gzip_decode / gzip_encode are compared with an independent RFC 1952 decompressor (zlib's gzip framing, member by member: harness/props/c05.py ref_gunzip) on single- and multi-member streams (empty members, optional header fields, zero padding) and on invalid ones (cut short, damaged trailer, trailing non-member bytes); wrapper payloads in the generated sets are written as 1..4 gzip members; for a payload the harness compressed itself the model and the monitor are given the data that was compressed (not the real function's answer) and the real gzip_decode's answer is checked against it",
    "the rendering of Python results into the driver's value syntax (harness/lib/wire_resps.py) - it includes the Python type of every field (a tuple where an int belongs does not render)",
]
ASSUMPTIONS = [
    "well-formed = encodable by the grammar, topic / host names ASCII, member ids and protocol names UTF-8, dict keys (node id, topic, partition) not repeated, at most 1024 brokers, assignment version 0",
    "compressed wrappers: codec gzip only (snappy is not installed; lz4 is not implemented by afkak); the LogAppendTime override of inner timestamps is outside the property",
    "nesting depth of compressed wrappers <= 2 in generated sets (the model and the theorems have no bound)",
]
CORPUS_DIR = os.path.join(VERIF, "corpus", "wire")


def gz(data):
    """Compress a wrapper payload.  RFC 1952: a gzip file is a SERIES of members; a decompressor must
    return the concatenation of all of them (GZIPInputStream, Python's gzip and afkak's gzip_decode
    do).  So the payload is written as one member, or - decided by the payload's own checksum, i.e.
    deterministically, so that replays rebuild the same bytes - as two or three members (an encoder
    that finishes and restarts its compressor per chunk), possibly with an empty member and with
    zero padding after the last one."""
    h = zlib.crc32(data)
    mode = h % 8
    if mode >= 4 or len(data) < 2:
        return gzip.compress(data, mtime=0)
    cut = 1 + (h >> 3) % (len(data) - 1)
    if mode == 0:
        parts = [data[:cut], data[cut:]]
    elif mode == 1:
        cut2 = cut + (h >> 11) % (len(data) - cut + 1)
        parts = [data[:cut], data[cut:cut2], data[cut2:]]
    elif mode == 2:
        parts = [data[:cut], b"", data[cut:]]  # an empty member in the middle
    else:
        parts = [b"", data[:cut], data[cut:], b""]
    out = b"".join(gzip.compress(x, compresslevel=1 + (h >> 20) % 9, mtime=0) for x in parts)
    return out + (b"\x00" * ((h >> 24) % 3) if mode == 3 else b"")


class GunzipError(Exception):
    pass


def ref_gunzip(payload):
    """Independent RFC 1952 decompressor (zlib's gzip framing, member by member): the concatenation of
    every member's data; zero bytes after a member are padding; anything else after the last member,
    an incomplete member or a bad trailer is an error.  Not Python's gzip module (which afkak uses)."""
    out = []
    data = bytes(payload)
    while data:
        d = zlib.decompressobj(16 + zlib.MAX_WBITS)
        try:
            out.append(d.decompress(data))
        except zlib.error as e:
            raise GunzipError(str(e))
        if not d.eof:
            raise GunzipError("incomplete member")
        data = d.unused_data.lstrip(b"\x00")
    return b"".join(out)


# --------------------------------------------------------------------------- trees <-> JSON / grammar values

def tree_to_json(t):
    return [[o, [m[0], m[1], m[2], None if m[3] is None else m[3].hex(), None if m[4] is None else m[4].hex()], None if inner is None else tree_to_json(inner)] for o, m, inner in t.entries]


def tree_from_json(j):
    return R.Tree([[o, [m[0], m[1], m[2], None if m[3] is None else bytes.fromhex(m[3]), None if m[4] is None else bytes.fromhex(m[4])], None if inner is None else tree_from_json(inner)] for o, m, inner in j])


def entries_value(t):
    """The (shallow) grammar value of a resolved tree: wrappers carry their gzip bytes as value."""
    return [[o, m] for o, m, _inner in t.entries]


def resolve(ctx, trees, gunzips):
    """Fill in the wrapper values bottom-up: inner set -> `spec-enc msgset` -> gzip -> wrapper value.
    `gunzips` collects (compressed, raw) pairs for the monitor's decompressor."""
    while True:
        todo = []

        def visit(t):
            for e in t.entries:
                inner = e[2]
                if inner is None or e[1][4] is not None:
                    continue
                visit(inner)
                if all(x[2] is None or x[1][4] is not None for x in inner.entries):
                    todo.append(e)

        for t in trees:
            visit(t)
        if not todo:
            return
        got = ctx.model("wire", ["spec-enc msgset " + vr(entries_value(e[2])) for e in todo])
        for e, g in zip(todo, got):
            if not g or not g[0].startswith("ok "):
                raise RuntimeError("spec-enc msgset failed: %r" % (g,))
            raw = W.parse_v(g[0][3:])
            comp = gz(raw)
            gunzips.append((comp, raw))
            e[1][4] = comp


# --------------------------------------------------------------------------- scenarios

def simple_scenarios(rng, n):
    kinds = sorted(R.SIMPLE)
    out = []
    for i in range(n):
        k = kinds[i % len(kinds)] if i < 4 * len(kinds) else rng.choice(kinds + ["metadata", "produce2", "offset_fetch"])
        sc = {"op": "resp", "kind": k, "value": vr(R.SIMPLE[k](rng))}
        ver = R.pick_version(rng, k)
        if ver is not None:
            sc["ver"] = ver  # api_version handed to decode_produce_response (any integer; default: the kind's own)
        out.append(sc)
    return out


def set_scenarios(rng, n, big):
    return [{"op": "msgset", "tree": tree_to_json(R.gen_tree(rng, rng.choice([0, 0, 1, 1, 2]), big))} for _ in range(n)]


def fetch_scenarios(rng, n, big):
    out = []
    for _ in range(n):
        kind = rng.choice(["fetch0", "fetch2"])
        tps = R.topics_of(rng, lambda r: [R.i32(r), R.err(r), R.i64(r), tree_to_json(R.gen_tree(r, r.choice([0, 0, 1, 2]), big))], max_topics=3, max_parts=3)
        sc = {"op": "fetch", "kind": kind, "corr": R.i32(rng), "throttle": R.i32(rng), "topics": [[t.hex(), ps] for t, ps in tps]}
        ver = R.pick_version(rng, kind)
        if ver is not None:
            sc["ver"] = ver  # api_version handed to decode_fetch_response
        out.append(sc)
    return out


def mutate(rng, data):
    """A malformed variant of valid bytes (for the correspondence only)."""
    if not data:
        return data
    k = rng.randrange(5)
    b = bytearray(data)
    if k == 0:
        return bytes(b[: rng.randrange(0, len(b))])
    if k == 1:
        i = rng.randrange(len(b))
        b[i] ^= 1 << rng.randrange(8)
        return bytes(b)
    if k == 2:
        i = rng.randrange(len(b))
        b[i:i + 2] = rng.choice([b"\xff\xff", b"\x80\x00", b"\x7f\xff", b"\xff\xfe", b"\x00\x00"])
        return bytes(b)
    if k == 3:
        return bytes(b) + bytes(rng.getrandbits(8) for _ in range(rng.randrange(1, 6)))
    i = rng.randrange(len(b))
    return bytes(b[:i] + b[i + rng.randrange(1, 4):])


# --------------------------------------------------------------------------- running

class Plan(object):
    """Everything one scenario contributes to the second model round."""

    def __init__(self, sc):
        self.sc = sc
        self.state = []
        self.items = []  # (kind 'corr'|'mon', line, expect-or-tags)
        self.gunzip_failures = []


def gzip_members(payload):
    """number of gzip members in a valid stream (0 if it is not one)"""
    n, data = 0, payload
    try:
        while data:
            d = zlib.decompressobj(16 + zlib.MAX_WBITS)
            d.decompress(data)
            if not d.eof:
                return 0
            n += 1
            data = d.unused_data.lstrip(b"\x00")
    except zlib.error:
        return 0
    return n


def gzip_codec_cases(ctx, res, n):
    """afkak.codec.gzip_decode / gzip_encode against the independent RFC 1952 reference (`ref_gunzip`) on
    generated streams.  VALID streams (1..4 members from independent compressors at different levels,
    empty members, header fields FNAME/FEXTRA/FCOMMENT/FHCRC, zero padding at the end): gzip_decode must
    return the concatenated data - that is the hypothesis gunzip(gzip x) = x of the C05 theorems, a
    monitor failure otherwise; gzip_encode's output must be a valid stream that both decompressors
    return to the input.  INVALID streams (cut short anywhere, damaged trailer CRC / length, bytes
    that are not a member after the last member): both must refuse (model/implementation
    correspondence: exception classes canonicalised to 'error')."""
    import afkak.codec as AC

    rng = ctx.rng

    def member(data):
        level = rng.choice([0, 1, 6, 9])
        if rng.random() < 0.7:
            return gzip.compress(data, compresslevel=level, mtime=rng.choice([0, 1500000000]))
        # hand-written header with optional fields, raw deflate body, trailer
        flg, extra = 0, b""
        if rng.random() < 0.5:
            flg |= 4
            x = bytes(rng.getrandbits(8) for _ in range(rng.randrange(0, 9)))
            extra += len(x).to_bytes(2, "little") + x
        if rng.random() < 0.5:
            flg |= 8
            extra += bytes(rng.randrange(1, 256) for _ in range(rng.randrange(0, 6))) + b"\x00"
        if rng.random() < 0.5:
            flg |= 16
            extra += bytes(rng.randrange(1, 256) for _ in range(rng.randrange(0, 6))) + b"\x00"
        head = b"\x1f\x8b\x08" + bytes([flg]) + rng.getrandbits(32).to_bytes(4, "little") + bytes([rng.choice([0, 2, 4]), rng.choice([3, 255, 0])]) + extra
        if rng.random() < 0.5:
            head = head[:3] + bytes([flg | 2]) + head[4:]
            head += (zlib.crc32(head) & 0xFFFF).to_bytes(2, "little")
        c = zlib.compressobj(level, zlib.DEFLATED, -zlib.MAX_WBITS)
        body = c.compress(data) + c.flush()
        return head + body + (zlib.crc32(data) & 0xFFFFFFFF).to_bytes(4, "little") + (len(data) & 0xFFFFFFFF).to_bytes(4, "little")

    def run_real(payload):
        try:
            return ("ok", AC.gzip_decode(payload))
        except Exception as e:  # noqa: BLE001 - the class is canonicalised
            return ("error", type(e).__name__)

    def run_ref(payload):
        try:
            return ("ok", ref_gunzip(payload))
        except GunzipError as e:
            return ("error", str(e))

    for i in range(n):
        k = rng.choice([1, 1, 1, 2, 2, 3, 4])
        parts = []
        for _ in range(k):
            r = rng.random()
            ln = 0 if r < 0.15 else rng.randrange(1, 40) if r < 0.7 else rng.randrange(40, 3000)
            parts.append(bytes(rng.getrandbits(8) for _ in range(ln)) if rng.random() < 0.5 else bytes(rng.choice(b"abc") for _ in range(ln)))
        stream = b"".join(member(x) for x in parts)
        data = b"".join(parts)
        shape = rng.choice(["valid", "valid", "valid", "padded", "cut", "trailer", "garbage"])
        if i == 0:
            stream, data, shape = b"", b"", "valid"  # the empty stream: no member at all
        if shape == "padded":
            stream += b"\x00" * rng.randrange(1, 9)
        elif shape == "cut" and len(stream) > 1:
            stream = stream[: rng.randrange(1, len(stream))]
        elif shape == "trailer":
            j = len(stream) - 1 - rng.randrange(0, 8)
            stream = stream[:j] + bytes([stream[j] ^ (1 << rng.randrange(8))]) + stream[j + 1 :]
        elif shape == "garbage":
            stream += rng.choice([b"", b"\x00\x00"]) + bytes([rng.randrange(1, 256)]) + bytes(rng.getrandbits(8) for _ in range(rng.randrange(0, 5)))
        sc = {"op": "gzip", "shape": shape, "members": k, "stream": stream.hex() if len(stream) < 3000 else stream[:3000].hex() + "...", "len": len(stream)}
        real, ref = run_real(stream), run_ref(stream)
        res.evaluations += 1
        res.count("gzip-codec:%s:members=%d:%s" % (shape, k, real[0]))
        if shape in ("valid", "padded"):
            res.nontrivial(["gzip", stream.hex()[:200], k])
            if ref != ("ok", data):
                res.disagreements.append({"component": "gzip-reference", "scenario": sc, "impl": "expected " + data.hex()[:200], "model": "reference " + repr(ref)[:200]})
            if real != ("ok", data):
                res.monitor_failures.append({"what": "afkak.codec.gzip_decode does not return the data of a valid gzip stream of %d member(s) (RFC 1952: the concatenation of all members)" % k,
                                             "scenario": sc, "monitor_line": "gunzip(gzip x) = x", "verdict": (real[1].hex()[:300] if real[0] == "ok" else real[1]),
                                             "expected": data.hex()[:300], "tags": ["c05-gunzip-not-inverse-of-gzip"]})
        elif real[0] != ref[0] or (real[0] == "ok" and real[1] != ref[1]):
            res.disagreements.append({"component": "gzip", "scenario": sc, "impl": "gzip_decode " + (real[1].hex()[:200] if real[0] == "ok" else "error " + real[1]),
                                      "model": "RFC 1952 reference " + (ref[1].hex()[:200] if ref[0] == "ok" else "error " + ref[1])})
        # the encoder: its output is a valid stream for the input, for both decompressors
        if i % 4 == 0:
            enc = AC.gzip_encode(data)
            if run_ref(enc) != ("ok", data) or run_real(enc) != ("ok", data):
                res.monitor_failures.append({"what": "gzip_decode(gzip_encode(x)) / reference(gzip_encode(x)) is not x", "scenario": {"op": "gzip-enc", "data": data.hex()[:3000]},
                                             "monitor_line": "gunzip(gzip x) = x", "verdict": repr(run_ref(enc))[:200] + " / " + repr(run_real(enc))[:200], "tags": ["c05-gunzip-not-inverse-of-gzip"]})
            res.count("gzip-codec:encode-roundtrip")
    res.traces_validated += n


def roundtrip_scenarios(rng, n):
    """Messages for the REAL encoder: both formats, null/empty keys and values, attribute bits outside
    the codec field, timestamps 0 / -1 / absent (stamped at encode time) / boundary / random, with an
    explicit first offset or none; every fifth: the messages go through create_gzip_message."""
    out = []
    for i in range(n):
        magic = rng.choice([0, 1, 1])
        msgs = []
        for _ in range(rng.choice([1, 1, 2, 3, 5])):
            ts = None
            if magic == 1:
                ts = rng.choice([0, 0, -1, None, 1, 1500000000000, 2 ** 63 - 1, -(2 ** 63), W.gen_int(rng, 64, p_bad=0)])
            attrs = 0 if rng.random() < 0.8 else rng.choice([8, 16, 32, 64, 24])
            k, v = W.gen_bytes(rng, big=1 << 10), W.gen_bytes(rng, big=1 << 10)
            msgs.append([magic, attrs, ts, None if k is None else k.hex(), None if v is None else v.hex()])
        out.append({"op": "roundtrip", "msgs": msgs, "offset": rng.choice([None, None, 0, 7, W.gen_int(rng, 40, p_bad=0)]),
                    "now": rng.choice(W.NOW_CHOICES), "wrap": (rng.choice([0, 1]) if i % 5 == 4 else None)})
    return out


def run_roundtrip(ctx, res, scs):
    """Encode with the REAL encoder, decode with the REAL decoder: the Lean monitor (mon-c05 msgset) judges
    what came out against the messages that went in (a message without a timestamp carries the encode
    time); the model decoder must agree with the real one on the same bytes; the real encoder's bytes
    must be the grammar's encoding of those messages (for create_gzip_message: the wrapper's payload,
    decompressed by the reference, must be the grammar's encoding of the inner messages)."""
    from afkak.common import Message
    from afkak.kafkacodec import KafkaCodec as K
    from afkak.kafkacodec import create_gzip_message

    lines, owner = [], []
    for sc in scs:
        ms = [Message(m[0], m[1], None if m[3] is None else bytes.fromhex(m[3]), None if m[4] is None else bytes.fromhex(m[4]), m[2]) if m[0] == 1
              else Message(m[0], m[1], None if m[3] is None else bytes.fromhex(m[3]), None if m[4] is None else bytes.fromhex(m[4])) for m in sc["msgs"]]
        now = sc["now"]
        exp_msgs = [[m[0], m[1], (now if (m[0] == 1 and m[2] is None) else m[2]), None if m[3] is None else bytes.fromhex(m[3]), None if m[4] is None else bytes.fromhex(m[4])] for m in sc["msgs"]]
        off = sc["offset"]
        res.evaluations += 1
        res.nontrivial(sc)
        for m in sc["msgs"]:
            if m[0] == 1:
                res.count("roundtrip:ts=%s" % ("none" if m[2] is None else "0" if m[2] == 0 else "-1" if m[2] == -1 else "other"))
        try:
            with W.Externals(now) as ext:
                if sc["wrap"] is None:
                    data = K._encode_message_set(ms, off)
                    line = R.real_decode_set_line(data)
                else:
                    wrapper = create_gzip_message(ms, magic=sc["wrap"])
        except Exception as e:  # noqa: BLE001
            res.disagreements.append({"component": "wire", "scenario": clean(sc), "impl": "real encoder raised %s: %s" % (type(e).__name__, str(e)[:200]), "model": "well-formed messages encode"})
            continue
        res.count("op:roundtrip:%s" % ("flat" if sc["wrap"] is None else "create_gzip_message"))
        if sc["wrap"] is not None:
            try:
                inner = ref_gunzip(wrapper.value)
            except GunzipError as e:
                inner = None
                res.monitor_failures.append({"what": "create_gzip_message: the wrapper's value is not a gzip stream (%s)" % e, "scenario": clean(sc), "monitor_line": "-", "verdict": "-", "tags": ["c05-encode-decode-not-identity"]})
                continue
            val = vr([[0, m] for m in exp_msgs])  # create_gzip_message stores every inner offset as 0
            lines += ["ext-clear", "ext-now i%d" % now, "spec-enc msgset " + val]
            owner += [(sc, "state", None), (sc, "state", None), (sc, "enc-inner", ["ok " + vr(inner)])]
            # the whole path of C05_producer_batch_roundtrip on the REAL code: the wrapper goes through
            # _encode_message_set (what the produce encoder writes for the partition) and the bytes through
            # _decode_message_set_iter; the monitor judges the result against the messages that went in
            # (the model and the monitor are told what the payload decompresses to: the reference's answer)
            try:
                with W.Externals(now):
                    wdata = K._encode_message_set([wrapper])
                    wline = R.real_decode_set_line(wdata)
            except Exception as e:  # noqa: BLE001
                res.disagreements.append({"component": "wire", "scenario": clean(sc), "impl": "encoding the wrapper raised %s: %s" % (type(e).__name__, str(e)[:200]), "model": "a wrapper built by create_gzip_message encodes"})
                continue
            wval = vr([[0, [wrapper.magic, wrapper.attributes, wrapper.timestamp, wrapper.key, wrapper.value]]])
            lines += ["ext-gunzip %s %s" % (vr(wrapper.value), vr(inner)), "dec-set %s" % vr(wdata), "mon-c05 msgset %s | %s" % (wval, wline)]
            owner += [(sc, "state", None), (sc, "corr", [wline]), (sc, "monw", ["c05-encode-decode-not-identity"])]
            res.count("op:roundtrip:wrapper-encoded-and-decoded")
            continue
        val = vr([[(0 if off is None else off + i), m] for i, m in enumerate(exp_msgs)])
        lines += ["ext-clear", "ext-now i%d" % now, "dec-set %s" % vr(data), "mon-c05 msgset %s | %s" % (val, line), "spec-enc msgset " + val]
        owner += [(sc, "state", None), (sc, "state", None), (sc, "corr", [line]), (sc, "mon", ["c05-encode-decode-not-identity"]), (sc, "enc", ["ok " + vr(data)])]
    got = ctx.model("wire", lines) if lines else []
    for (sc, kind, x), line, g in zip(owner, lines, got):
        if kind == "state":
            continue
        if kind == "corr":
            res.traces_validated += 1
            if g != x:
                res.disagreements.append({"component": "wire", "scenario": clean(sc), "request": line[:3000], "impl": trunc(x), "model": trunc(g)})
        elif kind in ("mon", "monw"):
            v = g[0] if g else "none"
            res.count(("monitor:" if kind == "mon" else "monitor:wrapper-through-encoder-and-decoder:") + v)
            if v not in ("ok", "out-of-range"):
                res.monitor_failures.append({"what": "encoding messages with the real encoder and decoding the bytes with the real decoder did not give the messages back",
                                             "scenario": clean(sc), "monitor_line": line[:6000], "verdict": trunc(g, 3000), "tags": list(x)})
        elif kind == "enc":
            if g != x and g and g[0].startswith("ok "):
                res.disagreements.append({"component": "encoder-vs-grammar", "scenario": clean(sc), "request": line[:3000], "impl": "_encode_message_set " + trunc(x), "model": "grammar " + trunc(g)})
        elif kind == "enc-inner":
            if g != x and g and g[0].startswith("ok "):
                res.monitor_failures.append({"what": "create_gzip_message: the wrapper's payload does not decompress to the encoding of the messages it was given (encode then decode is not the identity)",
                                             "scenario": clean(sc), "monitor_line": line[:3000], "verdict": trunc(x, 1500), "tags": ["c05-encode-decode-not-identity"]})


def first_round(ctx, scs):
    """spec-enc of every scenario value. -> per scenario: (kind, value V string, bytes)"""
    gunz = {}
    trees = {}
    for i, sc in enumerate(scs):
        if sc["op"] == "msgset":
            trees[i] = [tree_from_json(sc["tree"])]
        elif sc["op"] == "fetch":
            trees[i] = [tree_from_json(p[3]) for _t, ps in sc["topics"] for p in ps]
        if i in trees:
            gunz[i] = []
            resolve(ctx, trees[i], gunz[i])
    lines, meta = [], []
    for i, sc in enumerate(scs):
        if sc["op"] == "resp":
            kind, val = sc["kind"], sc["value"]
        elif sc["op"] == "msgset":
            kind, val = "msgset", vr(entries_value(trees[i][0]))
        elif sc["op"] == "fetch":
            it = iter(trees[i])
            tps = [[bytes.fromhex(t), [[p[0], p[1], p[2], entries_value(next(it))] for p in ps]] for t, ps in sc["topics"]]
            kind = sc["kind"]
            val = vr([sc["corr"], tps] if kind == "fetch0" else [sc["corr"], sc["throttle"], tps])
        else:
            kind, val = None, None
        meta.append((kind, val))
        if kind is not None:
            lines.append("spec-enc %s %s" % (kind, val))
    got = iter(ctx.model("wire", lines)) if lines else iter([])
    out = []
    for i, (kind, val) in enumerate(meta):
        if kind is None:
            out.append((None, None, None, []))
            continue
        g = next(got)
        data = W.parse_v(g[0][3:]) if g and g[0].startswith("ok ") else None
        out.append((kind, val, data, gunz.get(i, [])))
    return out


def plan_one(sc, kind, val, data, known_gunzips, decs, rng, res):
    p = Plan(sc)
    if sc["op"] == "mutant":
        kind, data, val = sc["kind"], bytes.fromhex(sc["data"]), None
    if data is None:
        p.items.append(("corr", "spec-enc %s %s" % (kind, val), ["ok <bytes>"]))  # will show as a disagreement
        return p
    with W.Externals() as ext:
        if kind == "msgset":
            line = R.real_decode_set_line(data)
        else:
            api, extra, fn = decs[kind]
            ver = sc.get("ver") if kind in R.VERSIONED else None
            if ver is not None:
                extra, fn = R.versioned_decoder(kind, ver)  # the api_version argument: any integer
                res.count("api_version:%s:%s" % (R.VERSIONED[kind], ver if -2 < ver < 4 else "<=-2" if ver < 0 else ">=4"))
            line = R.real_decode_line(kind, data, fn)
    # externals.  A payload the harness compressed itself has ONE right answer (RFC 1952: the data of
    # all its members): the model and the monitor get that answer - what the protocol says the wrapper
    # contains -, and the real gzip_decode's answer for it is CHECKED against it (the theorems' only
    # assumption about the decompressor, gunzip(gzip x) = x, is thereby checked on the implementation).
    # Other payloads (from corrupted bytes): what the real gzip_decode returned is handed over as is.
    truth = dict(known_gunzips)
    p.state = ["ext-clear", "ext-now i%d" % ext.now_ms]
    seen = set()
    for inp, out in ext.gunzips:
        if inp in seen:
            continue
        seen.add(inp)
        want = truth.get(bytes(inp)) if inp is not None else None
        if want is not None and out != want:
            res.count("gunzip:real-differs-from-rfc1952")
            p.gunzip_failures.append({"payload": bytes(inp).hex()[:4000], "members": gzip_members(bytes(inp)),
                                      "expected": want.hex()[:2000], "impl": "exception" if out is None else out.hex()[:2000]})
            out = want
        elif want is not None:
            res.count("gunzip:real-agrees-with-rfc1952:members=%d" % min(gzip_members(bytes(inp)), 4))
        p.state.append("ext-gunzip-err %s" % vr(inp) if out is None else "ext-gunzip %s %s" % (vr(inp), vr(out)))
    for comp, raw in known_gunzips:
        if comp not in seen:
            p.state.append("ext-gunzip %s %s" % (vr(comp), vr(raw)))
    for l in ext.ext_lines():
        if l.startswith("ext-gzip "):
            p.state.append(l)
    if kind == "msgset":
        p.items.append(("corr", "dec-set %s" % vr(data), [line]))
    else:
        p.items.append(("corr", "dec %s %s%s" % (api, vr(data), "".join(" " + vr(x) for x in extra)), [line]))
    if val is not None:
        if R.version_judged(kind, sc.get("ver")):
            p.items.append(("mon", "mon-c05 %s %s | %s" % (kind, val, line), ["c05-%s-not-identity" % kind]))
        else:
            res.count("api_version:not-judged")  # version 1 / negative / the other layout: model = code only
        ref = R.ref_encode(kind, W.parse_v(val)) if kind not in ("correlation_id",) else None
        sc["_ref_same"] = None if ref is None else (ref == data)
        if ref is not None and ref != data:
            p.items.append(("refdiff", "spec-enc %s" % kind, [data.hex()[:300], ref.hex()[:300]]))
        if ref is not None:
            # the other direction: the Lean grammar decodes refcodec's bytes to the value, refcodec parses the Lean bytes
            p.items.append(("cross", "spec-dec %s %s" % (kind, vr(ref)), ["ok " + val]))
            if R.ref_parses(kind, data) is False:
                p.items.append(("refdiff", "refcodec rejects the Lean grammar's encoding of %s" % kind, [data.hex()[:300], "CodecError"]))
            res.count("cross:both-directions")
    res.count("decoded:%s:%s" % (kind, line.split(" ")[0] if not line.startswith("gen") else "gen-" + line.rsplit(" ", 1)[1]))
    return p


def run_scenarios(ctx, res, scs, rng, mutants=0.5, chunk=300):
    decs = R.decoders()
    for c0 in range(0, len(scs), chunk):
        part = scs[c0:c0 + chunk]
        enc = first_round(ctx, part)
        plans = []
        for sc, (kind, val, data, gunz) in zip(part, enc):
            plans.append(plan_one(sc, kind, val, data, gunz, decs, rng, res))
            res.evaluations += 1
            res.count("op:" + sc["op"] + (":" + sc.get("kind", "") if sc["op"] in ("resp", "mutant") else ""))
            if sc["op"] != "mutant":
                res.nontrivial(sc)
            # malformed variants of the same bytes: correspondence only
            if data is not None and sc["op"] != "mutant" and rng.random() < mutants:
                for _ in range(2):
                    m = {"op": "mutant", "kind": kind, "data": mutate(rng, data).hex()}
                    if sc.get("ver") is not None:
                        m["ver"] = sc["ver"]
                    pm = plan_one(m, None, None, None, gunz, decs, rng, res)
                    plans.append(pm)
                    res.evaluations += 1
                    res.count("op:mutant")
        lines, owner = [], []
        for p in plans:
            for gf in p.gunzip_failures:
                res.monitor_failures.append({"what": "afkak's gzip_decode does not return the data of a valid gzip stream (RFC 1952: all members) that is the value of a compressed wrapper, "
                                                     "so the wrapper's messages are not decoded as encoded", "scenario": clean(p.sc), "gunzip": gf, "monitor_line": "gunzip(gzip x) = x", "verdict": gf["impl"][:300],
                                             "tags": ["c05-gunzip-not-inverse-of-gzip"]})
            lines.append("ext-clear"); owner.append((p, "state", None))
            for l in p.state[1:]:
                lines.append(l); owner.append((p, "state", None))
            for kind, line, x in p.items:
                if kind == "refdiff":
                    res.disagreements.append({"component": "spec-vs-refcodec", "scenario": clean(p.sc), "impl": "spec " + x[0], "model": "refcodec " + x[1]})
                    continue
                lines.append(line); owner.append((p, kind, x))
        got = ctx.model("wire", lines)
        for (p, kind, x), line, g in zip(owner, lines, got):
            if kind == "state":
                if g != ["ok"]:
                    res.disagreements.append({"component": "wire", "request": line[:200], "impl": "state request", "model": g})
            elif kind == "cross":
                if g != x:
                    res.disagreements.append({"component": "spec-vs-refcodec", "scenario": clean(p.sc), "request": line[:3000], "impl": trunc(x), "model": trunc(g)})
            elif kind == "corr":
                res.traces_validated += 1
                if g != x:
                    res.disagreements.append({"component": "wire", "scenario": clean(p.sc), "request": line[:3000], "impl": trunc(x), "model": trunc(g)})
            else:
                v = g[0] if g else "none"
                res.count("monitor:" + v)
                if v not in ("ok", "out-of-range"):
                    res.monitor_failures.append({"what": "decoding the grammar's encoding of a value did not give the value back (%s)" % line.split(" ")[1],
                                                 "scenario": clean(p.sc), "monitor_line": line[:6000], "verdict": trunc(g, 3000), "tags": list(x)})
        for sc in part[:1]:
            res.sample(sample_of(sc))


def clean(sc):
    return None if sc is None else {k: v for k, v in sc.items() if not k.startswith("_")}


def sample_of(sc):
    s = json.dumps(clean(sc), default=str)
    return json.loads(s) if len(s) < 1500 else {"op": sc["op"], "kind": sc.get("kind"), "abridged": s[:1500]}


def trunc(x, n=900):
    s = json.dumps(x, default=str)
    return s if len(s) <= n else s[:n] + "...(%d chars)" % len(s)


def generate(rng, sizes):
    return simple_scenarios(rng, sizes["simple"]) + set_scenarios(rng, sizes["sets"], sizes["big"]) + fetch_scenarios(rng, sizes["fetch"], sizes["big"])


def corpus():
    out = []
    if os.path.isdir(CORPUS_DIR):
        for fn in sorted(os.listdir(CORPUS_DIR)):
            if fn.endswith(".json"):
                out += json.load(open(os.path.join(CORPUS_DIR, fn))).get("c05", [])
    return out


QUICK = {"simple": 3200, "sets": 1100, "fetch": 500, "big": 1 << 14}
THOROUGH_SHARD = {"simple": 4000, "sets": 1500, "fetch": 700, "big": 1 << 18}


def _shard(args):
    import random
    import sys

    from harness import core

    seed, idx, sizes = args
    sys.path.insert(0, core.REPO)

    class C(object):
        pass

    c = C()
    c.rng = random.Random((seed * 7919 + idx) * 1000003 + 5)
    c.model = core.run_model
    r = Result()
    run_scenarios(c, r, generate(c.rng, sizes), c.rng)
    return r


def merge(res, r):
    res.evaluations += r.evaluations
    res.distinct |= r.distinct
    res.traces_validated += r.traces_validated
    res.disagreements += r.disagreements
    res.monitor_failures += r.monitor_failures
    for k, v in r.hist.items():
        res.count(k, v)
    for s in r.samples:
        res.sample(s)


def xerial_cases(ctx, res, n):
    """afkak.codec.snappy_decode / snappy_encode(xerial_compatible=True) against the model Afkak/Wire/Xerial.lean.
    python-snappy is not installed: the module object `afkak.codec.snappy` is replaced for the duration of the
    stage by a stub whose compress / decompress are the identity and whose decompress raises after BUDGET calls
    (so a payload on which the `while cursor < length` loop does not end - a negative block size - ends the
    real call with the stub's exception; the model reports `fuel` with fuel = BUDGET + 1).  Payloads: well-formed
    streams of 0..4 blocks, and streams whose length fields are 0, too large, negative (-1..-40, -4 = the cursor
    returns to where it was), arbitrary int32, cut short, followed by garbage; payloads without the header."""
    import struct
    import types

    import afkak.codec as AC

    rng = ctx.rng
    BUDGET = 12

    class Budget(Exception):
        pass

    calls = [0]

    def decomp(b):
        calls[0] += 1
        if calls[0] > BUDGET:
            raise Budget()
        return bytes(b)

    had = hasattr(AC, "snappy")
    old = (getattr(AC, "snappy", None), AC._has_snappy)
    AC.snappy = types.SimpleNamespace(decompress=decomp, compress=lambda b: bytes(b))
    AC._has_snappy = True
    cases, lines = [], []
    try:
        for i in range(n):
            kind = rng.choice(["good", "good", "sizes", "sizes", "sizes", "cut", "garbage", "nohdr"])
            blocks = [bytes(rng.getrandbits(8) for _ in range(rng.choice([0, 1, 2, 5, 9]))) for _ in range(rng.randint(0, 4))]
            payload = AC._XERIAL_HEADER
            for b in blocks:
                size = len(b)
                if kind == "sizes" and rng.random() < 0.6:
                    size = rng.choice([0, len(b) + rng.randint(1, 9), -4, -rng.randint(1, 40), rng.randint(-2**31, 2**31 - 1), -(len(b) + 4), -8])
                payload += struct.pack("!i", size) + b
            if kind == "cut" and len(payload) > 16:
                payload = payload[:rng.randint(16, len(payload) - 1)]
            elif kind == "garbage":
                payload += bytes(rng.getrandbits(8) for _ in range(rng.randint(1, 6)))
            elif kind == "nohdr":
                payload = bytes(rng.getrandbits(8) for _ in range(rng.randint(0, 24)))
                if rng.random() < 0.3:
                    payload = AC._XERIAL_HEADER[:rng.randint(1, 15)] + payload
            calls[0] = 0
            try:
                real = "ok " + vr(AC.snappy_decode(payload))
            except Budget:
                real = "error fuel"
            except struct.error:
                real = "error struct.error"
            except Exception as e:  # noqa: BLE001 - anything else is reported as it is
                real = "error " + type(e).__name__
            cases.append(({"op": "xerial", "payload": payload.hex()}, real))
            lines.append("xerial %s %s" % (vr(payload), vr(BUDGET + 1)))
            res.count("xerial:%s:%s" % (kind, real.split()[0] if real.startswith("ok") else real))
            if i % 3 == 0:
                data = b"".join(blocks)
                bs = rng.randint(1, 7)
                calls[0] = 0
                enc = AC.snappy_encode(data, xerial_compatible=True, xerial_blocksize=bs)
                chunks = [data[k:k + bs] for k in range(0, len(data), bs)]
                cases.append(({"op": "xerial-enc", "data": data.hex(), "blocksize": bs}, "ok " + vr(enc)))
                lines.append("xerial-enc " + vr(chunks))
                res.count("xerial:encode")
    finally:
        AC._has_snappy = old[1]
        if had:
            AC.snappy = old[0]
        else:
            del AC.snappy
    got = ctx.model("wire", lines) if lines else []
    for (sc, real), g in zip(cases, got):
        res.evaluations += 1
        model = g[0] if g else "no answer"
        if sc["op"] == "xerial" and real.startswith("ok"):
            res.nontrivial(["xerial", sc["payload"][:200]])
        if model != real:
            res.disagreements.append({"component": "xerial", "scenario": sc, "impl": real[:300], "model": model[:300]})
    res.traces_validated += len(cases)


def xerial_one(ctx, sc):
    """one stored xerial scenario on the current tree -> (real, model)"""
    import struct
    import types

    import afkak.codec as AC

    BUDGET = 12
    calls = [0]

    class Budget(Exception):
        pass

    def decomp(b):
        calls[0] += 1
        if calls[0] > BUDGET:
            raise Budget()
        return bytes(b)

    had = hasattr(AC, "snappy")
    old = (getattr(AC, "snappy", None), AC._has_snappy)
    AC.snappy = types.SimpleNamespace(decompress=decomp, compress=lambda b: bytes(b))
    AC._has_snappy = True
    try:
        if sc["op"] == "xerial":
            payload = bytes.fromhex(sc["payload"])
            line = "xerial %s %s" % (vr(payload), vr(BUDGET + 1))
            try:
                real = "ok " + vr(AC.snappy_decode(payload))
            except Budget:
                real = "error fuel"
            except struct.error:
                real = "error struct.error"
            except Exception as e:  # noqa: BLE001
                real = "error " + type(e).__name__
        else:
            data, bs = bytes.fromhex(sc["data"]), sc["blocksize"]
            real = "ok " + vr(AC.snappy_encode(data, xerial_compatible=True, xerial_blocksize=bs))
            line = "xerial-enc " + vr([data[k:k + bs] for k in range(0, len(data), bs)])
    finally:
        AC._has_snappy = old[1]
        if had:
            AC.snappy = old[0]
        else:
            del AC.snappy
    got = ctx.model("wire", [line])
    return real, (got[0][0] if got and got[0] else "no answer")


def run(ctx, res):
    res.rule = ("well-formed values of every response type (0..4 topics x 0..5 partitions, every error code incl. boundary int16, boundary int32/int64, "
                "null/empty/large byte fields, ASCII and UTF-8 names, sorted and permuted version tables) and message sets as trees of depth 0..2 "
                "(both magics, null/empty keys and values, timestamps, gzip wrappers with protocol and arbitrary inner offsets), encoded by the grammar; "
                "produce / fetch responses decoded under the kind's own api_version or (30-50%) another integer (1, 3..32767, negative, the other layout's: "
                "judged by the monitor when it selects the encoded layout, else correspondence only); 3% of the plain messages carry codec bits 2..7 (not judged); "
                "plus truncated / corrupted variants (correspondence only). non-trivial = every well-formed-value scenario (its bytes reached the real decoder "
                "and the monitor ran on the result). distinct = by content hash.")
    run_scenarios(ctx, res, corpus(), ctx.rng, mutants=0.0)
    gzip_codec_cases(ctx, res, ctx.scale(1500, 20000))
    xerial_cases(ctx, res, ctx.scale(600, 8000))
    run_roundtrip(ctx, res, roundtrip_scenarios(ctx.rng, ctx.scale(800, 10000)))
    if ctx.tier == "thorough":
        import multiprocessing as mp

        with mp.Pool(16) as pool:
            for r in pool.imap_unordered(_shard, [(ctx.seed, i, THOROUGH_SHARD) for i in range(32)]):
                merge(res, r)
    else:
        run_scenarios(ctx, res, generate(ctx.rng, QUICK), ctx.rng)
    for rec in res.disagreements[:3] + res.monitor_failures[:3]:
        sc = rec.get("scenario")
        if sc and sc.get("op") == "resp":
            rec["shrunk"] = shrink_resp(ctx, sc)
        elif sc and sc.get("op") == "msgset":
            rec["shrunk"] = shrink_set(ctx, sc)


def fails(ctx, sc):
    r = Result()
    try:
        run_scenarios(ctx, r, [dict(sc)], __import__("random").Random(0), mutants=0.0)
    except Exception:
        return False
    return bool(r.disagreements or r.monitor_failures)


def shrink_resp(ctx, sc, budget=60):
    val = W.parse_v(sc["value"])

    def paths(v, pre=()):
        if isinstance(v, list):
            for i, x in enumerate(v):
                yield pre + (i,)
                for p in paths(x, pre + (i,)):
                    yield p

    def without(v, path):
        if len(path) == 1:
            return v[:path[0]] + v[path[0] + 1:]
        return v[:path[0]] + [without(v[path[0]], path[1:])] + v[path[0] + 1:]

    changed = True
    while changed and budget > 0:
        changed = False
        for p in sorted(paths(val), key=lambda q: -len(q)):
            if len(p) < 2:
                continue
            cand = without(val, p)
            budget -= 1
            if budget <= 0:
                break
            d = dict(sc)
            d["value"] = vr(cand)
            if fails(ctx, d):
                val, changed = cand, True
                break
    d = dict(sc)
    d["value"] = vr(val)
    return clean(d)


def shrink_set(ctx, sc, budget=50):
    """ddmin over the entries of a message-set tree (top level and inside wrappers)."""
    import copy

    tree = copy.deepcopy(sc["tree"])

    def paths(t, pre=()):
        for i, e in enumerate(t):
            yield pre + (i,)
            if e[2] is not None:
                for p in paths(e[2], pre + (i,)):
                    yield p

    def without(t, path):
        t = copy.deepcopy(t)
        cur = t
        for i in path[:-1]:
            cur = cur[i][2]
        del cur[path[-1]]
        return t

    changed = True
    while changed and budget > 0:
        changed = False
        for p in sorted(paths(tree), key=lambda q: -len(q)):
            cand = without(tree, p)
            budget -= 1
            if budget <= 0:
                break
            if fails(ctx, {"op": "msgset", "tree": cand}):
                tree, changed = cand, True
                break
    return {"op": "msgset", "tree": tree}


def search(ctx, res, broken):
    r2 = Result()
    sizes = {"simple": ctx.scale(4000, 12000), "sets": ctx.scale(1500, 5000), "fetch": ctx.scale(600, 2000), "big": 1 << 14}
    kinds = set()
    for b in broken:
        w = b.get("what")
        if isinstance(w, dict) and isinstance(w.get("scenario"), dict) and w["scenario"].get("kind"):
            kinds.add(w["scenario"]["kind"])
    gzip_codec_cases(ctx, r2, ctx.scale(1500, 6000))
    run_roundtrip(ctx, r2, roundtrip_scenarios(ctx.rng, ctx.scale(1500, 6000)))
    scs = generate(ctx.rng, sizes)
    extra = []
    for k in sorted(kinds):
        if k in R.SIMPLE:
            extra += [{"op": "resp", "kind": k, "value": vr(R.SIMPLE[k](ctx.rng))} for _ in range(ctx.scale(1500, 5000))]
    run_scenarios(ctx, r2, extra + scs, ctx.rng, mutants=0.0)
    for rec in r2.monitor_failures[:3]:
        sc = rec.get("scenario")
        if sc and sc.get("op") == "resp":
            rec["shrunk"] = shrink_resp(ctx, sc)
        elif sc and sc.get("op") == "msgset":
            rec["shrunk"] = shrink_set(ctx, sc)
    return r2.monitor_failures[:3]


def replay(ctx, data):
    f = data.get("failure") or {}
    sc = f.get("shrunk") or f.get("scenario")
    if not sc and data.get("no_longer_checks"):
        w = data["no_longer_checks"][0].get("what")
        sc = (w.get("shrunk") or w.get("scenario")) if isinstance(w, dict) else None
    if not sc:
        print("replay: no scenario in the file (a broken proof is replayed by running ./check C05)")
        return 0
    print("replay scenario:", json.dumps(sc)[:3000])
    r = Result()
    if sc.get("op") in ("gzip", "gzip-enc"):
        import afkak.codec as AC

        stream = AC.gzip_encode(bytes.fromhex(sc["data"])) if sc["op"] == "gzip-enc" else bytes.fromhex(sc["stream"].rstrip("."))
        try:
            real = "ok " + AC.gzip_decode(stream).hex()
        except Exception as e:  # noqa: BLE001
            real = "error " + type(e).__name__
        try:
            ref = "ok " + ref_gunzip(stream).hex()
        except GunzipError as e:
            ref = "error " + str(e)
        print("gzip_decode        :", real[:1500])
        print("RFC 1952 reference :", ref[:1500])
        if real != ref and not (real.startswith("error") and ref.startswith("error")):
            print("VIOLATION property=C05 replay=(this file)" if ref.startswith("ok") else "gzip_decode and the reference disagree on an invalid stream")
            return 1
        return 0
    if sc.get("op") in ("xerial", "xerial-enc"):
        real, model = xerial_one(ctx, sc)
        print("afkak.codec (stub snappy module):", real[:1500])
        print("model Afkak/Wire/Xerial.lean     :", model[:1500])
        if real != model:
            print("model and implementation disagree on this scenario (no monitor failure)")
            return 1
        return 0
    if sc.get("op") == "roundtrip":
        run_roundtrip(ctx, r, [dict(sc)])
    else:
        run_scenarios(ctx, r, [dict(sc)], ctx.rng, mutants=0.0)
    for d in r.disagreements:
        print("request :", d.get("request", "")[:1500])
        print("  impl  :", d.get("impl"))
        print("  model :", d.get("model"))
    for m in r.monitor_failures:
        print("monitor :", m["monitor_line"][:1500])
        print("  verdict:", m["verdict"])
    if r.monitor_failures:
        print("VIOLATION property=C05 replay=(this file)")
        return 1
    if r.disagreements:
        print("model and implementation disagree on this scenario (no monitor failure)")
        return 1
    print("scenario passes on the current tree: decoder returned exactly the encoded value")
    return 0
