"""C05 - responses and message sets decode to exactly what was encoded.

The driver encodes generated well-formed values with the INDEPENDENT grammar (`spec-enc`,
`Afkak/Wire/Spec.lean`); the bytes are cross-checked against the independent Python codec
(`harness/sim/refcodec.py`), handed to the REAL decoders of afkak, and
* correspondence: the model decoder (`dec` / `dec-set`) must return what the real decoder returned
  (value for value, exception class for exception class), also on truncated and corrupted bytes;
* monitor: `Afkak.Monitor.C05` (`mon-c05`): what the real decoder returned is exactly the encoded
  value - for message sets with the absolute offsets the protocol defines for format-0 and format-1
  compressed wrappers, to nesting depth 2.
gzip is an external: compression is done here with Python's gzip, the real `gzip_decode` answers are
recorded and handed to the model.
"""
import gzip
import json
import os

from harness.core import VERIF, Result
from harness.lib import wire_common as W
from harness.lib import wire_resps as R
from harness.lib.wire_common import vr

COMPONENTS = ["wire"]
TRUSTED = [
    "the Kafka protocol grammar as written in Afkak/Wire/Spec.lean (from the protocol guide) and, independently, in harness/sim/refcodec.py; their encodings are compared byte for byte on every run",
    "Afkak.Wire.Crc.crc32 (used to RUN grammar and model) is compared with zlib.crc32 on every run (C04 run); the theorems hold for any checksum function",
    "gzip is an external: Python's gzip compresses, afkak's gzip_decode answers are recorded and handed to the model; theorems assume only gunzip(gzip x) = x",
    "the rendering of Python results into the driver's value syntax (harness/lib/wire_resps.py) - it includes the Python type of every field (a tuple where an int belongs does not render)",
]
ASSUMPTIONS = [
    "well-formed = encodable by the grammar, topic / host names ASCII, member ids and protocol names UTF-8, dict keys (node id, topic, partition) not repeated, at most 1024 brokers, assignment version 0",
    "compressed wrappers: codec gzip only (snappy is not installed; lz4 is not implemented by afkak); the LogAppendTime override of inner timestamps is outside the property",
    "nesting depth of compressed wrappers <= 2 in generated sets (the model and the theorems have no bound)",
]
CORPUS_DIR = os.path.join(VERIF, "corpus", "wire")


def gz(data):
    return gzip.compress(data, mtime=0)


# --------------------------------------------------------------------------- trees <-> JSON / grammar values

def tree_to_json(t):
    return [[o, [m[0], m[1], m[2], None if m[3] is None else m[3].hex(), None if m[4] is None else m[4].hex()], None if inner is None else tree_to_json(inner)] for o, m, inner in t.entries]


def tree_from_json(j):
    return R.Tree([[o, [m[0], m[1], m[2], None if m[3] is None else bytes.fromhex(m[3]), None if m[4] is None else bytes.fromhex(m[4])], None if inner is None else tree_from_json(inner)] for o, m, inner in j])


def entries_value(t):
    """The (shallow) grammar value of a resolved tree: wrappers carry their gzip bytes as value."""
    return [[o, m] for o, m, _inner in t.entries]


def resolve(ctx, trees, gunzips):
    """Fill in the wrapper values bottom-up: inner set -> `spec-enc msgset` -> gzip -> wrapper value.
    `gunzips` collects (compressed, raw) pairs for the monitor's decompressor."""
    while True:
        todo = []

        def visit(t):
            for e in t.entries:
                inner = e[2]
                if inner is None or e[1][4] is not None:
                    continue
                visit(inner)
                if all(x[2] is None or x[1][4] is not None for x in inner.entries):
                    todo.append(e)

        for t in trees:
            visit(t)
        if not todo:
            return
        got = ctx.model("wire", ["spec-enc msgset " + vr(entries_value(e[2])) for e in todo])
        for e, g in zip(todo, got):
            if not g or not g[0].startswith("ok "):
                raise RuntimeError("spec-enc msgset failed: %r" % (g,))
            raw = W.parse_v(g[0][3:])
            comp = gz(raw)
            gunzips.append((comp, raw))
            e[1][4] = comp


# --------------------------------------------------------------------------- scenarios

def simple_scenarios(rng, n):
    kinds = sorted(R.SIMPLE)
    out = []
    for i in range(n):
        k = kinds[i % len(kinds)] if i < 4 * len(kinds) else rng.choice(kinds + ["metadata", "produce2", "offset_fetch"])
        out.append({"op": "resp", "kind": k, "value": vr(R.SIMPLE[k](rng))})
    return out


def set_scenarios(rng, n, big):
    return [{"op": "msgset", "tree": tree_to_json(R.gen_tree(rng, rng.choice([0, 0, 1, 1, 2]), big))} for _ in range(n)]


def fetch_scenarios(rng, n, big):
    out = []
    for _ in range(n):
        kind = rng.choice(["fetch0", "fetch2"])
        tps = R.topics_of(rng, lambda r: [R.i32(r), R.err(r), R.i64(r), tree_to_json(R.gen_tree(r, r.choice([0, 0, 1, 2]), big))], max_topics=3, max_parts=3)
        out.append({"op": "fetch", "kind": kind, "corr": R.i32(rng), "throttle": R.i32(rng), "topics": [[t.hex(), ps] for t, ps in tps]})
    return out


def mutate(rng, data):
    """A malformed variant of valid bytes (for the correspondence only)."""
    if not data:
        return data
    k = rng.randrange(5)
    b = bytearray(data)
    if k == 0:
        return bytes(b[: rng.randrange(0, len(b))])
    if k == 1:
        i = rng.randrange(len(b))
        b[i] ^= 1 << rng.randrange(8)
        return bytes(b)
    if k == 2:
        i = rng.randrange(len(b))
        b[i:i + 2] = rng.choice([b"\xff\xff", b"\x80\x00", b"\x7f\xff", b"\xff\xfe", b"\x00\x00"])
        return bytes(b)
    if k == 3:
        return bytes(b) + bytes(rng.getrandbits(8) for _ in range(rng.randrange(1, 6)))
    i = rng.randrange(len(b))
    return bytes(b[:i] + b[i + rng.randrange(1, 4):])


# --------------------------------------------------------------------------- running

class Plan(object):
    """Everything one scenario contributes to the second model round."""

    def __init__(self, sc):
        self.sc = sc
        self.state = []
        self.items = []  # (kind 'corr'|'mon', line, expect-or-tags)


def first_round(ctx, scs):
    """spec-enc of every scenario value. -> per scenario: (kind, value V string, bytes)"""
    gunz = {}
    trees = {}
    for i, sc in enumerate(scs):
        if sc["op"] == "msgset":
            trees[i] = [tree_from_json(sc["tree"])]
        elif sc["op"] == "fetch":
            trees[i] = [tree_from_json(p[3]) for _t, ps in sc["topics"] for p in ps]
        if i in trees:
            gunz[i] = []
            resolve(ctx, trees[i], gunz[i])
    lines, meta = [], []
    for i, sc in enumerate(scs):
        if sc["op"] == "resp":
            kind, val = sc["kind"], sc["value"]
        elif sc["op"] == "msgset":
            kind, val = "msgset", vr(entries_value(trees[i][0]))
        elif sc["op"] == "fetch":
            it = iter(trees[i])
            tps = [[bytes.fromhex(t), [[p[0], p[1], p[2], entries_value(next(it))] for p in ps]] for t, ps in sc["topics"]]
            kind = sc["kind"]
            val = vr([sc["corr"], tps] if kind == "fetch0" else [sc["corr"], sc["throttle"], tps])
        else:
            kind, val = None, None
        meta.append((kind, val))
        if kind is not None:
            lines.append("spec-enc %s %s" % (kind, val))
    got = iter(ctx.model("wire", lines)) if lines else iter([])
    out = []
    for i, (kind, val) in enumerate(meta):
        if kind is None:
            out.append((None, None, None, []))
            continue
        g = next(got)
        data = W.parse_v(g[0][3:]) if g and g[0].startswith("ok ") else None
        out.append((kind, val, data, gunz.get(i, [])))
    return out


def plan_one(sc, kind, val, data, known_gunzips, decs, rng, res):
    p = Plan(sc)
    if sc["op"] == "mutant":
        kind, data, val = sc["kind"], bytes.fromhex(sc["data"]), None
    if data is None:
        p.items.append(("corr", "spec-enc %s %s" % (kind, val), ["ok <bytes>"]))  # will show as a disagreement
        return p
    with W.Externals() as ext:
        if kind == "msgset":
            line = R.real_decode_set_line(data)
        else:
            api, extra, fn = decs[kind]
            line = R.real_decode_line(kind, data, fn)
    # externals: what the real gzip_decode returned, plus the pairs the harness compressed itself
    p.state = ext.ext_lines()
    seen = {i for i, _o in ext.gunzips}
    for comp, raw in known_gunzips:
        if comp not in seen:
            p.state.append("ext-gunzip %s %s" % (vr(comp), vr(raw)))
    if kind == "msgset":
        p.items.append(("corr", "dec-set %s" % vr(data), [line]))
    else:
        api, extra, _fn = decs[kind]
        p.items.append(("corr", "dec %s %s%s" % (api, vr(data), "".join(" " + vr(x) for x in extra)), [line]))
    if val is not None:
        p.items.append(("mon", "mon-c05 %s %s | %s" % (kind, val, line), ["c05-%s-not-identity" % kind]))
        ref = R.ref_encode(kind, W.parse_v(val)) if kind not in ("correlation_id",) else None
        sc["_ref_same"] = None if ref is None else (ref == data)
        if ref is not None and ref != data:
            p.items.append(("refdiff", "spec-enc %s" % kind, [data.hex()[:300], ref.hex()[:300]]))
        if ref is not None:
            # the other direction: the Lean grammar decodes refcodec's bytes to the value, refcodec parses the Lean bytes
            p.items.append(("cross", "spec-dec %s %s" % (kind, vr(ref)), ["ok " + val]))
            if R.ref_parses(kind, data) is False:
                p.items.append(("refdiff", "refcodec rejects the Lean grammar's encoding of %s" % kind, [data.hex()[:300], "CodecError"]))
            res.count("cross:both-directions")
    res.count("decoded:%s:%s" % (kind, line.split(" ")[0] if not line.startswith("gen") else "gen-" + line.rsplit(" ", 1)[1]))
    return p


def run_scenarios(ctx, res, scs, rng, mutants=0.5, chunk=300):
    decs = R.decoders()
    for c0 in range(0, len(scs), chunk):
        part = scs[c0:c0 + chunk]
        enc = first_round(ctx, part)
        plans = []
        for sc, (kind, val, data, gunz) in zip(part, enc):
            plans.append(plan_one(sc, kind, val, data, gunz, decs, rng, res))
            res.evaluations += 1
            res.count("op:" + sc["op"] + (":" + sc.get("kind", "") if sc["op"] in ("resp", "mutant") else ""))
            if sc["op"] != "mutant":
                res.nontrivial(sc)
            # malformed variants of the same bytes: correspondence only
            if data is not None and sc["op"] != "mutant" and rng.random() < mutants:
                for _ in range(2):
                    m = {"op": "mutant", "kind": kind, "data": mutate(rng, data).hex()}
                    pm = plan_one(m, None, None, None, gunz, decs, rng, res)
                    plans.append(pm)
                    res.evaluations += 1
                    res.count("op:mutant")
        lines, owner = [], []
        for p in plans:
            lines.append("ext-clear"); owner.append((p, "state", None))
            for l in p.state[1:]:
                lines.append(l); owner.append((p, "state", None))
            for kind, line, x in p.items:
                if kind == "refdiff":
                    res.disagreements.append({"component": "spec-vs-refcodec", "scenario": clean(p.sc), "impl": "spec " + x[0], "model": "refcodec " + x[1]})
                    continue
                lines.append(line); owner.append((p, kind, x))
        got = ctx.model("wire", lines)
        for (p, kind, x), line, g in zip(owner, lines, got):
            if kind == "state":
                if g != ["ok"]:
                    res.disagreements.append({"component": "wire", "request": line[:200], "impl": "state request", "model": g})
            elif kind == "cross":
                if g != x:
                    res.disagreements.append({"component": "spec-vs-refcodec", "scenario": clean(p.sc), "request": line[:3000], "impl": trunc(x), "model": trunc(g)})
            elif kind == "corr":
                res.traces_validated += 1
                if g != x:
                    res.disagreements.append({"component": "wire", "scenario": clean(p.sc), "request": line[:3000], "impl": trunc(x), "model": trunc(g)})
            else:
                v = g[0] if g else "none"
                res.count("monitor:" + v)
                if v not in ("ok", "out-of-range"):
                    res.monitor_failures.append({"what": "decoding the grammar's encoding of a value did not give the value back (%s)" % line.split(" ")[1],
                                                 "scenario": clean(p.sc), "monitor_line": line[:6000], "verdict": trunc(g, 3000), "tags": list(x)})
        for sc in part[:1]:
            res.sample(sample_of(sc))


def clean(sc):
    return None if sc is None else {k: v for k, v in sc.items() if not k.startswith("_")}


def sample_of(sc):
    s = json.dumps(clean(sc), default=str)
    return json.loads(s) if len(s) < 1500 else {"op": sc["op"], "kind": sc.get("kind"), "abridged": s[:1500]}


def trunc(x, n=900):
    s = json.dumps(x, default=str)
    return s if len(s) <= n else s[:n] + "...(%d chars)" % len(s)


def generate(rng, sizes):
    return simple_scenarios(rng, sizes["simple"]) + set_scenarios(rng, sizes["sets"], sizes["big"]) + fetch_scenarios(rng, sizes["fetch"], sizes["big"])


def corpus():
    out = []
    if os.path.isdir(CORPUS_DIR):
        for fn in sorted(os.listdir(CORPUS_DIR)):
            if fn.endswith(".json"):
                out += json.load(open(os.path.join(CORPUS_DIR, fn))).get("c05", [])
    return out


QUICK = {"simple": 3200, "sets": 1100, "fetch": 500, "big": 1 << 14}
THOROUGH_SHARD = {"simple": 4000, "sets": 1500, "fetch": 700, "big": 1 << 18}


def _shard(args):
    import random
    import sys

    from harness import core

    seed, idx, sizes = args
    sys.path.insert(0, core.REPO)

    class C(object):
        pass

    c = C()
    c.rng = random.Random((seed * 7919 + idx) * 1000003 + 5)
    c.model = core.run_model
    r = Result()
    run_scenarios(c, r, generate(c.rng, sizes), c.rng)
    return r


def merge(res, r):
    res.evaluations += r.evaluations
    res.distinct |= r.distinct
    res.traces_validated += r.traces_validated
    res.disagreements += r.disagreements
    res.monitor_failures += r.monitor_failures
    for k, v in r.hist.items():
        res.count(k, v)
    for s in r.samples:
        res.sample(s)


def run(ctx, res):
    res.rule = ("well-formed values of every response type (0..4 topics x 0..5 partitions, every error code incl. boundary int16, boundary int32/int64, "
                "null/empty/large byte fields, ASCII and UTF-8 names, sorted and permuted version tables) and message sets as trees of depth 0..2 "
                "(both magics, null/empty keys and values, timestamps, gzip wrappers with protocol and arbitrary inner offsets), encoded by the grammar; "
                "plus truncated / corrupted variants (correspondence only). non-trivial = every well-formed-value scenario (its bytes reached the real decoder "
                "and the monitor ran on the result). distinct = by content hash.")
    run_scenarios(ctx, res, corpus(), ctx.rng, mutants=0.0)
    if ctx.tier == "thorough":
        import multiprocessing as mp

        with mp.Pool(16) as pool:
            for r in pool.imap_unordered(_shard, [(ctx.seed, i, THOROUGH_SHARD) for i in range(32)]):
                merge(res, r)
    else:
        run_scenarios(ctx, res, generate(ctx.rng, QUICK), ctx.rng)
    for rec in res.disagreements[:3] + res.monitor_failures[:3]:
        sc = rec.get("scenario")
        if sc and sc.get("op") == "resp":
            rec["shrunk"] = shrink_resp(ctx, sc)
        elif sc and sc.get("op") == "msgset":
            rec["shrunk"] = shrink_set(ctx, sc)


def fails(ctx, sc):
    r = Result()
    try:
        run_scenarios(ctx, r, [dict(sc)], __import__("random").Random(0), mutants=0.0)
    except Exception:
        return False
    return bool(r.disagreements or r.monitor_failures)


def shrink_resp(ctx, sc, budget=60):
    val = W.parse_v(sc["value"])

    def paths(v, pre=()):
        if isinstance(v, list):
            for i, x in enumerate(v):
                yield pre + (i,)
                for p in paths(x, pre + (i,)):
                    yield p

    def without(v, path):
        if len(path) == 1:
            return v[:path[0]] + v[path[0] + 1:]
        return v[:path[0]] + [without(v[path[0]], path[1:])] + v[path[0] + 1:]

    changed = True
    while changed and budget > 0:
        changed = False
        for p in sorted(paths(val), key=lambda q: -len(q)):
            if len(p) < 2:
                continue
            cand = without(val, p)
            budget -= 1
            if budget <= 0:
                break
            d = dict(sc)
            d["value"] = vr(cand)
            if fails(ctx, d):
                val, changed = cand, True
                break
    d = dict(sc)
    d["value"] = vr(val)
    return clean(d)


def shrink_set(ctx, sc, budget=50):
    """ddmin over the entries of a message-set tree (top level and inside wrappers)."""
    import copy

    tree = copy.deepcopy(sc["tree"])

    def paths(t, pre=()):
        for i, e in enumerate(t):
            yield pre + (i,)
            if e[2] is not None:
                for p in paths(e[2], pre + (i,)):
                    yield p

    def without(t, path):
        t = copy.deepcopy(t)
        cur = t
        for i in path[:-1]:
            cur = cur[i][2]
        del cur[path[-1]]
        return t

    changed = True
    while changed and budget > 0:
        changed = False
        for p in sorted(paths(tree), key=lambda q: -len(q)):
            cand = without(tree, p)
            budget -= 1
            if budget <= 0:
                break
            if fails(ctx, {"op": "msgset", "tree": cand}):
                tree, changed = cand, True
                break
    return {"op": "msgset", "tree": tree}


def search(ctx, res, broken):
    r2 = Result()
    sizes = {"simple": ctx.scale(4000, 12000), "sets": ctx.scale(1500, 5000), "fetch": ctx.scale(600, 2000), "big": 1 << 14}
    kinds = set()
    for b in broken:
        w = b.get("what")
        if isinstance(w, dict) and isinstance(w.get("scenario"), dict) and w["scenario"].get("kind"):
            kinds.add(w["scenario"]["kind"])
    scs = generate(ctx.rng, sizes)
    extra = []
    for k in sorted(kinds):
        if k in R.SIMPLE:
            extra += [{"op": "resp", "kind": k, "value": vr(R.SIMPLE[k](ctx.rng))} for _ in range(ctx.scale(1500, 5000))]
    run_scenarios(ctx, r2, extra + scs, ctx.rng, mutants=0.0)
    for rec in r2.monitor_failures[:3]:
        sc = rec.get("scenario")
        if sc and sc.get("op") == "resp":
            rec["shrunk"] = shrink_resp(ctx, sc)
        elif sc and sc.get("op") == "msgset":
            rec["shrunk"] = shrink_set(ctx, sc)
    return r2.monitor_failures[:3]


def replay(ctx, data):
    f = data.get("failure") or {}
    sc = f.get("shrunk") or f.get("scenario")
    if not sc and data.get("no_longer_checks"):
        w = data["no_longer_checks"][0].get("what")
        sc = (w.get("shrunk") or w.get("scenario")) if isinstance(w, dict) else None
    if not sc:
        print("replay: no scenario in the file (a broken proof is replayed by running ./check C05)")
        return 0
    print("replay scenario:", json.dumps(sc)[:3000])
    r = Result()
    run_scenarios(ctx, r, [dict(sc)], ctx.rng, mutants=0.0)
    for d in r.disagreements:
        print("request :", d.get("request", "")[:1500])
        print("  impl  :", d.get("impl"))
        print("  model :", d.get("model"))
    for m in r.monitor_failures:
        print("monitor :", m["monitor_line"][:1500])
        print("  verdict:", m["verdict"])
    if r.monitor_failures:
        print("VIOLATION property=C05 replay=(this file)")
        return 1
    if r.disagreements:
        print("model and implementation disagree on this scenario (no monitor failure)")
        return 1
    print("scenario passes on the current tree: decoder returned exactly the encoded value")
    return 0
