"""C06 - each request completes exactly once, with the response bearing its own id.

Correspondence of the real `_KafkaBrokerClient` + `KafkaProtocol` (and `KafkaBootstrapProtocol`) with
Afkak/{Frame,BrokerClient,Bootstrap}.lean, and the Lean monitors `Afkak.Monitor.C06.*` evaluated on the
traces recorded from the real objects.
"""
import json
import os
import random
import struct

from harness import core
from harness.lib import brokerclient_check as C
from harness.lib import brokerclient_gen as G
from harness.lib.brokerclient_drive import BootRun, FrameRun, hx, instrumented

PID = "C06"
MON = "c06"
COMPONENTS = ["brokerclient"]
PROFILES = ["replies", "replies", "replies", "drops", "close"]
TRUSTED = [
    "harness/lib/brokerclient_drive.py drives the component through twisted.test.iosim.FakeTransport (class-level wrappers log what the component hands to its transport) and adds: no data is delivered to the protocol after loseConnection() (true of a TCP transport - stopReading - not of a TLS endpoint, which keeps delivering until shutdown; not modelled, not generated) and connectionLost at once when dataReceived raises. Bytes written AFTER loseConnection() are dropped by iosim's FakeTransport; a real TCP transport still buffers and flushes them before closing. The model records such a write as `writeLost` and counts it as a write (once per connection, never after firing); whether those bytes reach the broker is outside the model - a no-reply request written to a disconnecting transport is reported complete by afkak either way, and on a real TCP transport it IS transmitted; check_server_side compares only `write` (not `writeLost`) with what the simulated broker received",
    "Twisted's Deferred (cancel, callback on a cancelled Deferred), IntNStringReceiver.dataReceived and Clock are modelled, not verified; the framing model is compared with the real KafkaProtocol.dataReceived on every run",
    "the serial number of a request Deferred is the count of makeRequest calls that returned one (harness and model count alike)",
]
ASSUMPTIONS = [
    "user callbacks attached to request Deferreds are straight-line sequences of close / disconnect / cancel(id) / makeRequest(id) (any length, nested to any depth: modelled in Afkak/BrokerClientR.lean and generated); callbacks that branch on their result or attach callbacks to the Deferreds they create are not modelled",
    "the endpoint may ignore cancel() and connect from inside the canceller (test_close_connecting_succeed's pathological endpoint), may report the outcome of connect() synchronously, and may fail a cancelled attempt with CancelledError / ConnectingCancelledError (Twisted's TCP, hostname and TLS endpoints) / another failure: all modelled and generated; a synchronously failing endpoint combined with a zero retry delay (a busy loop) is not generated",
    "a transport that keeps delivering after loseConnection() (TLS, simulated transports) is driven at the protocol level only (KafkaProtocol / KafkaBootstrapProtocol fed directly; Lean monitor framesGenuine); for the broker client the transport stops reading at loseConnection() (TCP)",
    "correlation ids of responses are signed 32-bit; a caller using an id outside that range never gets a reply matched (modelled as such)",
    "the flat monitors (Monitor.C06.accepts / routesOk, Monitor.C10.accepts) judge the flat prefix of an implementation trace - up to the first callback / stubborn / synchronous-endpoint event; beyond it only the stream monitors r06 / r10 and the strict model/implementation diff apply (counts in extra.flat_monitor_coverage)",
]
CORPUS = os.path.join(core.VERIF, "corpus", "brokerclient")


# --------------------------------------------------------------------------------------------- framing


def lenpfx(b):
    return struct.pack(">I", len(b)) + b


def gen_stream(rng):
    """-> (bytes, frames expected to be delivered, fault kind)"""
    frames = []
    for _ in range(rng.choice([0, 1, 1, 2, 3, 5, 8])):
        n = rng.choice([0, 1, 3, 4, 5, 8, 13, 40]) if rng.random() < 0.9 else rng.randrange(200, 1500)
        frames.append(bytes(rng.randrange(256) for _ in range(n)))
    data = b"".join(lenpfx(f) for f in frames)
    m = rng.random()
    if m < 0.25:
        k = rng.randrange(0, len(frames) + 1)
        head = b"".join(lenpfx(f) for f in frames[:k])
        pfx = struct.pack(">I", rng.choice([0x80000000, 0xFFFFFFFF, 0x80000001, rng.randrange(0x80000000, 0x100000000)]))
        return head + pfx + b"".join(lenpfx(f) for f in frames[k:]), frames[:k], "oversize"
    if m < 0.35:
        k = rng.randrange(0, len(frames) + 1)
        head = b"".join(lenpfx(f) for f in frames[:k])
        pfx = struct.pack(">I", rng.choice([0x7FFFFFFF, 0x7FFFFFFE, 0x01000000, 5000]))
        return head + pfx + bytes(rng.randrange(256) for _ in range(rng.randrange(0, 30))), frames[:k], "huge-legal"
    return data, frames, "clean"


def cut(rng, data):
    n = len(data)
    if n == 0:
        return [b""]
    m = rng.random()
    if m < 0.15:
        return [data]
    if m < 0.3:
        return [data[i:i + 1] for i in range(n)]
    k = rng.randrange(1, min(n, 12) + 1)
    pts = sorted(set(rng.randrange(0, n + 1) for _ in range(k)))
    out, last = [], 0
    for p in pts + [n]:
        out.append(data[last:p])  # empty chunks included on purpose
        last = p
    return out


def all_cuts(data):
    n = len(data)
    for mask in range(1 << max(n - 1, 0)):
        out, last = [], 0
        for i in range(1, n):
            if mask >> (i - 1) & 1:
                out.append(data[last:i])
                last = i
        out.append(data[last:])
        yield out


def frame_cases(ctx, res, cases):
    """cases: [(chunks, expected frames or None, kind)]"""
    lines, exp, meta = [], [], []
    for chunks, frames, kind in cases:
        for boot in (False, True):
            fr = FrameRun(bootstrap=boot)
            lines.append("fr-new")
            exp.append(["ok"])
            meta.append(None)
            delivered = []
            for i, c in enumerate(chunks):
                o = fr.feed(c)
                lines.append("fr-feed " + hx(c))
                exp.append(o)
                meta.append((chunks, i, kind, boot))
                delivered += [x for x in o if x.startswith("frame ")]
                if "exceeded" in o or any(x.startswith("raise ") for x in o):
                    break  # a live transport stops reading; (what the loop does afterwards: see `after_exceeded`)
            res.evaluations += 1
            res.count("frames kind=" + kind)
            res.count("frames chunks", len(chunks))
            if frames is not None:
                want = ["frame " + hx(f) for f in frames]
                if delivered != want:
                    res.monitor_failures.append({"what": "packets delivered by the real protocol differ from the frames sent (reassembly)", "scenario": {"kind": kind, "bootstrap": boot, "chunks": [c.hex() for c in chunks], "delivered": delivered, "sent": want}, "tags": ["reassembly"]})
                if kind == "oversize" and "exceeded" not in fr.out:
                    res.monitor_failures.append({"what": "a length prefix above 2^31-1 did not terminate the connection", "scenario": {"kind": kind, "bootstrap": boot, "chunks": [c.hex() for c in chunks]}, "tags": ["oversize-not-dropped"]})
            if len(chunks) > 1 and frames:
                res.nontrivial(["frames", [c.hex() for c in chunks]])
    got = ctx.model("brokerclient", lines)
    for l, e, g, m in zip(lines, exp, got, meta):
        if e != g:
            res.disagreements.append({"component": "brokerclient/frame", "request": l, "impl": e, "model": g, "scenario": {"chunks": [c.hex() for c in m[0]], "at_chunk": m[1], "kind": m[2], "bootstrap": m[3]} if m else None})
            break
    res.traces_validated += len(cases)


def genuine_line(chunks, outs):
    """`mon-genuine` request: per chunk, the packets the real protocol handed to stringReceived during it"""
    ws = []
    for c, o in zip(chunks, outs):
        pk = [x.split()[1] for x in o if x.startswith("frame ")]
        ws += [hx(c), ",".join(pk) if pk else "."]
    return "mon-genuine " + " ".join(ws)


def after_exceeded_cases(ctx, res, n):
    """A transport that KEEPS DELIVERING after loseConnection() (TLS, a simulated transport): the loop as written
    keeps the whole buffer after lengthLimitExceeded, re-delivers the genuine frames before the over-long prefix and
    stops at it again; it never resynchronises inside the stream.  Both protocols; compared with the model chunk by
    chunk, and the Lean monitor `framesGenuine` (every packet delivered is a frame of the byte stream, proved of the
    model: C06_only_genuine_frames) is evaluated on what the real protocol delivered."""
    rng = ctx.rng
    lines, exp, meta, mons = [], [], [], []
    for i in range(n):
        data, _, _ = gen_stream(rng)
        pfx = struct.pack(">I", rng.choice([0x90000000, 0x80000000, 0xFFFFFFFF, rng.randrange(0x80000000, 0x100000000)]))
        chunks = cut(rng, data + pfx + bytes(rng.randrange(256) for _ in range(rng.randrange(0, 9))))
        # LATER reads: well-formed frames (what a loop restarting after the prefix would deliver), garbage, another prefix
        for _ in range(rng.randrange(1, 4)):
            m = rng.random()
            if m < 0.6:
                chunks += cut(rng, b"".join(lenpfx(bytes(rng.randrange(256) for _ in range(rng.choice([0, 4, 5, 12])))) for _ in range(rng.randrange(1, 3))))
            elif m < 0.85:
                chunks.append(bytes(rng.randrange(256) for _ in range(rng.randrange(0, 9))))
            else:
                chunks.append(struct.pack(">I", 0x80000000 + rng.randrange(0, 99)))
        boot = i % 3 == 2
        fr = FrameRun(bootstrap=boot)
        lines.append("fr-new")
        exp.append(["ok"])
        meta.append(None)
        outs = []
        for j, c in enumerate(chunks):
            lines.append("fr-feed " + hx(c))
            o = fr.feed(c)
            outs.append(o)
            exp.append(o)
            meta.append((chunks, j, boot))
        lines.append(genuine_line(chunks, outs))
        exp.append(None)
        meta.append(None)
        mons.append((len(lines) - 1, chunks, outs, boot))
        res.evaluations += 1
        res.count("frames kind=after-exceeded" + ("(bootstrap)" if boot else ""))
        if sum(1 for o in outs if "exceeded" in o) >= 1 and any(x.startswith("frame ") for o in outs[[("exceeded" in o) for o in outs].index(True) + 1:] for x in o):
            res.count("frames delivered again in a read after lengthLimitExceeded")
    got = ctx.model("brokerclient", lines)
    for l, e, g, m in zip(lines, exp, got, meta):
        if e is not None and e != g:
            res.disagreements.append({"component": "brokerclient/frame(after exceeded)", "request": l, "impl": e, "model": g,
                                      "scenario": {"chunks": [c.hex() for c in m[0]], "at_chunk": m[1], "bootstrap": m[2]} if m else None})
            break
    for idx, chunks, outs, boot in mons:
        if got[idx] != ["ok"] and not any("frame-not-of-the-stream" in f["tags"] for f in res.monitor_failures):
            res.monitor_failures.append({
                "what": "a packet that is no frame of the byte stream was handed to stringReceived (bytes read from a misaligned position after an over-long prefix): a request can complete with bytes that never were a response frame",
                "scenario": {"protocol": "KafkaBootstrapProtocol" if boot else "KafkaProtocol", "transport": "keeps delivering after loseConnection()", "chunks": [c.hex() for c in chunks], "delivered_per_chunk": outs, "verdict": got[idx]},
                "tags": ["frame-not-of-the-stream"]})


# ------------------------------------------------------------------------------------------- bootstrap


def boot_scenario(rng, feats=None):
    """Online generation against the real KafkaBootstrapProtocol, state-aware: events the state does not enable
    (bytes/cancel/loss after the loss, cancel of a fired Deferred) are generated rarely, on purpose.
    -> (events, obs); `feats` (a dict) counts the situations reached."""
    r = BootRun()
    events, obs = [], []
    cids = [bytes([0, 0, 0, i]) for i in range(1, 4)] + [b"corr"]
    sent = []  # (serial, payload) written
    live, tomb = {}, {}  # serial -> cid bytes: pending / cancelled and not yet answered
    sbuf = b""
    single = rng.random() < 0.3
    feats = feats if feats is not None else {}

    def note(k):
        feats[k] = feats.get(k, 0) + 1

    def emit(line):
        events.append(line)
        ol = r.ex(line)
        obs.append(ol)
        for o in ol:
            w = o.split()
            if w[0] == "fire":
                live.pop(int(w[1]), None)
        return ol

    def queue_frame(body, what):
        nonlocal sbuf
        sbuf += lenpfx(body)
        cid = body[0:4]
        if what == "reply" and cid in tomb.values() and live:
            note("boot reply to a cancelled id queued while another request is live")
        if what == "unknown" and live:
            note("boot unknown id queued while a request is live")

    steps = rng.choice([3, 6, 10, 16])
    after_lost = 0
    for _ in range(steps):
        if r.lost or r.t.disconnecting:
            after_lost += 1
            if after_lost > 3:
                break
        readable = not r.lost and not r.t.disconnecting
        c = []
        if not (single and r.serial >= 1):
            c.append(("request", 5 if not r.lost else 2))
        if sent and readable:
            c.append(("reply", 5))
            if tomb:
                c.append(("tombreply", 6 if live else 2))
        if readable:
            c += [("unknown", 0.6), ("oversize", 0.3)]
            if sbuf:
                c.append(("deliver", 7))
        if live:
            c.append(("cancel", 2.5))
        c.append(("lost", 0.8 if not r.lost else 0.1))
        # rarely: something the state does not enable
        c += [("cancel-any", 0.15), ("rawbytes", 0.15)]
        x = rng.random() * sum(wt for _, wt in c)
        k = c[-1][0]
        for name, wt in c:
            x -= wt
            if x <= 0:
                k = name
                break
        if k == "request":
            free = [i for i in cids if i not in live.values() and i not in tomb.values()]
            cid = rng.choice(free) if free and rng.random() < 0.85 else rng.choice(cids)
            pl = b"\x00\x03\x00\x00" + cid + bytes(rng.randrange(256) for _ in range(rng.randrange(0, 5)))
            if rng.random() < 0.04:
                pl = pl[: rng.randrange(0, 8)]
            k0 = r.serial
            ol = emit("bs-request " + hx(pl))
            if r.serial > k0:
                sent.append((k0, pl))
                if not any(o.startswith("fire") for o in ol):
                    live[k0] = pl[4:8]
        elif k == "reply":
            cand = [x for x in sent if x[0] in live]
            k0, pl = rng.choice(cand) if cand and rng.random() < 0.75 else rng.choice(sent[-4:])
            queue_frame(pl[4:8] + bytes(rng.randrange(256) for _ in range(rng.randrange(0, 6))), "reply")
            tomb.pop(k0, None)
        elif k == "tombreply":
            k0 = rng.choice(sorted(tomb))
            queue_frame(tomb[k0] + b"late", "reply")
            tomb.pop(k0)
        elif k == "unknown":
            queue_frame(rng.choice([b"\x00\x00\x00\x09zz", b"", b"\x00\x01", rng.choice(cids) + b"u"]), "unknown")
        elif k == "oversize":
            sbuf += struct.pack(">I", 0x80000000 + rng.randrange(0, 1000))
        elif k == "deliver":
            m = rng.random()
            n = len(sbuf)
            cutat = n if m < 0.4 else (rng.choice([1, 2, 3, 4, 5, 7]) if m < 0.6 else rng.randrange(1, n + 1))
            cutat = min(cutat, n)
            data, sbuf = sbuf[:cutat], sbuf[cutat:]
            if cutat < n:
                note("boot stream cut inside the queued bytes")
            emit("bs-bytes " + hx(data))
        elif k == "cancel":
            k0 = rng.choice(sorted(live))
            tomb[k0] = live[k0]
            emit("bs-cancel %d" % k0)
        elif k == "cancel-any":
            emit("bs-cancel %d" % rng.randrange(0, r.serial + 1))
        elif k == "rawbytes":
            emit("bs-bytes " + hx(bytes(rng.randrange(256) for _ in range(rng.randrange(1, 9)))))
        elif k == "lost":
            if live:
                note("boot connection lost with requests pending")
            emit("bs-lost " + rng.choice(["done", "done", "lost", "other"]))
    if sbuf and not r.lost and not r.t.disconnecting and rng.random() < 0.7:
        emit("bs-bytes " + hx(sbuf))
    if not r.lost and rng.random() < 0.6:
        if live:
            note("boot connection lost with requests pending")
        emit("bs-lost " + rng.choice(["done", "done", "lost", "other"]))
    return events, obs


def boot_lines(events, obs):
    lines = ["bs-new"]
    idx = []
    for e in events:
        idx.append(len(lines))
        lines.append(e)
    mm = len(lines)
    lines += ["mon-model-boot 0", "bt-new"]
    for e, ol in zip(events, obs):
        lines.append("bt-ev " + e)
        lines += ["bt-ob " + o for o in ol]
    mi = len(lines)
    # mon-boot-bytes: every ok payload is a packet completed by that dataReceived in the parse of ALL the bytes received
    # (Afkak/BrokerClientBytes.lean, Boot; proved of the model: C06_bootstrap_bytes)
    lines += ["mon-boot 0", "mon-boot 1", "mon-boot-bytes", "mon-model-boot-bytes"]
    return lines, idx, mm, mi


def boot_check(ctx, res, scs):
    lines, meta = [], []
    for events, obs in scs:
        ls, idx, mm, mi = boot_lines(events, obs)
        meta.append((len(lines), idx, mm, mi))
        lines += ls
    got = ctx.model("brokerclient", lines)
    for (events, obs), (base, idx, mm, mi) in zip(scs, meta):
        res.evaluations += 1
        res.traces_validated += 1
        nreq = sum(1 for e in events if e.startswith("bs-request"))
        res.count("boot requests=%d" % min(nreq, 3))
        for e, ol in zip(events, obs):
            # (branch_label is written for broker-client observations: `fire <serial> <id> <kind>`; here it is `fire <serial> <kind>`)
            res.count("boot " + e.split()[0] + ":" + ("+".join(sorted(set(("fire_" + " ".join(o.split()[2:4 if o.split()[2] == "err" else 3])) if o.startswith("fire ") else " ".join(o.split()[:1 if not o.startswith("raise") else 2]) for o in ol))) or "-"))
        if nreq >= 1 and any(o.startswith("fire") for ol in obs for o in ol):
            res.nontrivial(["boot", events])
        dis = None
        for j, e in enumerate(events):
            if got[base + idx[j]] != obs[j]:
                dis = {"component": "brokerclient/bootstrap", "scenario": events[: j + 1], "impl": obs[j], "model": got[base + idx[j]]}
                break
        if dis:
            res.disagreements.append(dis)
        elif got[base + mm] != ["ok"] or got[base + mi + 3] != ["ok"]:
            res.disagreements.append({"component": "monitor(bootstrap) rejects the MODEL's own trace", "scenario": events, "impl": None, "model": [got[base + mm], got[base + mi + 3]]})
        if got[base + mi] == ["ok"] and got[base + mi + 2] != ["ok"] and not any("bootstrap-rawbytes" in f["tags"] for f in res.monitor_failures):
            res.monitor_failures.append({"what": "bootstrap connection (raw bytes): a Deferred fired with bytes that are no packet completed by this dataReceived in the parse of all the bytes the connection received", "scenario": {"events": events, "obs": obs, "verdict": got[base + mi + 2]}, "tags": ["bootstrap-rawbytes"]})
        if got[base + mi] != ["ok"]:
            w = got[base + mi][0].split() if got[base + mi] else []
            at = int(w[1]) if len(w) == 2 and w[0] == "fail" and w[1].isdigit() else -1
            what, tag = "bootstrap connection: a request Deferred fired twice / with a frame that is not its own / not at all", "bootstrap-exactly-once"
            if 0 <= at < len(events) and events[at].startswith("bs-bytes") and "lose" in obs[at]:
                # the monitor allows `lose` only for an over-long prefix or a packet nobody is waiting for; the late
                # reply to a request CANCELLED on this connection is awaited
                what = "bootstrap connection: the protocol dropped the connection (failing the other pending requests) over a packet that was no over-long prefix and whose id was not unknown - e.g. the late reply to a cancelled request (step %d: %s)" % (at, events[at])
                tag = "bootstrap-drop-on-awaited-id"
            res.monitor_failures.append({"what": what, "scenario": {"events": events[: at + 1] if at >= 0 else events, "obs": obs[: at + 1] if at >= 0 else obs, "verdict": got[base + mi]}, "tags": [tag]})
        elif got[base + mi + 1] != ["ok"]:
            # the strict monitor differs from the plain one in exactly one demand, so its failure IS this history:
            # the protocol called loseConnection() over a packet nobody asked for while requests were pending
            res.count("boot strict-monitor rejects (known finding)")
            if not any("bootstrap-unknown-id-drops-conn" in f["tags"] for f in res.monitor_failures):
                res.monitor_failures.append({"what": "bootstrap connection: a frame with an unknown id dropped the connection while requests were pending", "scenario": {"events": events, "obs": obs, "verdict": got[base + mi + 1]}, "tags": ["bootstrap-unknown-id-drops-conn"]})


# ------------------------------------------------------------------------------- broker client (shared)


def merge(ctx, res, summaries, pid, mon):
    for s in summaries:
        res.evaluations += s["n"]
        res.traces_validated += s["n"]
        for k, v in s["hist"].items():
            res.count(k, v)
        res.count("whitebox_state_compared", s["whitebox"])
        for fs, header, events in s["distinct"]:
            if nontrivial(mon, fs):
                res.nontrivial([header, events])
        for x in s["samples"]:
            res.sample(x, limit=3)
        for d in s["dis"]:
            res.disagreements.append({"component": "brokerclient", "scenario": {"header": d["header"], "events": d["events"]}, "impl": d["result"].get("impl"), "model": d["result"].get("model"), "detail": d["result"]})
        for d in s["monmodel"]:
            res.disagreements.append({"component": "monitor rejects the MODEL's own trace", "scenario": {"header": d["header"], "events": d["events"]}, "impl": None, "model": d["result"]})
        for d in s["mon"]:
            if d["mon"] == mon:
                add_monitor_failure(res, d, pid)


def add_monitor_failure(res, d, pid):
    """Shrink and describe the first few; only count the rest (a broken implementation fails thousands of scenarios)."""
    n = sum(1 for f in res.monitor_failures if f.get("shrunk"))
    if n < 4:
        f = monitor_failure(d, pid)
        f["shrunk"] = True
        res.monitor_failures.append(f)
    else:
        res.count("monitor failures not shrunk")
        if n < 8:
            res.monitor_failures.append({"what": "%s monitor rejects the implementation's trace" % pid, "scenario": {"header": list(d["header"]), "events": d["events"], "impl_observations": d["obs"], "verdict": d["verdict"]}, "tags": ["%s-unshrunk" % d["mon"]], "shrunk": True})


def nontrivial(mon, fs):
    fs = set(fs)
    hook = any(x.startswith("hook_in_") for x in fs)
    if mon == "c06":
        return ("fire_ok" in fs or hook) and bool(fs & {"fire_cancelled", "unexpected", "bytes_no_fire", "bytes_multi_fire", "lose", "fire_clientError", "raise_underflow"})
    return bool(fs & {"resend", "backoff_fired", "close_with_pending", "lost_idle", "lost_down"}) or hook


def monitor_failure(d, pid):
    """Shrink the failing trace (on the implementation alone) and describe it."""
    mon = d["mon"]
    header, events = d["header"], d["events"]

    def still(evs):
        r, _, _ = C.check_literal(header, evs)
        return r[mon] is not None

    try:
        small = C.ddmin(events, still) if still(events) else events
        r, obs, _ = C.check_literal(header, small)
    except Exception:
        small, obs, r = events, d["obs"], {mon: d["verdict"]}
    v = r[mon] or d["verdict"]
    routing = bool(v) and v[0].startswith("routing ")
    reentrant = bool(v) and v[0].startswith("reentrant ")
    rawbytes = bool(v) and v[0].startswith("bytes ")
    w = v[0].split() if v else []
    at = int(w[-1]) if w and w[-1].isdigit() and "fail" in w else -1
    op = small[at].split()[0] if 0 <= at < len(small) else "?"
    what = "%s monitor rejects the implementation's trace at step %d (%s)" % (pid, at, small[at] if 0 <= at < len(small) else "?")
    if routing:
        what = "C06: a reply was delivered to a request other than the one it answers, at step %d (%s)" % (at, small[at] if 0 <= at < len(small) else "?")
    if reentrant:
        what = "%s (with re-entrant callbacks): the observation stream violates the property at step %d (%s)" % (pid, at, small[at] if 0 <= at < len(small) else "?")
    if rawbytes:
        what = "C06 (raw bytes, per connection): a Deferred fired with bytes that are no frame completed by this dataReceived in the parse of the bytes THIS connection received, or fired outside a dataReceived, or a stream reaching an over-long prefix was not dropped, at step %d (%s)" % (at, small[at] if 0 <= at < len(small) else "?")
    return {
        "what": what,
        "scenario": {"header": list(header), "events": small, "impl_observations": obs, "verdict": v},
        "tags": ["%s-%s-%s" % (mon, "misrouted" if routing else ("reentrant" if reentrant else ("rawbytes" if rawbytes else "step")), op)],
    }


def corpus_scenarios():
    out = []
    if os.path.isdir(CORPUS):
        for fn in sorted(os.listdir(CORPUS)):
            if fn.endswith(".json"):
                d = json.load(open(os.path.join(CORPUS, fn)))
                if d.get("kind", "brokerclient") == "brokerclient":
                    out.append((fn, (d["header"][0], d["header"][1], list(d["header"][2])), d["events"]))
    return out


def run_corpus(ctx, res, pid, mon):
    for fn, header, events in corpus_scenarios():
        r, obs, probs = C.check_literal(header, events)
        res.evaluations += 1
        res.count("corpus")
        if r["dis"] is not None or probs:
            res.disagreements.append({"component": "brokerclient (corpus %s)" % fn, "scenario": {"header": header, "events": events}, "impl": (r["dis"] or {}).get("impl"), "model": (r["dis"] or {}).get("model"), "detail": r["dis"] or probs})
        if r["monmodel"] is not None:
            res.disagreements.append({"component": "monitor rejects the MODEL's own trace (corpus %s)" % fn, "scenario": {"header": header, "events": events}, "impl": None, "model": r["monmodel"]})
        if r[mon] is not None:
            res.monitor_failures.append(monitor_failure({"mon": mon, "header": header, "events": events, "obs": obs, "verdict": r[mon]}, pid))


def shrink_disagreements(res):
    """ddmin the first few broker-client disagreements (both sides re-run per candidate)."""
    done = 0
    for d in res.disagreements:
        sc = d.get("scenario")
        if d.get("component") != "brokerclient" or not isinstance(sc, dict) or done >= 3:
            continue
        if (d.get("detail") or {}).get("kind") == "harness":
            continue
        done += 1
        header = tuple(sc["header"][:2]) + (list(sc["header"][2]),)
        try:
            small = C.shrink(header, sc["events"], lambda r: r["dis"] is not None)
            r, obs, _ = C.check_literal(header, small)
            if r["dis"] is not None:
                d["scenario"] = {"header": list(header), "events": small}
                d["impl"], d["model"], d["detail"] = r["dis"]["impl"], r["dis"]["model"], r["dis"]
                d["impl_observations"] = obs
        except Exception as ex:
            d["shrink_error"] = repr(ex)


def bc_run(ctx, res, pid, mon, profiles):
    run_corpus(ctx, res, pid, mon)
    workers = ctx.scale(min(4, os.cpu_count() or 1), min(16, os.cpu_count() or 1))
    nshards = ctx.scale(8, 64)
    per = ctx.scale(4000, 30000)
    base = ctx.rng.randrange(1 << 30)
    shards = [(base + i, per, profiles, None, None, (mon,)) for i in range(nshards)]
    merge(ctx, res, C.run_shards(ctx, shards, workers), pid, mon)
    ex = C.exhaustive(ctx.scale(6, 8), C.ALPHABET, workers, ctx.scale(30, 300))
    ex2 = C.exhaustive(ctx.scale(8, 12), C.SMALL_ALPHABET, workers, ctx.scale(15, 200))
    for e in (ex, ex2):
        res.evaluations += e["transitions"]
        res.traces_validated += e["transitions"]
        for k, v in e["hist"].items():
            res.count(k, v)
        for d in e["dis"]:
            res.disagreements.append({"component": "brokerclient", "scenario": {"header": list(d["header"]), "events": d["events"]}, "impl": d["result"].get("impl"), "model": d["result"].get("model"), "detail": d["result"]})
        for d in e["monmodel"]:
            res.disagreements.append({"component": "monitor rejects the MODEL's own trace", "scenario": {"header": list(d["header"]), "events": d["events"]}, "impl": None, "model": d["result"]})
        for d in e["mon"]:
            if d["mon"] == mon:
                add_monitor_failure(res, d, pid)
    res.extra["bounded_exhaustive"] = [{"alphabet": len(a), "depth": e["depth_done"], "transitions": e["transitions"], "states": e["states"]} for a, e in ((C.ALPHABET, ex), (C.SMALL_ALPHABET, ex2))]
    print_histogram(res, pid)
    # keep the report small: the first few of each
    del res.monitor_failures[8:]
    del res.disagreements[8:]
    shrink_disagreements(res)


def print_histogram(res, pid):
    """Generator quality, measured: operations, scenario features, model/implementation branches hit."""
    h = res.hist
    ops = sorted((k[3:], v) for k, v in h.items() if k.startswith("op "))
    feats = sorted((k[3:], v) for k, v in h.items() if k.startswith("sc "))
    brs = sorted((k[3:], v) for k, v in h.items() if k.startswith("br "))
    exs = [k for k in h if k.startswith("ex ")]
    print("%s operations: %s" % (pid, " ".join("%s=%d" % kv for kv in ops)))
    cov = dict((k[4:], v) for k, v in h.items() if k.startswith("cov "))
    if cov:
        res.extra["flat_monitor_coverage"] = cov
        print("%s flat-monitor coverage of implementation traces (stream monitors r06/r10 judge every step): %s" % (
            pid, " ; ".join("%s=%d" % kv for kv in sorted(cov.items()))))
    print("%s scenarios exercising: %s" % (pid, " ".join("%s=%d" % kv for kv in feats)))
    print("%s distinct (event, observation-kinds) branches: %d random + %d exhaustive; rarest: %s" % (
        pid, len(brs), len(exs), " ".join("%s=%d" % kv for kv in sorted(brs, key=lambda kv: kv[1])[:6])))


def run(ctx, res):
    res.rule = (
        "broker client: scenarios generated ONLINE against the real _KafkaBrokerClient (the generator plays broker and network): 1-6 ids, "
        "replies in any order, duplicate/unsolicited/short/oversize frames, byte stream cut anywhere, cancel/disconnect/close/updateMetadata/"
        "write-failure interleaved, drops at any point, connect failures and back-off; plus bounded-exhaustive enumeration of the reachable "
        "states with a 29-symbol alphabet over two ids (header-only response included) (every transition from every state reachable within the depth). Compared per event: "
        "observations (strict order) and the internal state (white box); every recorded trace is also cut into per-connection byte logs by the Lean fold of Afkak/BrokerClientBytes.lean (whole-stream parse per connection, mon-bytes) and those logs are compared with the driver's own record of the bytes each connection's transport was handed. non-trivial (C06) = at least one reply delivered AND one of "
        "{cancel fired, unknown id, partial frame, several replies in one chunk, connection dropped, close with pending, short frame}. "
        "framing: random frame lists cut at random positions (thorough: ALL cut sets of short streams) fed to the real KafkaProtocol / "
        "KafkaBootstrapProtocol, and streams continued after an over-long prefix by a transport that keeps delivering (every packet delivered must be a "
        "frame of the byte stream: monitor framesGenuine); bootstrap: state-aware request/reply/cancel/loss histories (replies to live, answered and CANCELLED ids "
        "with other requests pending, unknown ids, over-long prefixes, stream cut anywhere, loss reasons ConnectionDone/ConnectionLost/other, requests after the loss). "
        "distinct = by content hash."
    )
    rng = ctx.rng
    # framing
    cases = []
    for _ in range(ctx.scale(1500, 20000)):
        data, frames, kind = gen_stream(rng)
        cases.append((cut(rng, data), frames, kind))
    if ctx.tier == "thorough":
        for _ in range(40):
            frames = [bytes(rng.randrange(256) for _ in range(rng.choice([0, 1, 2, 4]))) for _ in range(rng.choice([1, 2]))]
            data = b"".join(lenpfx(f) for f in frames)[:13]
            exp = frames if len(b"".join(lenpfx(f) for f in frames)) <= 13 else None
            for chunks in all_cuts(data):
                cases.append((chunks, exp, "all-cuts"))
    else:
        data = lenpfx(b"\x00\x00\x00\x01") + lenpfx(b"")
        for chunks in all_cuts(data):
            cases.append((chunks, [b"\x00\x00\x00\x01", b""], "all-cuts"))
    frame_cases(ctx, res, cases)
    after_exceeded_cases(ctx, res, ctx.scale(200, 3000))
    # bootstrap
    bfeats = {}
    with instrumented():
        scs = [boot_scenario(rng, bfeats) for _ in range(ctx.scale(1500, 30000))]
    for k, v in bfeats.items():
        res.count(k, v)
    boot_check(ctx, res, scs)
    # broker client
    bc_run(ctx, res, PID, MON, PROFILES)


def search(ctx, res, broken):
    """A proof or the correspondence broke: look for a trace of the IMPLEMENTATION that the C06 monitor rejects."""
    return bc_search(ctx, res, broken, PID, MON, PROFILES)


def bc_search(ctx, res, broken, pid, mon, profiles):
    found = []
    r2 = core.Result()
    seeds = []
    for b in broken:
        w = b.get("what")
        if b.get("kind") == "correspondence" and isinstance(w, dict) and isinstance(w.get("scenario"), dict) and "events" in w["scenario"]:
            sc = w["scenario"]
            seeds.append(((sc["header"][0], sc["header"][1], list(sc["header"][2])), list(sc["events"])))
    base = ctx.rng.randrange(1 << 30)
    workers = min(8, os.cpu_count() or 1)
    shards = []
    for i, sd in enumerate(seeds[:4]):
        for j in range(4):
            shards.append((base + 100 * i + j, ctx.scale(1500, 8000), profiles, None, sd, (mon,)))
    for j in range(4):
        shards.append((base + 7777 + j, ctx.scale(3000, 20000), profiles, None, None, (mon,)))
    for s in C.run_shards(ctx, shards, workers):
        for d in s["mon"]:
            if d["mon"] == mon and len(found) < 3:
                found.append(monitor_failure(d, pid))
    if not found:
        ex = C.exhaustive(ctx.scale(7, 9), C.ALPHABET, workers, ctx.scale(60, 400))
        for d in ex["mon"]:
            if d["mon"] == mon and len(found) < 3:
                found.append(monitor_failure(d, pid))
    if not found and pid == "C06":
        # framing / bootstrap side
        rng = random.Random(base)
        cases = []
        for _ in range(4000):
            data, frames, kind = gen_stream(rng)
            cases.append((cut(rng, data), frames, kind))
        frame_cases(ctx, r2, cases)
        with instrumented():
            scs = [boot_scenario(rng) for _ in range(4000)]
        boot_check(ctx, r2, scs)
        found += r2.monitor_failures[:3]
    return found


def replay(ctx, data):
    return bc_replay(ctx, data, PID, MON)


def bc_replay(ctx, data, pid, mon):
    f = data.get("failure") or {}
    sc = f.get("scenario")
    if sc is None and data.get("no_longer_checks"):
        w = data["no_longer_checks"][0].get("what")
        sc = w.get("scenario") if isinstance(w, dict) else None
        print("replay of a broken correspondence/proof:", json.dumps(data["no_longer_checks"][0], default=str)[:2000])
    if isinstance(sc, dict) and "chunks" in sc and "delivered_per_chunk" in sc:
        # framing level: a protocol fed chunk by chunk by a transport that keeps delivering
        chunks = [bytes.fromhex(c) for c in sc["chunks"]]
        fr = FrameRun(bootstrap=sc.get("protocol") == "KafkaBootstrapProtocol")
        outs = [fr.feed(c) for c in chunks]
        lines = ["fr-new"] + ["fr-feed " + hx(c) for c in chunks] + [genuine_line(chunks, outs)]
        got = ctx.model("brokerclient", lines)
        for i, (c, o, g) in enumerate(zip(chunks, outs, got[1:])):
            print("%3d feed %-40s impl=%s%s" % (i, hx(c)[:40], o, "" if o == g else "   MODEL=%s" % g))
        print("monitor framesGenuine on the packets the implementation delivered:", got[-1])
        if got[-1] != ["ok"]:
            print("VIOLATION property=%s replay=(this file)" % pid)
            return 1
        return 1 if any(o != g for o, g in zip(outs, got[1:])) else 0
    if isinstance(sc, dict) and "events" in sc and "header" not in sc and all(e.startswith("bs-") for e in sc["events"]):
        with instrumented():
            r = BootRun()
            obs = [r.ex(e) for e in sc["events"]]
        lines, idx, mm, mi = boot_lines(sc["events"], obs)
        got = ctx.model("brokerclient", lines)
        for j, e in enumerate(sc["events"]):
            print("%3d %-40s impl=%s%s" % (j, e[:40], obs[j], "" if obs[j] == got[idx[j]] else "   MODEL=%s" % got[idx[j]]))
        print("bootstrap monitor on the implementation's trace: plain=%s strict=%s" % (got[mi], got[mi + 1]))
        if got[mi] != ["ok"]:
            print("VIOLATION property=%s replay=(this file)" % pid)
            return 1
        return 1 if any(obs[j] != got[idx[j]] for j in range(len(obs))) else 0
    if not isinstance(sc, dict) or "events" not in sc or "header" not in sc:
        print("nothing replayable in this file (scenario: %r)" % (sc,))
        return 0 if not f else 1
    header = (sc["header"][0], sc["header"][1], list(sc["header"][2]))
    r, obs, probs = C.check_literal(header, sc["events"])
    lines = [G.header_line(header)] + sc["events"]
    got = ctx.model("brokerclient", lines)[1:]
    print("header", header)
    for i, (e, o, g) in enumerate(zip(sc["events"], obs, got)):
        print("%3d %-28s impl=%s%s" % (i, e[:60], o, "" if o == g else "   MODEL=%s" % g))
    print("monitor %s on the implementation's trace: %s" % (pid, r[mon] or ["ok"]))
    print("model/implementation:", "agree" if r["dis"] is None else "DISAGREE at step %d" % r["dis"]["at"], probs or "")
    if r[mon] is not None:
        print("VIOLATION property=%s replay=(this file)" % pid)
        return 1
    return 1 if r["dis"] is not None else 0
