"""refcodec - an INDEPENDENT Kafka wire codec, written from the Kafka protocol guide.

It does not import, copy or consult afkak.  It is the Python oracle of the verification:
the simulated brokers (`sim/cluster.py`) parse every frame the real client writes with the strict
PARSERS below and answer with the ENCODERS below; the wire properties (C04/C05/C12) use it as the
independent second opinion next to the Lean grammar `Afkak/Wire/Spec`.

Everything is plain functions over plain values: `bytes` in/out, bodies are `dict`s whose field names
follow the protocol guide, strings are `str` (UTF-8 on the wire), "bytes" fields are `bytes`, nullable
things are `None`.  Any deviation from the grammar raises `CodecError` (a `ValueError`): short input,
TRAILING BYTES, negative lengths other than the -1 of a nullable field, null in a non-nullable field,
bad UTF-8, out-of-range integers when encoding, bad CRC / magic / size fields in message sets.

Public API
==========
Frames (all WITHOUT the 4-byte length prefix; `frame(b)` / `unframe(b)` add / strip it):

    parse_request(data, validate_records=True, allow_trailing=False) -> (header, body)
        header = (api_key, api_version, correlation_id, client_id)      client_id: str | None
        For Produce, every partition dict additionally gets "messages": the strictly decoded
        (shallow) message-set entries of its "record_set" (validate_records=False skips that).
        allow_trailing=True is the ONE leniency on offer (real brokers ignore bytes after the body);
        the cluster uses it only after the strict parse failed and the violation was recorded.
    encode_request(api_key, api_version, correlation_id, client_id, body) -> bytes
    encode_response(api_key, api_version, correlation_id, body) -> bytes   (correlation id + body)
    parse_response(api_key, api_version, data) -> (correlation_id, body)
    request_header(data) -> header            (only the header; the body is not looked at)
    supported() -> sorted list of (api_key, api_version) that have a schema
    SCHEMAS[(api_key, api_version)] = (request_schema, response_schema)

API keys / versions with schemas (the ones afkak speaks plus their neighbours, which cost nothing):
    Produce 0,1,2  Fetch 0,1,2  ListOffsets 0  Metadata 0  OffsetCommit 0,1,2  OffsetFetch 0,1
    FindCoordinator 0  JoinGroup 0  Heartbeat 0  LeaveGroup 0  SyncGroup 0  ApiVersions 0

Message sets (message format 0 and 1; a message is a dict
    {"offset", "magic", "attributes", "timestamp" (None for magic 0), "key", "value"} ):

    encode_message(msg) -> bytes                      crc32 | magic | attributes | [timestamp] | key | value
    decode_message(data, offset=0) -> msg             strict: CRC, magic in {0,1}, no trailing bytes
    encode_message_set(msgs) -> bytes                 [offset:int64 size:int32 message]*  (NOT length prefixed)
    decode_message_set(data, allow_partial=False) -> [msg]      shallow: wrappers stay wrappers
        allow_partial=True tolerates (drops) ONE truncated trailing entry, as fetch responses may carry
    split_message_set(data) -> ([(offset, message_bytes)], consumed)   framing only, no CRC check
    gzip_wrapper(inner_msgs, magic, first_offset=0, offsets=None, timestamp=None, attributes=0) -> msg
        the protocol's offset rules: magic 0 wrapper: inner messages carry ABSOLUTE offsets;
        magic 1 wrapper: inner messages carry RELATIVE offsets and the wrapper's offset is the absolute
        offset of the LAST inner message; in both cases wrapper offset = last inner absolute offset.
    expand_message_set(msgs, max_depth=2) -> [msg]    deep: gunzips wrappers, ABSOLUTE offsets
    decode_message_set_deep(data, allow_partial=False) = expand_message_set(decode_message_set(...))
    gzip_compress(b) / gzip_decompress(b)             deterministic (mtime=0) gzip member

Group-membership payloads of the "consumer" embedded protocol:
    encode_subscription(version, topics, user_data) / decode_subscription(b)
    encode_assignment(version, {topic: [partition]}, user_data) / decode_assignment(b)

Constants: API key names (`PRODUCE` ...), `API_NAMES`, error codes `ERR` (name -> code), `ERR_NAMES`.

`python -m harness.sim.refcodec` runs the self-test (golden vectors written out by hand from the
protocol guide + randomised round trips of every schema + strictness checks).
"""
import gzip as _gzip
import io as _io
import struct
import zlib

# --------------------------------------------------------------------------- constants

PRODUCE, FETCH, LIST_OFFSETS, METADATA = 0, 1, 2, 3
OFFSET_COMMIT, OFFSET_FETCH, FIND_COORDINATOR, JOIN_GROUP = 8, 9, 10, 11
HEARTBEAT, LEAVE_GROUP, SYNC_GROUP, DESCRIBE_GROUPS, LIST_GROUPS = 12, 13, 14, 15, 16
SASL_HANDSHAKE, API_VERSIONS = 17, 18

API_NAMES = {
    0: "Produce", 1: "Fetch", 2: "ListOffsets", 3: "Metadata", 4: "LeaderAndIsr", 5: "StopReplica",
    6: "UpdateMetadata", 7: "ControlledShutdown", 8: "OffsetCommit", 9: "OffsetFetch",
    10: "FindCoordinator", 11: "JoinGroup", 12: "Heartbeat", 13: "LeaveGroup", 14: "SyncGroup",
    15: "DescribeGroups", 16: "ListGroups", 17: "SaslHandshake", 18: "ApiVersions",
}  # fmt: skip

ERR = {
    "UNKNOWN": -1, "NONE": 0, "OFFSET_OUT_OF_RANGE": 1, "CORRUPT_MESSAGE": 2,
    "UNKNOWN_TOPIC_OR_PARTITION": 3, "INVALID_FETCH_SIZE": 4, "LEADER_NOT_AVAILABLE": 5,
    "NOT_LEADER_FOR_PARTITION": 6, "REQUEST_TIMED_OUT": 7, "BROKER_NOT_AVAILABLE": 8,
    "REPLICA_NOT_AVAILABLE": 9, "MESSAGE_TOO_LARGE": 10, "STALE_CONTROLLER_EPOCH": 11,
    "OFFSET_METADATA_TOO_LARGE": 12, "NETWORK_EXCEPTION": 13, "COORDINATOR_LOAD_IN_PROGRESS": 14,
    "COORDINATOR_NOT_AVAILABLE": 15, "NOT_COORDINATOR": 16, "INVALID_TOPIC_EXCEPTION": 17,
    "RECORD_LIST_TOO_LARGE": 18, "NOT_ENOUGH_REPLICAS": 19, "NOT_ENOUGH_REPLICAS_AFTER_APPEND": 20,
    "INVALID_REQUIRED_ACKS": 21, "ILLEGAL_GENERATION": 22, "INCONSISTENT_GROUP_PROTOCOL": 23,
    "INVALID_GROUP_ID": 24, "UNKNOWN_MEMBER_ID": 25, "INVALID_SESSION_TIMEOUT": 26,
    "REBALANCE_IN_PROGRESS": 27, "INVALID_COMMIT_OFFSET_SIZE": 28, "TOPIC_AUTHORIZATION_FAILED": 29,
    "GROUP_AUTHORIZATION_FAILED": 30, "CLUSTER_AUTHORIZATION_FAILED": 31, "INVALID_TIMESTAMP": 32,
    "UNSUPPORTED_SASL_MECHANISM": 33, "ILLEGAL_SASL_STATE": 34, "UNSUPPORTED_VERSION": 35,
    "INVALID_REQUEST": 42, "UNSUPPORTED_FOR_MESSAGE_FORMAT": 43,
}  # fmt: skip
ERR_NAMES = {v: k for k, v in ERR.items()}

CODEC_MASK = 0x07  # attributes bits 0..2 (message format 1; format 0 used bits 0..1 in practice)
CODEC_NONE, CODEC_GZIP, CODEC_SNAPPY, CODEC_LZ4 = 0, 1, 2, 3
TIMESTAMP_TYPE_MASK = 0x08  # attributes bit 3: 0 = CreateTime, 1 = LogAppendTime (format 1 only)


class CodecError(ValueError):
    """The bytes (or the value to encode) do not conform to the Kafka grammar."""


# --------------------------------------------------------------------------- primitives

_INT = {
    "int8": (">b", 1, -(2**7), 2**7 - 1),
    "int16": (">h", 2, -(2**15), 2**15 - 1),
    "int32": (">i", 4, -(2**31), 2**31 - 1),
    "int64": (">q", 8, -(2**63), 2**63 - 1),
    "uint32": (">I", 4, 0, 2**32 - 1),
}


class Reader(object):
    """Bounds-checked cursor over immutable bytes."""

    __slots__ = ("data", "pos", "end")

    def __init__(self, data, pos=0, end=None):
        if not isinstance(data, (bytes, bytearray, memoryview)):
            raise CodecError("expected bytes, got %s" % type(data).__name__)
        self.data = bytes(data)
        self.pos = pos
        self.end = len(self.data) if end is None else end

    def remaining(self):
        return self.end - self.pos

    def take(self, n, what="bytes"):
        if n < 0:
            raise CodecError("negative length %d for %s at %d" % (n, what, self.pos))
        if self.pos + n > self.end:
            raise CodecError("short input: %s needs %d bytes at %d, have %d" % (what, n, self.pos, self.end - self.pos))
        b = self.data[self.pos:self.pos + n]
        self.pos += n
        return b

    def int(self, kind, what=None):
        fmt, n, _, _ = _INT[kind]
        return struct.unpack(fmt, self.take(n, what or kind))[0]

    def string(self, nullable, what="string"):
        n = self.int("int16", what + ".length")
        if n == -1:
            if nullable:
                return None
            raise CodecError("null in non-nullable %s at %d" % (what, self.pos - 2))
        if n < 0:
            raise CodecError("negative length %d for %s at %d" % (n, what, self.pos - 2))
        raw = self.take(n, what)
        try:
            return raw.decode("utf-8")
        except UnicodeDecodeError as e:
            raise CodecError("invalid UTF-8 in %s: %s" % (what, e)) from None

    def bytes_(self, nullable, what="bytes"):
        n = self.int("int32", what + ".length")
        if n == -1:
            if nullable:
                return None
            raise CodecError("null in non-nullable %s at %d" % (what, self.pos - 4))
        if n < 0:
            raise CodecError("negative length %d for %s at %d" % (n, what, self.pos - 4))
        return self.take(n, what)

    def done(self, what="input"):
        if self.pos != self.end:
            raise CodecError("%d trailing bytes after %s" % (self.end - self.pos, what))


def _pack_int(kind, v, what):
    fmt, _, lo, hi = _INT[kind]
    if isinstance(v, bool) or not isinstance(v, int):
        raise CodecError("%s: expected int, got %r" % (what, v))
    if not lo <= v <= hi:
        raise CodecError("%s: %d out of range for %s" % (what, v, kind))
    return struct.pack(fmt, v)


def _pack_string(v, nullable, what):
    if v is None:
        if nullable:
            return b"\xff\xff"
        raise CodecError("%s: null in non-nullable string" % what)
    if isinstance(v, str):
        try:
            raw = v.encode("utf-8")
        except UnicodeEncodeError as e:
            raise CodecError("%s: %s" % (what, e)) from None
    elif isinstance(v, (bytes, bytearray)):
        raw = bytes(v)
    else:
        raise CodecError("%s: expected str, got %r" % (what, v))
    if len(raw) > 32767:
        raise CodecError("%s: string of %d bytes exceeds int16 length" % (what, len(raw)))
    return struct.pack(">h", len(raw)) + raw


def _pack_bytes(v, nullable, what):
    if v is None:
        if nullable:
            return b"\xff\xff\xff\xff"
        raise CodecError("%s: null in non-nullable bytes" % what)
    if not isinstance(v, (bytes, bytearray, memoryview)):
        raise CodecError("%s: expected bytes, got %r" % (what, type(v).__name__))
    v = bytes(v)
    if len(v) > 2**31 - 1:
        raise CodecError("%s: bytes too long" % what)
    return struct.pack(">i", len(v)) + v


# --------------------------------------------------------------------------- schema engine
# A schema is: a primitive name (str) | ("array", schema) | [(field, schema), ...] (a struct -> dict)

STRING, NSTRING, BYTES, NBYTES, RECORDS = "string", "nullable_string", "bytes", "nullable_bytes", "records"


def Array(s):
    return ("array", s)


def _encode(schema, v, out, what):
    if isinstance(schema, str):
        if schema in _INT:
            out.append(_pack_int(schema, v, what))
        elif schema == STRING:
            out.append(_pack_string(v, False, what))
        elif schema == NSTRING:
            out.append(_pack_string(v, True, what))
        elif schema == BYTES:
            out.append(_pack_bytes(v, False, what))
        elif schema in (NBYTES, RECORDS):
            out.append(_pack_bytes(v, True, what))
        else:
            raise AssertionError(schema)
    elif isinstance(schema, tuple):
        if v is None or isinstance(v, (str, bytes, dict)):
            raise CodecError("%s: expected a list, got %r" % (what, type(v).__name__))
        v = list(v)
        out.append(_pack_int("int32", len(v), what + ".count"))
        for i, x in enumerate(v):
            _encode(schema[1], x, out, "%s[%d]" % (what, i))
    else:
        if not isinstance(v, dict):
            raise CodecError("%s: expected a dict, got %r" % (what, type(v).__name__))
        extra = set(v) - {f for f, _ in schema}
        if extra - {"messages"}:
            raise CodecError("%s: unknown fields %s" % (what, sorted(extra)))
        for f, s in schema:
            if f not in v:
                raise CodecError("%s: missing field %r" % (what, f))
            _encode(s, v[f], out, what + "." + f)


def _decode(schema, r, what):
    if isinstance(schema, str):
        if schema in _INT:
            return r.int(schema, what)
        if schema == STRING:
            return r.string(False, what)
        if schema == NSTRING:
            return r.string(True, what)
        if schema == BYTES:
            return r.bytes_(False, what)
        if schema in (NBYTES, RECORDS):
            return r.bytes_(True, what)
        raise AssertionError(schema)
    if isinstance(schema, tuple):
        n = r.int("int32", what + ".count")
        if n < 0:
            raise CodecError("%s: array count %d (null arrays do not exist in these versions)" % (what, n))
        # every element of every schema here occupies at least one byte: reject absurd counts early
        if n > r.remaining():
            raise CodecError("%s: array count %d exceeds the %d remaining bytes" % (what, n, r.remaining()))
        return [_decode(schema[1], r, "%s[%d]" % (what, i)) for i in range(n)]
    return {f: _decode(s, r, what + "." + f) for f, s in schema}


# --------------------------------------------------------------------------- schemas (protocol guide)

_T = "topic"
_P = "partition"


def _topics(partition_schema):
    return Array([(_T, STRING), ("partitions", Array(partition_schema))])


_produce_req = [
    ("acks", "int16"),
    ("timeout", "int32"),
    ("topics", _topics([(_P, "int32"), ("record_set", RECORDS)])),
]
_produce_resp_v0 = [("topics", _topics([(_P, "int32"), ("error_code", "int16"), ("base_offset", "int64")]))]
_produce_resp_v1 = _produce_resp_v0 + [("throttle_time_ms", "int32")]
_produce_resp_v2 = [
    ("topics", _topics([(_P, "int32"), ("error_code", "int16"), ("base_offset", "int64"), ("log_append_time", "int64")])),
    ("throttle_time_ms", "int32"),
]

_fetch_req = [
    ("replica_id", "int32"),
    ("max_wait_time", "int32"),
    ("min_bytes", "int32"),
    ("topics", _topics([(_P, "int32"), ("fetch_offset", "int64"), ("max_bytes", "int32")])),
]
_fetch_parts = _topics([(_P, "int32"), ("error_code", "int16"), ("high_watermark", "int64"), ("record_set", RECORDS)])
_fetch_resp_v0 = [("topics", _fetch_parts)]
_fetch_resp_v1 = [("throttle_time_ms", "int32"), ("topics", _fetch_parts)]

_list_offsets_req_v0 = [
    ("replica_id", "int32"),
    ("topics", _topics([(_P, "int32"), ("timestamp", "int64"), ("max_num_offsets", "int32")])),
]
_list_offsets_resp_v0 = [("topics", _topics([(_P, "int32"), ("error_code", "int16"), ("offsets", Array("int64"))]))]

_metadata_req_v0 = [("topics", Array(STRING))]
_metadata_resp_v0 = [
    ("brokers", Array([("node_id", "int32"), ("host", STRING), ("port", "int32")])),
    (
        "topics",
        Array(
            [
                ("error_code", "int16"),
                (_T, STRING),
                (
                    "partitions",
                    Array(
                        [
                            ("error_code", "int16"),
                            (_P, "int32"),
                            ("leader", "int32"),
                            ("replicas", Array("int32")),
                            ("isr", Array("int32")),
                        ]
                    ),
                ),
            ]
        ),
    ),
]

_offset_commit_req_v0 = [
    ("group_id", STRING),
    ("topics", _topics([(_P, "int32"), ("offset", "int64"), ("metadata", NSTRING)])),
]
_offset_commit_req_v1 = [
    ("group_id", STRING),
    ("generation_id", "int32"),
    ("member_id", STRING),
    ("topics", _topics([(_P, "int32"), ("offset", "int64"), ("timestamp", "int64"), ("metadata", NSTRING)])),
]
_offset_commit_req_v2 = [
    ("group_id", STRING),
    ("generation_id", "int32"),
    ("member_id", STRING),
    ("retention_time", "int64"),
    ("topics", _topics([(_P, "int32"), ("offset", "int64"), ("metadata", NSTRING)])),
]
_offset_commit_resp = [("topics", _topics([(_P, "int32"), ("error_code", "int16")]))]

_offset_fetch_req = [("group_id", STRING), ("topics", _topics([(_P, "int32")]))]
_offset_fetch_resp = [
    ("topics", _topics([(_P, "int32"), ("offset", "int64"), ("metadata", NSTRING), ("error_code", "int16")]))
]

_find_coordinator_req_v0 = [("group_id", STRING)]
_find_coordinator_resp_v0 = [("error_code", "int16"), ("node_id", "int32"), ("host", STRING), ("port", "int32")]

_join_group_req_v0 = [
    ("group_id", STRING),
    ("session_timeout", "int32"),
    ("member_id", STRING),
    ("protocol_type", STRING),
    ("group_protocols", Array([("name", STRING), ("metadata", BYTES)])),
]
_join_group_resp_v0 = [
    ("error_code", "int16"),
    ("generation_id", "int32"),
    ("group_protocol", STRING),
    ("leader_id", STRING),
    ("member_id", STRING),
    ("members", Array([("member_id", STRING), ("metadata", BYTES)])),
]

_heartbeat_req_v0 = [("group_id", STRING), ("generation_id", "int32"), ("member_id", STRING)]
_leave_group_req_v0 = [("group_id", STRING), ("member_id", STRING)]
_error_only = [("error_code", "int16")]

_sync_group_req_v0 = [
    ("group_id", STRING),
    ("generation_id", "int32"),
    ("member_id", STRING),
    ("group_assignment", Array([("member_id", STRING), ("assignment", BYTES)])),
]
_sync_group_resp_v0 = [("error_code", "int16"), ("assignment", BYTES)]

_api_versions_req_v0 = []
_api_versions_resp_v0 = [
    ("error_code", "int16"),
    ("api_versions", Array([("api_key", "int16"), ("min_version", "int16"), ("max_version", "int16")])),
]

SCHEMAS = {
    (PRODUCE, 0): (_produce_req, _produce_resp_v0),
    (PRODUCE, 1): (_produce_req, _produce_resp_v1),
    (PRODUCE, 2): (_produce_req, _produce_resp_v2),
    (FETCH, 0): (_fetch_req, _fetch_resp_v0),
    (FETCH, 1): (_fetch_req, _fetch_resp_v1),
    (FETCH, 2): (_fetch_req, _fetch_resp_v1),
    (LIST_OFFSETS, 0): (_list_offsets_req_v0, _list_offsets_resp_v0),
    (METADATA, 0): (_metadata_req_v0, _metadata_resp_v0),
    (OFFSET_COMMIT, 0): (_offset_commit_req_v0, _offset_commit_resp),
    (OFFSET_COMMIT, 1): (_offset_commit_req_v1, _offset_commit_resp),
    (OFFSET_COMMIT, 2): (_offset_commit_req_v2, _offset_commit_resp),
    (OFFSET_FETCH, 0): (_offset_fetch_req, _offset_fetch_resp),
    (OFFSET_FETCH, 1): (_offset_fetch_req, _offset_fetch_resp),
    (FIND_COORDINATOR, 0): (_find_coordinator_req_v0, _find_coordinator_resp_v0),
    (JOIN_GROUP, 0): (_join_group_req_v0, _join_group_resp_v0),
    (HEARTBEAT, 0): (_heartbeat_req_v0, _error_only),
    (LEAVE_GROUP, 0): (_leave_group_req_v0, _error_only),
    (SYNC_GROUP, 0): (_sync_group_req_v0, _sync_group_resp_v0),
    (API_VERSIONS, 0): (_api_versions_req_v0, _api_versions_resp_v0),
}


def supported():
    return sorted(SCHEMAS)


def api_name(api_key):
    return API_NAMES.get(api_key, "Api%d" % api_key)


# --------------------------------------------------------------------------- frames


def frame(payload):
    return struct.pack(">i", len(payload)) + payload


def unframe(data):
    r = Reader(data)
    payload = r.bytes_(False, "frame")
    r.done("frame")
    return payload


def _header(r):
    api_key = r.int("int16", "api_key")
    api_version = r.int("int16", "api_version")
    correlation_id = r.int("int32", "correlation_id")
    client_id = r.string(True, "client_id")
    return (api_key, api_version, correlation_id, client_id)


def request_header(data):
    return _header(Reader(data))


def parse_request(data, validate_records=True, allow_trailing=False):
    """Strictly parse one request (without length prefix).  -> (header, body)."""
    r = Reader(data)
    header = _header(r)
    key = (header[0], header[1])
    if key not in SCHEMAS:
        raise CodecError("no schema for %s v%d" % (api_name(header[0]), header[1]))
    body = _decode(SCHEMAS[key][0], r, api_name(header[0]) + "Request")
    if not allow_trailing:
        r.done("%s v%d request" % (api_name(header[0]), header[1]))
    if header[0] == PRODUCE and validate_records:
        for t in body["topics"]:
            for p in t["partitions"]:
                if p["record_set"] is None:
                    raise CodecError("Produce: null record set for %s/%d" % (t["topic"], p["partition"]))
                p["messages"] = decode_message_set(p["record_set"])
    return header, body


def encode_request(api_key, api_version, correlation_id, client_id, body):
    if (api_key, api_version) not in SCHEMAS:
        raise CodecError("no schema for %s v%d" % (api_name(api_key), api_version))
    out = [
        _pack_int("int16", api_key, "api_key"),
        _pack_int("int16", api_version, "api_version"),
        _pack_int("int32", correlation_id, "correlation_id"),
        _pack_string(client_id, True, "client_id"),
    ]
    _encode(SCHEMAS[(api_key, api_version)][0], body, out, api_name(api_key) + "Request")
    return b"".join(out)


def encode_response(api_key, api_version, correlation_id, body):
    """-> correlation id + body (what follows the length prefix)."""
    if (api_key, api_version) not in SCHEMAS:
        raise CodecError("no schema for %s v%d" % (api_name(api_key), api_version))
    out = [_pack_int("int32", correlation_id, "correlation_id")]
    _encode(SCHEMAS[(api_key, api_version)][1], body, out, api_name(api_key) + "Response")
    return b"".join(out)


def parse_response(api_key, api_version, data):
    if (api_key, api_version) not in SCHEMAS:
        raise CodecError("no schema for %s v%d" % (api_name(api_key), api_version))
    r = Reader(data)
    correlation_id = r.int("int32", "correlation_id")
    body = _decode(SCHEMAS[(api_key, api_version)][1], r, api_name(api_key) + "Response")
    r.done("%s v%d response" % (api_name(api_key), api_version))
    return correlation_id, body


# --------------------------------------------------------------------------- messages and message sets


def gzip_compress(data):
    """One gzip member, deterministic (mtime 0, no name)."""
    buf = _io.BytesIO()
    with _gzip.GzipFile(fileobj=buf, mode="wb", compresslevel=6, mtime=0) as f:
        f.write(data)
    return buf.getvalue()


def gzip_decompress(data):
    try:
        return _gzip.GzipFile(fileobj=_io.BytesIO(data), mode="rb").read()
    except (OSError, EOFError, zlib.error) as e:
        raise CodecError("bad gzip payload: %s" % e) from None


def message(value, key=None, magic=0, attributes=0, timestamp=None, offset=0):
    """Convenience constructor of a message dict."""
    if magic == 1 and timestamp is None:
        timestamp = -1
    return {"offset": offset, "magic": magic, "attributes": attributes, "timestamp": timestamp if magic == 1 else None, "key": key, "value": value}


def encode_message(msg):
    magic = msg["magic"]
    if magic not in (0, 1):
        raise CodecError("message magic %r not in {0, 1}" % (magic,))
    body = [_pack_int("int8", magic, "magic"), _pack_int("int8", msg["attributes"], "attributes")]
    if magic == 1:
        ts = msg.get("timestamp")
        if ts is None:
            raise CodecError("format 1 message needs a timestamp")
        body.append(_pack_int("int64", ts, "timestamp"))
    elif msg.get("timestamp") is not None:
        raise CodecError("format 0 message cannot carry a timestamp")
    body.append(_pack_bytes(msg.get("key"), True, "key"))
    body.append(_pack_bytes(msg.get("value"), True, "value"))
    body = b"".join(body)
    return struct.pack(">I", zlib.crc32(body) & 0xFFFFFFFF) + body


def decode_message(data, offset=0):
    r = Reader(data)
    crc = r.int("uint32", "crc")
    if crc != (zlib.crc32(r.data[4:]) & 0xFFFFFFFF):
        raise CodecError("message at offset %d: CRC mismatch (stored %08x, computed %08x)" % (offset, crc, zlib.crc32(r.data[4:]) & 0xFFFFFFFF))
    magic = r.int("int8", "magic")
    if magic not in (0, 1):
        raise CodecError("message at offset %d: magic %d not in {0, 1}" % (offset, magic))
    attributes = r.int("int8", "attributes")
    timestamp = r.int("int64", "timestamp") if magic == 1 else None
    key = r.bytes_(True, "key")
    value = r.bytes_(True, "value")
    r.done("message at offset %d" % offset)
    return {"offset": offset, "magic": magic, "attributes": attributes, "timestamp": timestamp, "key": key, "value": value}


def encode_message_set(msgs):
    out = []
    for m in msgs:
        raw = encode_message(m)
        out.append(_pack_int("int64", m["offset"], "offset"))
        out.append(_pack_int("int32", len(raw), "message_size"))
        out.append(raw)
    return b"".join(out)


def encode_entry(offset, message_bytes):
    """One message-set entry from already encoded message bytes."""
    return _pack_int("int64", offset, "offset") + _pack_int("int32", len(message_bytes), "message_size") + message_bytes


MIN_MESSAGE_SIZE = 4 + 1 + 1 + 4 + 4  # crc magic attributes key-length value-length (format 0)


def split_message_set(data):
    """Framing only.  -> ([(offset, message_bytes)], consumed): stops before a truncated trailing entry."""
    data = bytes(data)
    pos, out = 0, []
    while len(data) - pos >= 12:
        offset, size = struct.unpack_from(">qi", data, pos)
        if size < 0:
            raise CodecError("message set entry at %d: negative message size %d" % (pos, size))
        if pos + 12 + size > len(data):
            break
        out.append((offset, data[pos + 12:pos + 12 + size]))
        pos += 12 + size
    return out, pos


def decode_message_set(data, allow_partial=False):
    """Shallow, strict decode of `[offset size message]*`."""
    entries, consumed = split_message_set(data)
    if consumed != len(data) and not allow_partial:
        raise CodecError("message set: %d bytes of a truncated entry at %d" % (len(data) - consumed, consumed))
    return [decode_message(raw, offset) for offset, raw in entries]


def codec_of(msg):
    return msg["attributes"] & CODEC_MASK


def gzip_wrapper(inner_msgs, magic, first_offset=0, offsets=None, timestamp=None, attributes=0):
    """Build the wrapper message for `inner_msgs` (message dicts; their own "offset" fields are ignored).

    `offsets` (optional, strictly increasing) are the ABSOLUTE offsets of the inner messages; default
    first_offset, first_offset+1, ...  Inner messages are written in the wrapper's message format.
    """
    inner_msgs = list(inner_msgs)
    if not inner_msgs:
        raise CodecError("a compressed wrapper needs at least one inner message")
    if offsets is None:
        offsets = [first_offset + i for i in range(len(inner_msgs))]
    offsets = list(offsets)
    if len(offsets) != len(inner_msgs) or any(b <= a for a, b in zip(offsets, offsets[1:])):
        raise CodecError("offsets must be strictly increasing, one per inner message")
    inner = []
    for m, off in zip(inner_msgs, offsets):
        m = dict(m)
        m["magic"] = magic
        if magic == 0:
            m["timestamp"] = None
            m["offset"] = off  # absolute
        else:
            if m.get("timestamp") is None:
                m["timestamp"] = -1
            m["offset"] = off - offsets[0]  # relative
        inner.append(m)
    if magic == 1 and timestamp is None:
        timestamp = max(m["timestamp"] for m in inner)
    return {
        "offset": offsets[-1],
        "magic": magic,
        "attributes": (attributes & ~CODEC_MASK) | CODEC_GZIP,
        "timestamp": timestamp if magic == 1 else None,
        "key": None,
        "value": gzip_compress(encode_message_set(inner)),
    }


def expand_message_set(msgs, max_depth=2):
    """Deep view of shallow entries: wrappers replaced by their inner messages with ABSOLUTE offsets."""
    out = []
    for m in msgs:
        codec = codec_of(m)
        if codec == CODEC_NONE:
            out.append(m)
            continue
        if codec != CODEC_GZIP:
            raise CodecError("message at offset %d: codec %d not available here" % (m["offset"], codec))
        if max_depth <= 0:
            raise CodecError("message at offset %d: compressed sets nested too deep" % m["offset"])
        if m["value"] is None:
            raise CodecError("message at offset %d: compressed wrapper with null value" % m["offset"])
        inner = expand_message_set(decode_message_set(gzip_decompress(m["value"])), max_depth - 1)
        if not inner:
            raise CodecError("message at offset %d: empty compressed wrapper" % m["offset"])
        if m["magic"] == 1:
            last = inner[-1]["offset"]
            log_append = bool(m["attributes"] & TIMESTAMP_TYPE_MASK)
            fixed = []
            for x in inner:
                x = dict(x)
                x["offset"] = m["offset"] - last + x["offset"]
                if log_append and x["magic"] == 1:
                    x["timestamp"] = m["timestamp"]
                fixed.append(x)
            inner = fixed
        out.extend(inner)
    return out


def decode_message_set_deep(data, allow_partial=False, max_depth=2):
    return expand_message_set(decode_message_set(data, allow_partial), max_depth)


# --------------------------------------------------------------------------- consumer embedded protocol

_subscription = [("version", "int16"), ("topics", Array(STRING)), ("user_data", NBYTES)]
_assignment = [
    ("version", "int16"),
    ("partitions", Array([(_T, STRING), ("partitions", Array("int32"))])),
    ("user_data", NBYTES),
]


def encode_subscription(version, topics, user_data=b""):
    out = []
    _encode(_subscription, {"version": version, "topics": list(topics), "user_data": user_data}, out, "Subscription")
    return b"".join(out)


def decode_subscription(data):
    r = Reader(data)
    v = _decode(_subscription, r, "Subscription")
    r.done("Subscription")
    return v


def encode_assignment(version, assignment, user_data=b""):
    """`assignment`: {topic: [partition]} (dict order kept) or a list of (topic, [partition])."""
    items = assignment.items() if isinstance(assignment, dict) else assignment
    body = {"version": version, "partitions": [{_T: t, "partitions": list(ps)} for t, ps in items], "user_data": user_data}
    out = []
    _encode(_assignment, body, out, "Assignment")
    return b"".join(out)


def decode_assignment(data):
    """-> {"version", "partitions": [(topic, [partition])], "user_data"}"""
    r = Reader(data)
    v = _decode(_assignment, r, "Assignment")
    r.done("Assignment")
    return {"version": v["version"], "partitions": [(x[_T], x["partitions"]) for x in v["partitions"]], "user_data": v["user_data"]}


# --------------------------------------------------------------------------- self-test


def _random_value(schema, rng, depth=0):
    if isinstance(schema, str):
        if schema in _INT:
            _, _, lo, hi = _INT[schema]
            return rng.choice([lo, hi, 0, 1, -1 if lo < 0 else 2, rng.randint(lo, hi)])
        if schema in (STRING, NSTRING):
            if schema == NSTRING and rng.random() < 0.2:
                return None
            return rng.choice(["", "t", "topic-é中", "x" * rng.randint(0, 40), "\U0001f600grp"])
        if schema in (BYTES, NBYTES):
            if schema == NBYTES and rng.random() < 0.2:
                return None
            return bytes(rng.randrange(256) for _ in range(rng.choice([0, 1, 5, 33])))
        if schema == RECORDS:
            if rng.random() < 0.1:
                return None
            return encode_message_set(_random_messages(rng, rng.randint(0, 4), rng.choice([0, 1]), rng.randint(0, 1000)))
        raise AssertionError(schema)
    if isinstance(schema, tuple):
        return [_random_value(schema[1], rng, depth + 1) for _ in range(rng.choice([0, 1, 2, 3]))]
    return {f: _random_value(s, rng, depth + 1) for f, s in schema}


def _random_messages(rng, n, magic, first):
    out = []
    for i in range(n):
        key = rng.choice([None, b"", b"k%d" % i])
        value = rng.choice([None, b"", b"v" * rng.randint(1, 30)])
        out.append(message(value, key, magic, 0, rng.randint(0, 2**40) if magic == 1 else None, first + i))
    return out


def _expect_error(fn, *a, **kw):
    try:
        fn(*a, **kw)
    except CodecError:
        return True
    return False


def self_test(seed=0, rounds=60, verbose=True):
    import random

    rng = random.Random(seed)
    checks = 0

    def ok(cond, what):
        nonlocal checks
        checks += 1
        if not cond:
            raise AssertionError("refcodec self-test failed: " + what)

    # --- golden vectors written out by hand from the protocol guide
    md = bytes.fromhex("0003" "0000" "00000007" "0002" "6369" "00000001" "0001" "74")
    ok(parse_request(md) == ((3, 0, 7, "ci"), {"topics": ["t"]}), "metadata request golden")
    ok(encode_request(3, 0, 7, "ci", {"topics": ["t"]}) == md, "metadata request golden (encode)")
    av = bytes.fromhex("0012" "0000" "00000001" "ffff")
    ok(parse_request(av) == ((18, 0, 1, None), {}), "api versions request golden (null client id, empty body)")
    ok(_expect_error(parse_request, av + b"\0\0\0\0"), "api versions request with 4 trailing bytes must be rejected")
    avr = bytes.fromhex("00000001" "0000" "00000002" "0000" "0000" "0002" "0001" "0000" "0002")
    ok(
        parse_response(18, 0, avr)
        == (1, {"error_code": 0, "api_versions": [{"api_key": 0, "min_version": 0, "max_version": 2}, {"api_key": 1, "min_version": 0, "max_version": 2}]}),
        "api versions response golden",
    )
    # message format 0: magic 0, attributes 0, key null, value "hi"
    body = bytes.fromhex("00" "00" "ffffffff" "00000002" "6869")
    m0 = struct.pack(">I", zlib.crc32(body)) + body
    ok(encode_message(message(b"hi")) == m0, "message v0 golden")
    ok(decode_message(m0, 5) == message(b"hi", offset=5), "message v0 golden decode")
    body1 = bytes.fromhex("01" "00" "0000000000000064" "00000000" "ffffffff")
    m1 = struct.pack(">I", zlib.crc32(body1)) + body1
    ok(encode_message(message(None, b"", 1, 0, 100)) == m1, "message v1 golden (empty key, null value)")
    ms = struct.pack(">qi", 5, len(m0)) + m0 + struct.pack(">qi", 6, len(m1)) + m1
    ok(decode_message_set(ms) == [message(b"hi", offset=5), message(None, b"", 1, 0, 100, 6)], "message set golden")
    # produce v0 request: acks 1, timeout 1000, one topic "t", partition 3
    pr = bytes.fromhex("0000" "0000" "0000002a" "0001" "63" "0001" "000003e8" "00000001" "0001" "74" "00000001" "00000003") + struct.pack(">i", len(ms)) + ms
    h, b = parse_request(pr)
    ok(h == (0, 0, 42, "c") and b["acks"] == 1 and b["timeout"] == 1000, "produce golden header")
    ok(b["topics"][0]["topic"] == "t" and b["topics"][0]["partitions"][0]["partition"] == 3, "produce golden tp")
    ok(b["topics"][0]["partitions"][0]["messages"][1]["timestamp"] == 100, "produce golden messages")
    # fetch v2 response: throttle 0, topic "t", partition 0, error 0, hw 7, record set = ms
    fr = bytes.fromhex("00000009" "00000000" "00000001" "0001" "74" "00000001" "00000000" "0000" "0000000000000007") + struct.pack(">i", len(ms)) + ms
    cid, fb = parse_response(1, 2, fr)
    ok(cid == 9 and fb["throttle_time_ms"] == 0 and fb["topics"][0]["partitions"][0]["high_watermark"] == 7, "fetch v2 response golden")
    ok(encode_response(1, 2, 9, fb) == fr, "fetch v2 response golden (encode)")
    ok(_expect_error(parse_response, 1, 0, fr), "fetch v2 bytes must not parse as v0")
    # offset commit v1 golden
    oc = bytes.fromhex("0008" "0001" "00000003" "0001" "63" "0001" "67" "00000005" "0002" "6d31" "00000001" "0001" "74" "00000001" "00000002" "000000000000000a" "ffffffffffffffff" "ffff")
    ok(
        parse_request(oc)
        == ((8, 1, 3, "c"), {"group_id": "g", "generation_id": 5, "member_id": "m1", "topics": [{"topic": "t", "partitions": [{"partition": 2, "offset": 10, "timestamp": -1, "metadata": None}]}]}),
        "offset commit v1 golden",
    )

    # --- randomised round trips of every schema, both directions
    for key in supported():
        req_s, resp_s = SCHEMAS[key]
        for _ in range(rounds):
            body = _random_value(req_s, rng)
            cid = rng.choice([0, 1, 2**31 - 1, rng.randint(0, 2**31 - 1)])
            client = rng.choice([None, "", "afkak-client", "cé"])
            data = encode_request(key[0], key[1], cid, client, body)
            h, back = parse_request(data, validate_records=False)
            ok(h == (key[0], key[1], cid, client) and back == body, "request round trip %s" % (key,))
            ok(_expect_error(parse_request, data + b"\0", False), "trailing byte accepted %s" % (key,))
            if len(data) > 8:
                ok(_expect_error(parse_request, data[:-1], False), "truncated request accepted %s" % (key,))
            rbody = _random_value(resp_s, rng)
            rdata = encode_response(key[0], key[1], cid, rbody)
            ok(parse_response(key[0], key[1], rdata) == (cid, rbody), "response round trip %s" % (key,))
            ok(_expect_error(parse_response, key[0], key[1], rdata + b"\0"), "response trailing byte accepted %s" % (key,))
            ok(_expect_error(parse_response, key[0], key[1], rdata[:-1]), "truncated response accepted %s" % (key,))

    # --- message sets
    for magic in (0, 1):
        for _ in range(rounds):
            first = rng.randint(0, 10**6)
            msgs = _random_messages(rng, rng.randint(1, 6), magic, first)
            data = encode_message_set(msgs)
            ok(decode_message_set(data) == msgs, "message set round trip magic %d" % magic)
            ok(decode_message_set_deep(data) == msgs, "deep = shallow without wrappers")
            # every truncation point: strict rejects, allow_partial yields exactly the complete prefix
            entries, _ = split_message_set(data)
            ends, pos = [], 0
            for off, raw in entries:
                pos += 12 + len(raw)
                ends.append(pos)
            for cut in range(len(data)):
                whole = sum(1 for e in ends if e <= cut)
                ok(decode_message_set(data[:cut], allow_partial=True) == msgs[:whole], "partial prefix at %d" % cut)
                if cut not in ends and cut != 0:
                    ok(_expect_error(decode_message_set, data[:cut]), "strict accepted truncation at %d" % cut)
            # corruption: flip one bit after the crc field of the first message
            bad = bytearray(data)
            bad[12 + 4 + rng.randrange(len(entries[0][1]) - 4)] ^= 1 << rng.randrange(8)
            ok(_expect_error(decode_message_set, bytes(bad)), "bit flip not detected")
            # wrappers with the protocol's offset rules, incl. gaps
            offsets = sorted(rng.sample(range(first, first + 50), len(msgs)))
            w = gzip_wrapper(msgs, magic, offsets=offsets)
            ok(w["offset"] == offsets[-1], "wrapper offset is last inner absolute offset")
            inner = decode_message_set(gzip_decompress(w["value"]))
            if magic == 0:
                ok([m["offset"] for m in inner] == offsets, "v0 wrapper carries absolute inner offsets")
            else:
                ok([m["offset"] for m in inner] == [o - offsets[0] for o in offsets], "v1 wrapper carries relative inner offsets")
                ok(inner[0]["offset"] == 0, "v1 relative offsets start at 0")
            deep = decode_message_set_deep(encode_message_set([w]))
            ok([m["offset"] for m in deep] == offsets, "deep offsets are absolute (magic %d)" % magic)
            ok([(m["key"], m["value"]) for m in deep] == [(m["key"], m["value"]) for m in msgs], "deep payloads")
            w2 = gzip_wrapper(msgs, magic, first_offset=first)
            deep2 = decode_message_set_deep(encode_message_set([w2]))
            ok([m["offset"] for m in deep2] == list(range(first, first + len(msgs))), "contiguous wrapper offsets")
    ok(_expect_error(encode_message, message(b"x", magic=2)), "magic 2 accepted by the encoder")
    ok(_expect_error(expand_message_set, [dict(message(b"x"), attributes=2)]), "snappy silently accepted")

    # --- strictness of primitives
    ok(_expect_error(parse_request, bytes.fromhex("0003" "0000" "00000007" "0002" "6369" "00000001" "ffff")), "null topic accepted")
    ok(_expect_error(parse_request, bytes.fromhex("0003" "0000" "00000007" "0002" "6369" "ffffffff")), "null array accepted")
    ok(_expect_error(parse_request, bytes.fromhex("0003" "0000" "00000007" "fffe")), "client id length -2 accepted")
    ok(_expect_error(parse_request, bytes.fromhex("0003" "0009" "00000007" "ffff" "00000000")), "unknown version accepted")
    ok(_expect_error(encode_request, 3, 0, 2**31, None, {"topics": []}), "correlation id 2^31 accepted")
    ok(_expect_error(encode_request, 3, 0, 1, "x" * 32768, {"topics": []}), "32768-byte string accepted")
    ok(len(encode_request(3, 0, 1, "x" * 32767, {"topics": []})) == 8 + 2 + 32767 + 4, "32767-byte string rejected")
    ok(_expect_error(parse_request, bytes.fromhex("0003" "0000" "00000007" "0002" "c328" "00000000")), "bad UTF-8 accepted")

    # --- consumer embedded protocol
    sub = encode_subscription(0, ["a", "b"], b"")
    ok(sub == bytes.fromhex("0000" "00000002" "0001" "61" "0001" "62" "00000000"), "subscription golden")
    ok(decode_subscription(sub) == {"version": 0, "topics": ["a", "b"], "user_data": b""}, "subscription round trip")
    asg = encode_assignment(0, {"a": [0, 2]}, b"")
    ok(asg == bytes.fromhex("0000" "00000001" "0001" "61" "00000002" "00000000" "00000002" "00000000"), "assignment golden")
    ok(decode_assignment(asg) == {"version": 0, "partitions": [("a", [0, 2])], "user_data": b""}, "assignment round trip")
    ok(frame(b"abc") == b"\0\0\0\3abc" and unframe(b"\0\0\0\3abc") == b"abc", "frame")
    if verbose:
        print("refcodec self-test: %d checks passed (%d api/version schemas)" % (checks, len(SCHEMAS)))
    return checks


if __name__ == "__main__":
    self_test()
