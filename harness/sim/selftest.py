"""End-to-end smoke scenarios: the REAL afkak objects against the simulated cluster.

    cd /verif && PYTHONPATH=/verif:/repo /venv/bin/python -m harness.sim.selftest [-v] [name ...]

Prints PASS/FAIL per scenario.  A FAIL is either a bug in the simulation or behaviour of afkak worth a
look - the detail line says what was observed.  Everything runs in virtual time, no network.
"""
import logging
import random
import sys
import time
import traceback

from harness.sim import refcodec as R
from harness.sim.cluster import Cluster, RawClient
from harness.sim.fullstack import Determinism, Recorder, make_client, make_consumer, make_group_member, make_producer, run_scenario

SCENARIOS = []


def scenario(fn):
    SCENARIOS.append(fn)
    return fn


class Check(object):
    """ck(cond, what): a failed expectation about the SIMULATION (or a regression in afkak).
    ck.afkak(cond, what): an expectation the simulation is fine with but afkak does not meet - behaviour
    that looks wrong in afkak; reported (never hidden), does not fail the self-test."""

    def __init__(self):
        self.problems = []
        self.afkak_notes = []

    def __call__(self, cond, what):
        if not cond:
            self.problems.append(what)
        return cond

    def afkak(self, cond, what):
        if not cond:
            self.afkak_notes.append(what)
        return cond


def _no_violations(ck, c):
    ck(not c.violations, "protocol violations: %s" % [(v["what"], v["error"]) for v in c.violations[:3]])


# ---------------------------------------------------------------------------


@scenario
def produce_and_read_back(ck):
    """Produce N messages (several sends, keys, null/empty values) and compare the partition logs."""
    sent = [(b"k%d" % (i % 3), [b"v%d" % i, None if i % 4 == 0 else b""]) for i in range(12)]
    steps = [{"do": "producer", "name": "p0"}]
    for i, (k, msgs) in enumerate(sent):
        steps.append({"at": 0.01 * i, "do": "send", "topic": "t", "key": k, "msgs": msgs, "label": "s%d" % i})
    run = run_scenario({"seed": 1, "cluster": {"brokers": 3, "topics": {"t": 3}}, "steps": steps, "until": 20})
    c, rec = run.cluster, run.rec
    ck(run.error is None, "error %r" % run.error)
    _no_violations(ck, c)
    logged = []
    for pid in range(3):
        msgs = c.log_of("t", pid).messages()
        ck([m[0] for m in msgs] == list(range(len(msgs))), "offsets of t/%d not contiguous: %s" % (pid, [m[0] for m in msgs]))
        logged += [(pid, m[0], m[1], m[2]) for m in msgs]
    ck(sorted(repr((k, v)) for _, _, k, v in logged) == sorted(repr((k, v)) for k, ms in sent for v in ms), "log content differs from what was sent")
    for i, (k, msgs) in enumerate(sent):
        o = rec.outcome("s%d" % i)
        if not ck(o is not None and o["ok"], "send s%d did not succeed: %r" % (i, o)):
            continue
        _, topic, pid, err, off = o["result"]
        ck(err == 0, "s%d error %s" % (i, err))
        # the acknowledged base offset must be where the payload of this send's batch starts in the log
        at = [(p, o_, k_, v_) for p, o_, k_, v_ in logged if p == pid and k_ == k and o_ >= off]
        ck(any(v_ == msgs[0] for _, _, _, v_ in at), "s%d: ack (%d, %d) does not cover its message" % (i, pid, off))
    return "%d messages in 3 logs, %d requests" % (len(logged), len(c.requests()))


@scenario
def consume_gzip_wrappers(ck):
    """A log with plain messages, a gap, and gzip wrappers of both formats at non-zero offsets."""
    c = Cluster(brokers=2, rng=random.Random(2))
    c.add_topic("t", partitions=1)
    c.append("t", 0, [b"a0", b"a1"])
    c.append("t", 0, [b"g0", b"g1", b"g2"], magic=0, codec="gzip")
    c.log_of("t", 0).skip(3)
    c.append("t", 0, [b"h0", None, b""], magic=1, codec="gzip", keys=[b"k", None, b""])
    c.append("t", 0, [b"z"], magic=1)
    c.append("t", 0, [b"w0", b"w1"], magic=1, codec="gzip", offsets=[20, 25])
    truth = c.log_of("t", 0).messages()
    rec = Recorder(c)
    with Determinism(c, 2):
        cl = make_client(c)
        co = make_consumer(cl, "t", 0, rec, name="c", buffer_size=4096)
        rec.call("start", co.start, 0)
        c.advance(2.0)
        # start in the middle of a wrapper: inner messages below the start offset must be skipped
        co2 = make_consumer(cl, "t", 0, rec, name="mid")
        rec.call("start-mid", co2.start, 9)
        c.advance(2.0)
    _no_violations(ck, c)
    got = [(o, k, v) for _, _, o, k, v in rec.delivered("c")]
    ck(got == [(m[0], m[1], m[2]) for m in truth], "delivered %s\n      log %s" % (got, [(m[0], m[1], m[2]) for m in truth]))
    got2 = [(o, k, v) for _, _, o, k, v in rec.delivered("mid")]
    ck(got2 == [(m[0], m[1], m[2]) for m in truth if m[0] >= 9], "mid-wrapper start delivered %s" % (got2,))
    return "%d messages, offsets %s" % (len(truth), [m[0] for m in truth])


@scenario
def commit_and_resume(ck):
    """Consume, commit, stop; a second consumer of the group resumes right after the committed offset."""
    c = Cluster(brokers=3, rng=random.Random(3))
    c.add_topic("t", partitions=1)
    c.append("t", 0, [b"m%d" % i for i in range(10)])
    rec = Recorder(c)
    with Determinism(c, 3):
        cl = make_client(c)
        co = make_consumer(cl, "t", 0, rec, name="first", consumer_group="g", auto_commit_every_n=0, auto_commit_every_ms=0)
        rec.call("start1", co.start, -2)
        c.advance(1.0)
        rec.call("commit1", co.commit)
        c.advance(1.0)
        rec.call("stop1", co.stop)
        c.advance(0.5)
        c.append("t", 0, [b"n0", b"n1"])
        co2 = make_consumer(cl, "t", 0, rec, name="second", consumer_group="g", auto_commit_every_n=0, auto_commit_every_ms=0)
        rec.call("start2", co2.start, -101)
        c.advance(1.0)
        rec.call("shutdown2", co2.shutdown)
        c.advance(1.0)
    _no_violations(ck, c)
    ck([o for _, _, o, _, _ in rec.delivered("first")] == list(range(10)), "first consumer got %s" % [o for _, _, o, _, _ in rec.delivered("first")])
    ck(c.commits and c.commits[0]["offset"] == 9, "first commit %r" % (c.commits[:1],))
    o = rec.outcome("commit1")
    ck(o is not None and o["ok"] and o["result"] == 9, "commit1 outcome %r" % (o,))
    o = rec.outcome("start1")
    ck(o is not None and o["ok"] and o["result"] == 9, "start1 should fire with the last processed offset 9: %r" % (o,))
    ck([o_ for _, _, o_, _, _ in rec.delivered("second")] == [10, 11], "second consumer got %s" % [o_ for _, _, o_, _, _ in rec.delivered("second")])
    ck(c.committed("g", "t", 0) == 11, "after shutdown committed %r" % c.committed("g", "t", 0))
    o = rec.outcome("shutdown2")
    ck(o is not None and o["ok"], "shutdown2 outcome %r" % (o,))
    return "commits %s" % [x["offset"] for x in c.commits]


@scenario
def two_members_rebalance(ck):
    """Two ConsumerGroup members: the second join triggers a rebalance; partitions are split; leaving
    hands everything back to the survivor; commits carry the member's current generation."""
    c = Cluster(brokers=3, rng=random.Random(4))
    c.add_topic("t", partitions=4)
    for p in range(4):
        c.append("t", p, [b"p%d-%d" % (p, i) for i in range(5)])
    rec = Recorder(c)
    kw = dict(session_timeout_ms=6000, heartbeat_interval_ms=500, retry_backoff_ms=100,
              consumer_kwargs=dict(auto_commit_every_n=1, auto_commit_every_ms=0))  # fmt: skip
    with Determinism(c, 4):
        cl_a, cl_b = make_client(c, clientId="A"), make_client(c, clientId="B")
        a = make_group_member(cl_a, "g", ["t"], rec, name="A", **kw)
        b = make_group_member(cl_b, "g", ["t"], rec, name="B", **kw)
        rec.call("start:A", a.start)
        c.advance(3.0)
        ck(sorted(cons.partition for cons in a.consumers.get("t", [])) == [0, 1, 2, 3], "A alone should own all 4: %s" % a.consumers)
        rec.call("start:B", b.start)
        c.advance(5.0)
        pa = sorted(cons.partition for cons in a.consumers.get("t", []))
        pb = sorted(cons.partition for cons in b.consumers.get("t", []))
        ck(sorted(pa + pb) == [0, 1, 2, 3] and len(pa) == 2 and len(pb) == 2, "after rebalance A=%s B=%s" % (pa, pb))
        g = c.group("g")
        ck(g.state == "Stable" and len(g.members) == 2, "group %r" % (g.snapshot(),))
        ck(a.generation_id == g.generation == b.generation_id, "generations A=%s B=%s coordinator=%s" % (a.generation_id, b.generation_id, g.generation))
        for p in range(4):
            c.append("t", p, [b"late-%d" % p])
        c.advance(2.0)
        rec.call("stop:B", b.stop)
        c.advance(5.0)
        pa = sorted(cons.partition for cons in a.consumers.get("t", []))
        ck(pa == [0, 1, 2, 3], "after B left A owns %s" % pa)
        c.advance(2.0)
    _no_violations(ck, c)
    # every partition's messages were delivered exactly once, in order, across the two members
    for p in range(4):
        offs = [o for t, pp, o, _, _ in rec.delivered() if pp == p]
        ck(offs == list(range(6)), "t/%d delivered offsets %s" % (p, offs))
    bad = [x for x in c.commits if x["generation"] < 1 or not x["member"]]
    ck(not bad, "commits without group identity: %s" % bad[:2])
    ck(all(e["response"] is None or all(pp["error_code"] == 0 for tt in e["response"]["topics"] for pp in tt["partitions"]) for e in c.requests("OffsetCommit")), "a commit was rejected")
    o = rec.outcome("stop:B")
    ck(o is not None and o["ok"], "stop:B outcome %r" % (o,))
    return "generations %s" % [h["generation"] for h in c.group("g").history]


@scenario
def group_coordinator_move_and_eviction(ck):
    """A real ConsumerGroup member survives a coordinator move (NotCoordinator on the heartbeat, look-up,
    rejoin) and an eviction (heartbeats swallowed until the session expires -> UnknownMemberId -> fresh
    join); consumption continues without loss or duplicates."""
    c = Cluster(brokers=3, rng=random.Random(12))
    c.add_topic("t", partitions=2)
    c.set_coordinator("g", 1)
    for p in range(2):
        c.append("t", p, [b"a%d" % p])
    rec = Recorder(c)
    with Determinism(c, 12):
        cl = make_client(c, timeout=3000)
        m = make_group_member(cl, "g", ["t"], rec, name="M", session_timeout_ms=3000, heartbeat_interval_ms=500,
                              retry_backoff_ms=100, fatal_backoff_ms=1000,
                              consumer_kwargs=dict(auto_commit_every_n=1, auto_commit_every_ms=0))  # fmt: skip
        rec.call("start", m.start)
        c.advance(3.0)
        gen0, mid0 = m.generation_id, m.member_id
        ck(c.group("g").state == "Stable" and gen0 == 1, "initial %r" % (c.group("g").snapshot(),))
        c.move_coordinator("g", 2)
        c.advance(5.0)
        ck(c.group("g").state == "Stable" and m.member_id == mid0 and m.generation_id == c.group("g").generation, "after the move: member %r gen %r vs %r" % (m.member_id, m.generation_id, c.group("g").snapshot()))
        ck(any(e["broker"] == 2 for e in c.requests("Heartbeat")), "no heartbeat reached the new coordinator")
        for p in range(2):
            c.append("t", p, [b"b%d" % p])
        c.advance(2.0)
        f = c.inject("silent", api="Heartbeat", times=None, block=False)
        c.advance(6.0)
        ck(any(e["event"] == "session-expired" for e in c.log if e["kind"] == "group"), "the session did not expire")
        f.cancel()
        c.advance(15.0)
        g = c.group("g")
        ck(g.state == "Stable" and list(g.members) == [m.member_id] and m.member_id != mid0, "after eviction: %r, member %r (was %r)" % (g.snapshot(), m.member_id, mid0))
        for p in range(2):
            c.append("t", p, [b"c%d" % p])
        c.advance(3.0)
        rec.call("stop", m.stop)
        c.advance(5.0)
    _no_violations(ck, c)
    for p in range(2):
        offs = [o for _, pp, o, _, _ in rec.delivered() if pp == p]
        ck.afkak(offs == [0, 1, 2], "t/%d delivered offsets %s (expected 0,1,2 once each)" % (p, offs))
    hooks = [(e["hook"], e["generation"]) for e in rec.events if e["kind"] == "group-hook"]
    ck(("group_leave", 1) in hooks or any(h == "group_leave" for h, _ in hooks), "no group_leave hook on eviction: %s" % hooks)
    o = rec.outcome("stop")
    ck(o is not None and o["ok"], "stop %r" % (o,))
    return "hooks %s" % hooks


@scenario
def leader_move_during_produce(ck):
    """Leadership of a partition moves while a producer is sending; the old leader answers
    NotLeaderForPartition; every send must end up acknowledged and in the new leader's log once."""
    steps = [{"do": "producer", "name": "p0", "max_req_attempts": 6, "retry_interval": 0.1}]
    for i in range(6):
        steps.append({"at": 0.2 * i, "do": "send", "topic": "t", "key": b"k", "msgs": [b"v%d" % i], "label": "s%d" % i})
    steps.append({"at": 0.5, "do": "move_leader", "topic": "t", "partition": 0, "new": 2})
    run = run_scenario({"seed": 5, "cluster": {"brokers": 3, "topics": [{"name": "t", "partitions": 1, "leaders": [1]}]},
                        "steps": steps, "until": 30})  # fmt: skip
    c, rec = run.cluster, run.rec
    ck(run.error is None, "error %r" % run.error)
    _no_violations(ck, c)
    vals = [m[2] for m in c.log_of("t", 0).messages()]
    ck(vals == [b"v%d" % i for i in range(6)], "log %s" % vals)
    for i in range(6):
        o = rec.outcome("s%d" % i)
        ck(o is not None and o["ok"] and o["result"][3] == 0, "s%d outcome %r" % (i, o))
    rejected = [e for e in c.requests("Produce") if any(a["error"] == 6 for a in e["applied"])]
    ck(rejected and all(e["broker"] == 1 for e in rejected), "expected NotLeader answers from broker 1: %s" % len(rejected))
    ck(any(e["broker"] == 2 for e in c.requests("Produce")), "no produce reached the new leader")
    return "%d produce requests, %d rejected by the old leader" % (len(c.requests("Produce")), len(rejected))


@scenario
def client_close(ck):
    """Close the client with a fetch long-poll and a produce in flight: pending operations fail, the
    close Deferred fires, connections go away and nothing connects or writes afterwards."""
    c = Cluster(brokers=2, rng=random.Random(6))
    c.add_topic("t", partitions=2)
    c.inject("silent", api="Produce", times=None)
    rec = Recorder(c)
    with Determinism(c, 6):
        cl = make_client(c)
        p = make_producer(cl)
        co = make_consumer(cl, "t", 1, rec, name="c", fetch_max_wait_time=5000)
        rec.call("start", co.start, 0)
        rec.watch(p.send_messages("t", key=b"k", msgs=[b"x"]), "send")
        c.advance(1.0)
        ck(len([b for bk in c.brokers.values() for b in bk.open_conns()]) >= 1, "no open connections before close")
        rec.call("stop-consumer", co.stop)
        rec.call("stop-producer", p.stop)
        rec.call("close", cl.close)
        c.advance(1.0)
        n_log = len(c.log)
        rec.watch(cl.load_metadata_for_topics("t"), "after-close")
        c.advance(30.0)
    _no_violations(ck, c)
    o = rec.outcome("close")
    ck(o is not None and o["ok"], "close outcome %r" % (o,))
    o = rec.outcome("send")
    ck(o is not None and not o["ok"], "send in flight at close should fail: %r" % (o,))
    o = rec.outcome("after-close")
    ck(o is not None and not o["ok"], "operation after close should fail: %r" % (o,))
    later = [e for e in c.log[n_log:] if e["kind"] in ("connect", "request")]
    ck(not later, "activity after close: %s" % [(e["kind"], e.get("api")) for e in later])
    ck(not [b for bk in c.brokers.values() for b in bk.open_conns()], "connections still open after close")
    ck(c.next_timer() is None, "timers left after close: %s" % c.world.delayed())
    return "close fired; %d events afterwards" % len(later)


@scenario
def big_message_grows_buffer(ck):
    """A message larger than the fetch buffer arrives truncated (as Kafka sends it); the consumer must
    enlarge its buffer and deliver it, not skip it."""
    c = Cluster(brokers=1, rng=random.Random(7))
    c.add_topic("t", partitions=1)
    big = bytes(range(256)) * 40
    c.append("t", 0, [b"small", big, b"after"])
    rec = Recorder(c)
    with Determinism(c, 7):
        cl = make_client(c)
        co = make_consumer(cl, "t", 0, rec, name="c", buffer_size=512, max_buffer_size=1 << 20)
        rec.call("start", co.start, 0)
        c.advance(3.0)
    _no_violations(ck, c)
    got = [(o, v) for _, _, o, _, v in rec.delivered("c")]
    ck(got == [(0, b"small"), (1, big), (2, b"after")], "delivered offsets %s" % [o for o, _ in got])
    trunc = [a for e in c.requests("Fetch") for a in e["applied"] if a["partial_tail"]]
    ck(trunc, "no truncated fetch answer was produced")
    return "%d truncated answers, final buffer %d" % (len(trunc), co.buffer_size)


@scenario
def api_version_tables(ck):
    """Version discovery against: a permuted table, a table with an error code, an old broker that
    closes the connection, an old broker that never answers.  Produce + fetch must work in each."""
    out = []
    for name in ("sorted", "permuted", "error35", "old-close", "old-ignore"):
        # an old broker CLOSES the connection on the unknown ApiVersions key and afkak reconnects at once,
        # without back-off, until the request times out: with a zero-latency network that never ends
        # (Livelock), so this variant gets a connection latency
        c = Cluster(brokers=1, rng=random.Random(8), connect_delay=0.05 if name == "old-close" else 0)
        c.add_topic("t", partitions=1)
        b = c.broker(1)
        if name == "permuted":
            t = list(b.api_versions)
            random.Random(1).shuffle(t)
            b.api_versions = t
        elif name == "error35":
            b.api_versions_error = 35
        elif name == "old-close":
            b.api_versions, b.max_magic = None, 0
        elif name == "old-ignore":
            b.api_versions, b.max_magic, b.old_broker_mode = None, 0, "ignore"
        rec = Recorder(c)
        with Determinism(c, 8):
            cl = make_client(c, timeout=2000)
            p = make_producer(cl)
            rec.watch(p.send_messages("t", msgs=[b"one"]), "send1")
            c.advance(30.0)
            rec.watch(p.send_messages("t", msgs=[b"two"]), "send2")
            c.advance(5.0)
            co = make_consumer(cl, "t", 0, rec, name="c")
            rec.call("start", co.start, 0)
            c.advance(5.0)
        vs = sorted({(e["api"], e["version"]) for e in c.requests() if e["api"] in ("Produce", "Fetch")})
        o1, o2 = rec.outcome("send1"), rec.outcome("send2")
        vals = [m[2] for m in c.log_of("t", 0).messages()]
        ck(o2 is not None and o2["ok"], "%s: second send %r" % (name, o2 and o2["result"]))
        first_batch = [m["magic"] for e in c.requests("Produce")[:1] for t in e["request"]["topics"] for pp in t["partitions"] for m in pp["messages"]]
        first_ver = [e["version"] for e in c.requests("Produce")[:1]]
        # The producer picks the message format from client._api_versions BEFORE discovery has run
        # (None != 0 -> format 1); when discovery then falls back to version 0 the first batch goes out
        # as format-1 messages inside a Produce v0 request, which a pre-0.10 broker cannot store.
        ck.afkak(
            o1 is not None and o1["ok"] and vals == [b"one", b"two"],
            "%s: first send after a failed version discovery: Produce v%s carrying message format %s -> %r; log %s"
            % (name, first_ver, first_batch, o1 and o1["result"], vals),
        )
        ck(vals[-1:] == [b"two"], "%s: log %s" % (name, vals))
        ck([v for _, _, _, _, v in rec.delivered("c")] == vals, "%s: consumer got %s" % (name, [v for _, _, _, _, v in rec.delivered("c")]))
        ck(not c.violations, "%s: violations %s" % (name, [(v["what"]) for v in c.violations[:2]]))
        magics = sorted({m[4] for m in c.log_of("t", 0).messages()})
        out.append("%s:%s magic%s" % (name, ["%s%d" % (a[0], v) for a, v in vs], magics))
    return "; ".join(out)


@scenario
def faults_drop_and_chunks(ck):
    """Mid-frame drop of a produce answer, a dropped connection before applying, delayed answers and
    randomly chunked delivery: every send is eventually acknowledged; the log has no loss."""
    c = Cluster(brokers=2, rng=random.Random(9), chunk_rng=random.Random(9))
    c.add_topic("t", partitions=1, leaders=[1])
    c.inject("drop_mid", api="Produce", nth=2, fraction=0.6)
    c.inject("drop_before", api="Produce", nth=3)
    c.inject("delay", api="Produce", nth=1, seconds=0.7)
    rec = Recorder(c)
    with Determinism(c, 9):
        cl = make_client(c)
        p = make_producer(cl, max_req_attempts=8, retry_interval=0.1)
        for i in range(5):
            rec.watch(p.send_messages("t", msgs=[b"v%d" % i]), "s%d" % i)
            c.advance(0.5)
        c.advance(20.0)
    _no_violations(ck, c)
    for i in range(5):
        o = rec.outcome("s%d" % i)
        ck(o is not None and o["ok"], "s%d outcome %r" % (i, o))
    vals = [m[2] for m in c.log_of("t", 0).messages()]
    ck(set(vals) == {b"v%d" % i for i in range(5)}, "log %s" % vals)
    fates = [e["fate"] for e in c.requests("Produce")]
    ck("dropped-mid" in fates and "dropped-before" in fates, "fates %s" % fates)
    dup = len(vals) - len(set(vals))
    return "fates %s; %d duplicate writes (at-least-once after a lost answer)" % (fates, dup)


@scenario
def acks_zero(ck):
    """acks=0: the broker applies and never answers; the send Deferred fires once the request is written."""
    run = run_scenario({
        "seed": 10, "cluster": {"brokers": 1, "topics": {"t": 1}},
        "steps": [{"do": "producer", "name": "p0", "req_acks": 0},
                  {"do": "send", "topic": "t", "msgs": [b"a", b"b"], "label": "s"}],
        "until": 10,
    })  # fmt: skip
    c, rec = run.cluster, run.rec
    _no_violations(ck, c)
    o = rec.outcome("s")
    ck(o is not None and o["ok"] and o["result"] is None, "outcome %r" % (o,))
    pr = c.requests("Produce")
    ck(len(pr) == 1 and pr[0]["fate"] == "no-response" and pr[0]["response"] is None, "produce entries %s" % [(e["fate"]) for e in pr])
    ck([m[2] for m in c.log_of("t", 0).messages()] == [b"a", b"b"], "log")
    return "fate %s" % pr[0]["fate"]


@scenario
def refcodec_agrees_with_cluster_log(ck):
    """Cross-check: what the fetch answers carried (decoded by refcodec) equals the ground-truth log."""
    c = Cluster(brokers=1, rng=random.Random(11))
    c.add_topic("t", partitions=1)
    c.append("t", 0, [b"a", b"b"], magic=1, codec="gzip")
    c.append("t", 0, [b"c"])
    rec = Recorder(c)
    with Determinism(c, 11):
        cl = make_client(c, enable_protocol_version_discovery=False)
        co = make_consumer(cl, "t", 0, rec, name="c")
        rec.call("start", co.start, 0)
        c.advance(1.0)
    e = [x for x in c.requests("Fetch") if x["response"] and x["response"]["topics"][0]["partitions"][0]["record_set"]][0]
    ck(e["version"] == 0, "discovery disabled should use Fetch v0, got v%d" % e["version"])
    deep = R.decode_message_set_deep(e["response"]["topics"][0]["partitions"][0]["record_set"], allow_partial=True)
    ck(all(m["magic"] == 0 for m in deep), "Fetch v0 must be down-converted to format 0")
    ck([(m["offset"], m["value"]) for m in deep] == [(0, b"a"), (1, b"b"), (2, b"c")], "decoded %s" % deep)
    ck([(o, v) for _, _, o, _, v in rec.delivered("c")] == [(0, b"a"), (1, b"b"), (2, b"c")], "delivered %s" % rec.delivered("c"))
    return "fetch v0 down-converted"


# --------------------------------------------------------------------------- the cluster by itself


def _sub(topics):
    return [{"name": "consumer", "metadata": R.encode_subscription(0, topics, b"")}]


def _join(rc, group, member="", timeout=1000, topics=("t",)):
    return rc.send("JoinGroup", 0, {"group_id": group, "session_timeout": timeout, "member_id": member,
                                    "protocol_type": "consumer", "group_protocols": _sub(list(topics))})  # fmt: skip


@scenario
def raw_group_coordinator(ck):
    """The coordinator alone (refcodec RawClient members): generations, parked joins, heartbeat 27 during
    a rebalance, rebalance timeout dropping a member, session expiry, commit fencing, coordinator move."""
    c = Cluster(brokers=2, rng=random.Random(20))
    c.add_topic("t", partitions=2)
    c.set_coordinator("g", 1)
    a, b = RawClient(c, "A").connect(1), RawClient(c, "B").connect(1)
    c.settle()
    ja = _join(a, "g")
    c.settle()
    ra = a.responses.get(ja)
    if not ck(ra is not None and ra["error_code"] == 0 and ra["generation_id"] == 1 and ra["leader_id"] == ra["member_id"] and len(ra["members"]) == 1, "first join %r" % (ra,)):
        return
    ma = ra["member_id"]
    asg = R.encode_assignment(0, {"t": [0, 1]}, b"")
    rs = a.call("SyncGroup", 0, {"group_id": "g", "generation_id": 1, "member_id": ma, "group_assignment": [{"member_id": ma, "assignment": asg}]})
    ck(rs == {"error_code": 0, "assignment": asg}, "sync %r" % (rs,))
    ck(a.call("Heartbeat", 0, {"group_id": "g", "generation_id": 1, "member_id": ma}) == {"error_code": 0}, "heartbeat in Stable")
    ck(a.call("Heartbeat", 0, {"group_id": "g", "generation_id": 7, "member_id": ma}) == {"error_code": 22}, "heartbeat with a wrong generation")
    ck(a.call("Heartbeat", 0, {"group_id": "g", "generation_id": 1, "member_id": "nobody"}) == {"error_code": 25}, "heartbeat of an unknown member")
    # commits: fenced by generation and member
    def commit(rc, gen, member, off):
        r = rc.call("OffsetCommit", 1, {"group_id": "g", "generation_id": gen, "member_id": member, "topics": [{"topic": "t", "partitions": [{"partition": 0, "offset": off, "timestamp": -1, "metadata": None}]}]})
        return r["topics"][0]["partitions"][0]["error_code"]
    ck(commit(a, 1, ma, 5) == 0 and c.committed("g", "t", 0) == 5, "commit by the member")
    ck(commit(a, 2, ma, 6) == 22 and commit(a, 1, "zombie", 6) == 25 and commit(a, -1, "", 6) == 25, "fencing")
    ck(c.committed("g", "t", 0) == 5, "a fenced commit was stored")
    # B joins: parked until A rejoins; A learns through its heartbeat
    jb = _join(b, "g")
    c.settle()
    ck(jb not in b.responses and c.group("g").state == "PreparingRebalance", "B's join should be parked: %r" % (b.responses.get(jb),))
    ck(a.call("Heartbeat", 0, {"group_id": "g", "generation_id": 1, "member_id": ma}) == {"error_code": 27}, "heartbeat during the rebalance")
    ck(commit(a, 1, ma, 7) == 0, "commit during PreparingRebalance is still accepted")
    ja2 = _join(a, "g", ma)
    c.settle()
    ra2, rb = a.responses.get(ja2), b.responses.get(jb)
    if not ck(ra2 and rb and ra2["generation_id"] == rb["generation_id"] == 2 and ra2["leader_id"] == ma == rb["leader_id"] and len(ra2["members"]) == 2 and rb["members"] == [], "second generation %r / %r" % (ra2, rb)):
        return
    mb = rb["member_id"]
    ck(commit(a, 2, ma, 8) == 27, "commit in AwaitingSync -> RebalanceInProgress")
    sb = b.send("SyncGroup", 0, {"group_id": "g", "generation_id": 2, "member_id": mb, "group_assignment": []})
    c.settle()
    ck(sb not in b.responses, "follower sync must wait for the leader")
    a0, a1 = R.encode_assignment(0, {"t": [0]}), R.encode_assignment(0, {"t": [1]})
    a.call("SyncGroup", 0, {"group_id": "g", "generation_id": 2, "member_id": ma, "group_assignment": [{"member_id": ma, "assignment": a0}, {"member_id": mb, "assignment": a1}]})
    ck(b.responses.get(sb) == {"error_code": 0, "assignment": a1}, "follower assignment %r" % (b.responses.get(sb),))
    # coordinator moves: the old one says NOT_COORDINATOR, FindCoordinator points at the new one
    c.move_coordinator("g", 2)
    ck(a.call("Heartbeat", 0, {"group_id": "g", "generation_id": 2, "member_id": ma}) == {"error_code": 16}, "old coordinator")
    fc = a.call("FindCoordinator", 0, {"group_id": "g"})
    ck(fc["error_code"] == 0 and fc["node_id"] == 2, "find coordinator %r" % (fc,))
    a2 = RawClient(c, "A").connect(2)
    c.settle()
    ck(a2.call("Heartbeat", 0, {"group_id": "g", "generation_id": 2, "member_id": ma}) == {"error_code": 0}, "new coordinator keeps the group")
    # B stops heartbeating: its session (1 s) expires, A's next heartbeat says rebalance, A alone -> generation 3
    for _ in range(4):
        c.advance(0.4)
        r = a2.call("Heartbeat", 0, {"group_id": "g", "generation_id": 2, "member_id": ma})
    ck(r == {"error_code": 27} and list(c.group("g").members) == [ma], "after B's session expired: %r members %s" % (r, list(c.group("g").members)))
    j3 = _join(a2, "g", ma)
    c.settle()
    ck(a2.responses.get(j3, {}).get("generation_id") == 3, "generation after expiry %r" % (a2.responses.get(j3),))
    # rebalance timeout: a member that never rejoins is dropped when the window closes
    c.rebalance_timeout = 2.0
    a2.call("SyncGroup", 0, {"group_id": "g", "generation_id": 3, "member_id": ma, "group_assignment": [{"member_id": ma, "assignment": asg}]})
    b2 = RawClient(c, "B").connect(2)
    c.settle()
    jb2 = _join(b2, "g", timeout=5000)
    for _ in range(3):  # A keeps heartbeating (so it does not expire) but never rejoins
        c.advance(0.5)
        a2.call("Heartbeat", 0, {"group_id": "g", "generation_id": 3, "member_id": ma})
    ck(jb2 not in b2.responses, "join answered before the rebalance timeout")
    c.advance(1.0)
    rb2 = b2.responses.get(jb2)
    ck(rb2 is not None and rb2["generation_id"] == 4 and rb2["leader_id"] == rb2["member_id"] and len(rb2["members"]) == 1, "after the rebalance timeout %r" % (rb2,))
    ck(a2.call("Heartbeat", 0, {"group_id": "g", "generation_id": 3, "member_id": ma}) == {"error_code": 25}, "the dropped member is unknown now")
    # leave: the group empties
    ck(b2.call("LeaveGroup", 0, {"group_id": "g", "member_id": rb2["member_id"]}) == {"error_code": 0}, "leave")
    ck(c.group("g").state == "Empty" and c.group("g").generation == 5, "group after leave %r" % (c.group("g").snapshot(),))
    ck(commit(b2, -1, "", 9) == 0 and c.committed("g", "t", 0) == 9, "simple-consumer commit on an empty group")
    ck(not c.violations, "violations %s" % c.violations)
    return "generations %s" % [h["generation"] for h in c.group("g").history]


@scenario
def raw_join_window_and_hold(ck):
    """Join window in virtual time, and explicit control of when a rebalance completes."""
    c = Cluster(brokers=1, rng=random.Random(22))
    c.add_topic("t", partitions=1)
    c.join_window = 3.0
    a, b = RawClient(c, "A").connect(1), RawClient(c, "B").connect(1)
    c.settle()
    ja = _join(a, "g", timeout=10000)
    c.advance(1.0)
    jb = _join(b, "g", timeout=10000)
    c.advance(1.9)
    ck(ja not in a.responses and jb not in b.responses, "joins answered inside the window")
    c.advance(0.2)
    ra, rb = a.responses.get(ja), b.responses.get(jb)
    ck(ra and rb and ra["generation_id"] == rb["generation_id"] == 1 and len(ra["members"]) == 2, "window close: %r %r" % (ra, rb))
    e = c.requests("JoinGroup")[0]
    ck(abs(e["t_sent"] - 3.0) < 1e-9 and e["fate"] == "answered", "first join answered at %r" % (e["t_sent"],))
    # explicit control
    c.join_window = 0.0
    g2 = c.group("h")
    g2.hold = True
    x, y = RawClient(c, "X").connect(1), RawClient(c, "Y").connect(1)
    c.settle()
    jx, jy = _join(x, "h", timeout=2000), _join(y, "h", timeout=2000)
    c.advance(30.0)
    ck(jx not in x.responses and jy not in y.responses and g2.state == "PreparingRebalance", "held joins were answered: %s" % g2.snapshot())
    c.complete_join("h")
    c.settle()
    ck(x.responses.get(jx, {}).get("generation_id") == 1 and y.responses.get(jy, {}).get("generation_id") == 1, "after complete_join %r" % (x.responses.get(jx),))
    return "window + hold"


@scenario
def raw_fetch_produce_mechanics(ck):
    """Long poll (min_bytes/max_wait) completed by an append or by time, per-connection ordering behind a
    parked request, max_bytes truncation to the byte, out-of-range, refuse / black hole / restart at a
    new address, a strictly rejected frame."""
    c = Cluster(brokers=2, rng=random.Random(21))
    c.add_topic("t", partitions=1, leaders=[1])
    rc = RawClient(c).connect(1)
    c.settle()

    def fetch(off, max_bytes=1 << 20, min_bytes=1, wait=500, v=2):
        return rc.send("Fetch", v, {"replica_id": -1, "max_wait_time": wait, "min_bytes": min_bytes, "topics": [{"topic": "t", "partitions": [{"partition": 0, "fetch_offset": off, "max_bytes": max_bytes}]}]})

    def part(corr):
        r = rc.responses.get(corr)
        return None if r is None else r["topics"][0]["partitions"][0]

    f1 = fetch(0)
    md = rc.send("Metadata", 0, {"topics": []})
    c.advance(0.2)
    ck(part(f1) is None and md not in rc.responses, "an empty log must park the fetch and what is queued behind it")
    c.append("t", 0, [b"hello"])
    c.settle()
    p1 = part(f1)
    ck(p1 is not None and p1["high_watermark"] == 1 and [m["value"] for m in R.decode_message_set(p1["record_set"])] == [b"hello"], "append should complete the long poll: %r" % (p1,))
    ck(md in rc.responses and list(rc.responses) == [f1, md], "answers must come in request order: %s" % list(rc.responses))
    t0 = c.now()
    f2 = fetch(1, wait=300)
    c.advance(0.29)
    ck(part(f2) is None, "answered before max_wait")
    c.advance(0.02)
    ck(part(f2) is not None and part(f2)["record_set"] == b"" and part(f2)["error_code"] == 0, "max_wait expiry answers empty: %r" % (part(f2),))
    e = c.requests("Fetch")[-1]
    ck(abs(e["t_sent"] - (t0 + 0.3)) < 1e-9, "long poll answered at %r, expected %r" % (e["t_sent"], t0 + 0.3))
    # truncation to the byte
    c.append("t", 0, [b"x" * 100, b"y" * 100])
    whole = c.log_of("t", 0).read(0, 1 << 20)
    for mx in (0, 1, 11, 12, 30, len(whole) - 1, len(whole)):
        corr = fetch(0, max_bytes=mx, min_bytes=0, wait=0)
        c.settle()
        pf = part(corr)
        ck(pf is not None and pf["record_set"] == whole[:mx], "max_bytes=%d gave %d bytes" % (mx, len(pf["record_set"]) if pf else -1))
    oor = fetch(99, wait=0)
    c.settle()
    ck(part(oor)["error_code"] == 1, "offset beyond the end -> OffsetOutOfRange")
    c.log_of("t", 0).trim(2)
    oor = fetch(0, wait=0)
    c.settle()
    ck(part(oor)["error_code"] == 1, "offset below the log start -> OffsetOutOfRange")
    lo = rc.call("ListOffsets", 0, {"replica_id": -1, "topics": [{"topic": "t", "partitions": [{"partition": 0, "timestamp": -2, "max_num_offsets": 1}]}]})
    ck(lo["topics"][0]["partitions"][0]["offsets"] == [2], "earliest after trim %r" % (lo,))
    # produce to the wrong broker / unknown partition
    ms = R.encode_message_set([R.message(b"v")])
    other = RawClient(c).connect(2)
    c.settle()
    pr = other.call("Produce", 0, {"acks": 1, "timeout": 100, "topics": [{"topic": "t", "partitions": [{"partition": 0, "record_set": ms}, {"partition": 5, "record_set": ms}]}]})
    ck([x["error_code"] for x in pr["topics"][0]["partitions"]] == [6, 3], "produce errors %r" % (pr,))
    # a frame that does not parse: recorded, connection closed
    other.send_raw(bytes.fromhex("0003" "0000" "00000063" "0001" "78" "00000001" "0005" "7474"))
    c.settle()
    ck(other.closed and len(c.violations) == 1 and c.violations[0]["what"].startswith("malformed Metadata"), "violation handling: closed=%s %s" % (other.closed, [v["what"] for v in c.violations]))
    # trailing bytes: recorded, still served (a real broker ignores them)
    rc.send_raw(R.encode_request(3, 0, 1000, "x", {"topics": []}) + b"\0\0")
    rc.sent[1000] = (3, 0)
    c.settle()
    ck(1000 in rc.responses and len(c.violations) == 2 and "trailing" in c.violations[1]["what"], "lenient handling of trailing bytes")
    # refuse / black hole / restart elsewhere
    c.broker(2).mode = "refuse"
    r1 = RawClient(c).connect(2)
    c.broker(1).mode = "blackhole"
    r2 = RawClient(c).connect(1)
    c.advance(5.0)
    ck(r1.failed == "ConnectionRefusedError" and r2.failed is None and r2.proto is None, "refuse=%s blackhole=%s/%s" % (r1.failed, r2.failed, r2.proto))
    c.broker(1).mode = "accept"
    c.restart_broker(1, host="elsewhere.sim", port=19092)
    c.settle()
    ck(rc.closed, "restart must drop the connections")
    r3, r4 = RawClient(c).connect(host="kafka1.sim", port=9092), RawClient(c).connect(1)
    c.settle()
    ck(r3.failed == "ConnectionRefusedError" and r4.proto is not None, "old address %s, new address %s" % (r3.failed, r4.proto))
    mdr = r4.call("Metadata", 0, {"topics": ["t", "nope"]})
    ck({"node_id": 1, "host": "elsewhere.sim", "port": 19092} in mdr["brokers"] and [t["error_code"] for t in mdr["topics"]] == [0, 3], "metadata %r" % (mdr,))
    return "%d log entries" % len(c.log)


# --------------------------------------------------------------------------- random scripts


def random_script(rng, seed):
    """A producer and two consumers under a random mix of faults, leader moves and broker bounces."""
    steps = [
        {"do": "producer", "name": "p0", "max_req_attempts": rng.choice([3, 6, 10]), "retry_interval": 0.1,
         "req_acks": rng.choice([1, 1, -1]), "batch_send": rng.random() < 0.4, "batch_every_n": rng.choice([2, 5]),
         "batch_every_t": 0.5, "codec": rng.choice([None, None, 1])},
        {"do": "consumer", "name": "c0", "topic": "t", "partition": 0, "behaviour": rng.choice(["sync", ("async", 0.05)]),
         "buffer_size": rng.choice([256, 4096, 131072]), "fetch_max_wait_time": rng.choice([50, 100, 500]),
         "auto_offset_reset": -2},
        {"do": "consumer", "name": "c1", "topic": "t", "partition": 1, "behaviour": "sync", "consumer_group": "g",
         "auto_commit_every_n": rng.choice([1, 3]), "auto_commit_every_ms": rng.choice([0, 500])},
        {"at": rng.choice([0.0, 0.3]), "do": "start", "consumer": "c0", "offset": "earliest"},
        {"at": rng.choice([0.0, 0.5]), "do": "start", "consumer": "c1", "offset": "committed"},
    ]  # fmt: skip
    n = rng.randint(5, 25)
    for i in range(n):
        steps.append({"at": round(rng.uniform(0, 8), 3), "do": "send", "topic": "t", "key": rng.choice([None, b"a", b"b", b"c"]),
                      "msgs": [b"m%d.%d" % (i, j) for j in range(rng.randint(1, 3))], "label": "s%d" % i})  # fmt: skip
    for _ in range(rng.randint(0, 6)):
        at = round(rng.uniform(0, 8), 3)
        kind = rng.choice(["error", "drop", "delay", "silent", "leader", "bounce", "readdress"])
        if kind == "error":
            api = rng.choice(["Produce", "Fetch", "Metadata", "OffsetCommit", "OffsetFetch", "ListOffsets"])
            steps.append({"at": at, "do": "inject", "action": "error", "api": api, "times": rng.randint(1, 3),
                          "code": rng.choice([3, 5, 6, 7, 14, 15, 16] if api.startswith("Offset") and api != "ListOffsets" else [3, 5, 6, 7])})  # fmt: skip
        elif kind == "drop":
            steps.append({"at": at, "do": "inject", "action": rng.choice(["drop_before", "drop_after", "drop_mid"]),
                          "api": rng.choice(["Produce", "Fetch", "Metadata", None]), "times": rng.randint(1, 2)})  # fmt: skip
        elif kind == "delay":
            steps.append({"at": at, "do": "inject", "action": "delay", "seconds": rng.choice([0.2, 1.0, 3.0]),
                          "api": rng.choice(["Produce", "Fetch"]), "times": rng.randint(1, 2)})  # fmt: skip
        elif kind == "silent":
            steps.append({"at": at, "do": "inject", "action": "silent", "api": rng.choice(["Produce", "Fetch", "Metadata"]), "times": 1})
        elif kind == "leader":
            steps.append({"at": at, "do": "move_leader", "topic": "t", "partition": rng.randint(0, 2), "new": rng.randint(1, 3),
                          "old": rng.choice(["not_leader", "unknown"])})  # fmt: skip
        elif kind == "bounce":
            node = rng.randint(1, 3)
            steps.append({"at": at, "do": "kill_broker", "node_id": node})
            steps.append({"at": at + rng.choice([0.5, 2.0]), "do": "start_broker", "node_id": node})
        else:
            node = rng.randint(1, 3)
            steps.append({"at": at, "do": "restart_broker", "node_id": node, "host": "moved%d.sim" % node, "port": 9000 + node})
    steps.append({"at": 40.0, "do": "shutdown", "consumer": "c1"})
    steps.append({"at": 40.0, "do": "stop", "consumer": "c0"})
    steps.append({"at": 41.0, "do": "stop_producer"})
    steps.append({"at": 42.0, "do": "close"})
    return {
        "seed": seed,
        "cluster": {"brokers": 3, "topics": [{"name": "t", "partitions": 3, "replicas": [[1, 2, 3]] * 3, "leaders": [1, 2, 3]}],
                    "connect_delay": rng.choice([0, 0.01]), "chunk_rng": random.Random(seed) if rng.random() < 0.5 else None},
        "client": {"timeout": 2000, "enable_protocol_version_discovery": rng.random() < 0.7},
        "steps": steps, "until": 80.0,
    }  # fmt: skip


def _dump(run):
    def clean(e):
        return repr(sorted((k, v) for k, v in e.items() if k != "frame"))

    return [clean(e) for e in run.timeline()]


@scenario
def random_faults_are_deterministic(ck):
    """Random fault scripts: the same script gives the same timeline twice; the simulator's own
    invariants hold (ordered answers per connection, increasing log offsets, every request has a fate);
    what the consumers got is what the logs hold; acknowledged sends are in the log."""
    n_scripts, n_req = 25, 0
    fates = {}
    for i in range(n_scripts):
        script = random_script(random.Random(1000 + i), 1000 + i)
        run = run_scenario(script)
        again = run_scenario(random_script(random.Random(1000 + i), 1000 + i))
        c, rec = run.cluster, run.rec
        a, b = _dump(run), _dump(again)
        if not ck(a == b, "script %d: two runs differ (first difference at event %s)" % (i, next((j for j, (x, y) in enumerate(zip(a, b)) if x != y), min(len(a), len(b))))):
            continue
        ck.afkak(run.error is None, "script %d: %r" % (i, run.error))
        ck(not c.violations, "script %d: violations %s" % (i, [v["what"] for v in c.violations[:2]]))
        by_conn = {}
        for e in c.requests():
            n_req += 1
            fates[e["fate"]] = fates.get(e["fate"], 0) + 1
            ck(e["fate"] is not None, "script %d: request without a fate %r" % (i, e["api"]))
            by_conn.setdefault(e["conn"], []).append(e)
        for conn, es in by_conn.items():
            sent = [e["t_sent"] for e in es if e["fate"] == "answered"]
            ck(sent == sorted(sent), "script %d: answers out of order on connection %d" % (i, conn))
            unanswered = [k for k, e in enumerate(es) if e["fate"] in ("silent", "parked", "delayed")]
            if unanswered:
                ck(all(e["fate"] != "answered" for e in es[unanswered[0] + 1:]), "script %d: an answer overtook a muted request on connection %d" % (i, conn))
        logs = {}
        for p in range(3):
            ms = c.log_of("t", p).messages()
            ck(all(y[0] > x[0] for x, y in zip(ms, ms[1:])), "script %d: offsets of t/%d not increasing" % (i, p))
            logs[p] = {m[0]: (m[1], m[2]) for m in ms}
        for t, p, off, k, v in rec.delivered():
            ck.afkak(logs[p].get(off) == (k, v), "script %d: consumer got (%d, %d, %r) but the log holds %r" % (i, p, off, v, logs[p].get(off)))
        for name, p in (("c0", 0), ("c1", 1)):
            offs = [o for _, _, o, _, _ in rec.delivered(name)]
            ck.afkak(all(y > x for x, y in zip(offs, offs[1:])), "script %d: %s offsets not increasing: %s" % (i, name, offs))
        for e in rec.outcomes():
            if e["label"][:1] == "s" and e["label"][1:].isdigit() and e["ok"] and e["result"] is not None:
                r = e["result"]
                ok = isinstance(r, tuple) and r[0] == "ProduceResponse" and r[3] == 0 and any(v == e["msgs"][0] and o >= r[4] for o, (k, v) in logs[r[2]].items())
                ck.afkak(ok, "script %d: %s acknowledged as %r but its message is not in the log at/after that offset" % (i, e["label"], r))
        ck.afkak(c.next_timer() is None, "script %d: timers left after close: %s" % (i, c.world.delayed()[:3]))
    return "%d scripts x2, %d requests, fates %s" % (n_scripts, n_req, dict(sorted(fates.items(), key=lambda kv: str(kv[0]))))


def main(argv):
    from harness import core

    if core.REPO not in sys.path:  # afkak comes from core.REPO (AFKAK_REPO) unless sys.path already has one
        try:
            import afkak  # noqa: F401
        except ImportError:
            sys.path.insert(0, core.REPO)
    verbose = "-v" in argv
    names = [a for a in argv if not a.startswith("-")]
    logging.disable(logging.CRITICAL)  # afkak logs failures loudly; the Recorder keeps what matters
    # Twisted prints "Unhandled error in Deferred" (a failed Deferred nobody listened to) to stderr when no
    # log observer is installed: collect them instead, they are reported as a count
    from twisted.logger import globalLogBeginner

    unhandled = []
    globalLogBeginner.beginLoggingTo([lambda ev: unhandled.append(ev) if ev.get("log_failure") is not None else None],
                                     redirectStandardIO=False, discardBuffer=True)  # fmt: skip
    t0 = time.time()
    failed = 0
    for fn in SCENARIOS:
        if names and fn.__name__ not in names:
            continue
        ck = Check()
        t1 = time.time()
        try:
            detail = fn(ck)
        except Exception:  # noqa: BLE001
            detail = None
            ck.problems.append("crashed:\n" + traceback.format_exc())
        status = "PASS" if not ck.problems else "FAIL"
        failed += bool(ck.problems)
        print("%s %-34s %5.2fs  %s" % (status, fn.__name__, time.time() - t1, detail or ""))
        for p in ck.problems:
            print("     - " + p)
        for p in ck.afkak_notes:
            print("     ! afkak: " + p)
        if verbose and fn.__doc__:
            print("     " + " ".join(fn.__doc__.split()))
    if unhandled:
        kinds = {}
        for ev in unhandled:
            k = ev["log_failure"].type.__name__
            kinds[k] = kinds.get(k, 0) + 1
        print("note: %d failed Deferreds inside afkak were never consumed (Twisted 'Unhandled error'): %s" % (len(unhandled), kinds))
    print("%d scenario(s) failed; %.1fs" % (failed, time.time() - t0))
    return 1 if failed else 0


if __name__ == "__main__":
    sys.exit(main(sys.argv[1:]))
