"""fullstack - the REAL afkak objects (KafkaClient / Producer / Consumer / ConsumerGroup, imported from
whatever `afkak` is first on sys.path: honour core.REPO / AFKAK_REPO there) over `sim/cluster.py`.

API (small on purpose)
======================
    with Determinism(cluster, seed):           # patches the module-level externals only, restores on exit:
        ...                                    #   afkak.client.random  -> random.Random(seed)
                                               #   afkak.kafkacodec.time -> virtual clock (epoch 1.6e9 + t)
                                               #   afkak.codec.gzip     -> same GzipFile, header mtime virtual
    make_client(cluster, **kw)                 -> KafkaClient(cluster.hosts(), reactor=cluster.clock,
                                                              endpoint_factory=cluster.net, **kw)
                                                  retry_policy defaults to Twisted's backoffPolicy with the
                                                  jitter drawn from cluster.rng (the stock policy draws
                                                  from the global `random`: not replayable)
    make_producer(client, **kw)                -> Producer
    make_consumer(client, topic, partition, rec, name=None, behaviour="sync", **kw) -> Consumer whose
                                                  processor is rec.processor(name, behaviour)
    make_group_member(client, group, topics, rec, name=None, behaviour="sync", **kw) -> RecordingGroup
                                                  (a ConsumerGroup subclass that records its three hooks)
    Recorder(cluster)                          the client-visible side of the story, in virtual-time order
        .watch(d, label, **info) -> d          record how a Deferred ends (and consume a failure)
        .call(label, fn, *a, **kw)             call fn; record a synchronous raise, else watch the result
        .processor(name, behaviour)            a Consumer processor that records every invocation:
                                               offsets / keys / values delivered, whether the previous
                                               result was still pending, the consumer's commit identity
            behaviour: "sync" | "fail" | "async" (returns a Deferred; fire it with rec.finish(name) or
            give ("async", seconds) to have it fire by itself) | callable(consumer, msgs, event)
        .finish(name, result=None) / .fail(name, exc)   resolve the oldest pending async processor call
        .note(kind, **kw)                      free-form event
        .events                                [dict]: t, n (global sequence shared with cluster.log), kind,
                                               label/name, ...  kinds: "deferred", "raised", "proc",
                                               "proc-done", "group-hook", "note"
        .outcome(label) / .outcomes()          last / all recorded results of watched Deferreds
        .delivered(name=None)                  [(topic, partition, offset, key, value)] handed to processors
    canon(x)                                   canonical, JSON-able form of results and failures:
        failure -> ("fail", class name, errno | None[, detail]); afkak structs -> (class name, fields...);
        an exception INSTANCE delivered as a success value -> ("exc-object", class name)  [F6 shows here]
    timeline(cluster, rec)                     cluster.log and rec.events merged in execution order
    run_scenario(script) -> Run                scripted scenario, see below
    Run: .cluster .rec .clients .producers .consumers .members .timeline() .error (Livelock etc. | None)

run_scenario(script).  `script` is a dict:
    seed: int
    cluster: {brokers: 3 | [(id, host, port)], topics: {"t": 2, ...} | [{name, partitions, leaders, ...}],
              logs: [{topic, partition, values: [bytes|None], magic, codec, key, offsets}], + Cluster kwargs}
    client: {KafkaClient kwargs}                 the default client "c0"; more through {"do": "client"}
    steps: [{"at": virtual seconds (default: previous step's time), "do": ..., ...}], run in `at` order:
        client         name, **KafkaClient kwargs
        producer       name, client="c0", **Producer kwargs
        send           producer, topic, key, msgs, label          (Deferred recorded under `label`)
        consumer       name, client, topic, partition, behaviour, **Consumer kwargs
        start          consumer, offset: int | "earliest" | "latest" | "committed", label
        stop / shutdown / commit   consumer, label
        member         name, client, group, topics, behaviour, **ConsumerGroup kwargs
        start_member / stop_member   member, label
        finish_proc    name, result;   fail_proc  name
        close          client, label
        inject         -> cluster.inject(**rest);   clear_faults
        append         topic, partition, values, ...  -> cluster.append
        move_leader / kill_broker / start_broker / restart_broker / move_coordinator /
        remove_from_metadata / restore_to_metadata   -> the cluster method of that name (**rest)
        set            broker, attr, value                         (e.g. silent / mode / api_versions)
        call           fn(run)                                     escape hatch
    until: virtual time limit (default 60);  quiesce: stop early once no timer is pending (default True)
A Livelock (no quiescence at one virtual instant) ends the run and is stored in Run.error.
"""
import random

from twisted.internet import defer
from twisted.python.failure import Failure

from harness.sim.cluster import Cluster, Livelock

VIRTUAL_EPOCH = 1600000000.0


# --------------------------------------------------------------------------- determinism


class _VirtualTime(object):
    """Stands in for the `time` module inside afkak.kafkacodec."""

    def __init__(self, clock):
        self._clock = clock

    def time(self):
        return VIRTUAL_EPOCH + self._clock.seconds()


class _VirtualGzip(object):
    """Stands in for the `gzip` module inside afkak.codec: same GzipFile, but the header's mtime comes
    from the virtual clock instead of the wall clock (the only wall-clock dependence of the codec)."""

    def __init__(self, clock):
        self._clock = clock

    def GzipFile(self, *a, **kw):
        import gzip

        kw.setdefault("mtime", int(VIRTUAL_EPOCH + self._clock.seconds()))
        return gzip.GzipFile(*a, **kw)

    def __getattr__(self, name):
        import gzip

        return getattr(gzip, name)


class Determinism(object):
    def __init__(self, cluster, seed=0):
        self.cluster, self.seed = cluster, seed
        self._saved = None

    def install(self):
        import afkak.client
        import afkak.codec
        import afkak.kafkacodec

        self._saved = (afkak.client.random, afkak.kafkacodec.time, afkak.codec.gzip)
        afkak.client.random = random.Random(self.seed)
        afkak.kafkacodec.time = _VirtualTime(self.cluster.clock)
        afkak.codec.gzip = _VirtualGzip(self.cluster.clock)
        return self

    def restore(self):
        import afkak.client
        import afkak.codec
        import afkak.kafkacodec

        if self._saved is not None:
            afkak.client.random, afkak.kafkacodec.time, afkak.codec.gzip = self._saved
            self._saved = None

    __enter__ = install

    def __exit__(self, *a):
        self.restore()


# --------------------------------------------------------------------------- canonical results


def canon(x, depth=0):
    if depth > 6:
        return repr(x)
    if isinstance(x, Failure):
        return canon_failure(x, depth)
    if isinstance(x, BaseException):
        return ("exc-object", type(x).__name__, getattr(x, "errno", None))
    if x is None or isinstance(x, (bool, int, float, str, bytes)):
        return x
    if isinstance(x, (list, tuple)) and not hasattr(x, "_fields") and not hasattr(x, "__attrs_attrs__"):
        return [canon(y, depth + 1) for y in x]
    if isinstance(x, dict):
        return {str(k): canon(v, depth + 1) for k, v in x.items()}
    name = type(x).__name__
    if name in ("Consumer", "RecordingGroup", "ConsumerGroup", "Coordinator"):
        return (name, getattr(x, "topic", None) or getattr(x, "group_id", None), getattr(x, "partition", None))
    fields = None
    if hasattr(x, "__attrs_attrs__"):
        fields = [a.name for a in x.__attrs_attrs__]
    elif hasattr(x, "_fields"):
        fields = list(x._fields)
    elif hasattr(x, "__slots__") and not isinstance(x, defer.Deferred):
        fields = [s for s in x.__slots__ if not s.startswith("__")]
    if fields is not None:
        vals = []
        for f in fields:
            v = getattr(x, f, None)
            if name == "FetchResponse" and f == "messages":
                v = "<messages>"
            vals.append(canon(v, depth + 1))
        return tuple([name] + vals)
    return repr(x)


def canon_failure(f, depth=0):
    v = f.value
    out = ["fail", type(v).__name__, getattr(v, "errno", None)]
    if type(v).__name__ == "FailedPayloadsError" and len(v.args) >= 2:
        out.append({
            "responses": canon(v.args[0], depth + 1),
            "failed": [(canon(p, depth + 1), canon(e, depth + 1)) for p, e in v.args[1]],
        })  # fmt: skip
    elif type(v).__name__ == "CancelledError" and hasattr(v, "request_sent"):
        out.append({"request_sent": v.request_sent})
    return tuple(out)


# --------------------------------------------------------------------------- recorder


class Recorder(object):
    def __init__(self, cluster):
        self.cluster = cluster
        self.events = []
        self._pending = {}  # processor name -> [ (Deferred, event) ] not yet resolved
        self._last = {}  # processor name -> Deferred of the previous invocation (or None)
        self._consumers = []  # Consumer objects seen by processors, in order of first appearance

    def _consumer_no(self, consumer):
        for i, c in enumerate(self._consumers):
            if c is consumer:
                return i
        self._consumers.append(consumer)
        return len(self._consumers) - 1

    def _add(self, kind, **kw):
        c = self.cluster
        c._seq += 1
        ev = dict(kind=kind, t=c.clock.seconds(), n=c._seq, **kw)
        self.events.append(ev)
        return ev

    def note(self, kind="note", **kw):
        return self._add(kind, **kw)

    # ---- deferreds
    def watch(self, d, label, consume=True, **info):
        ev_issue = self._add("issued", label=label, **info)

        def done(result):
            ok = not isinstance(result, Failure)
            self._add("deferred", label=label, ok=ok, result=canon(result), issued_at=ev_issue["t"], **info)
            if not ok and consume:
                return None
            return result

        d.addBoth(done)
        return d

    def call(self, label, fn, *a, **kw):
        try:
            r = fn(*a, **kw)
        except Exception as e:  # noqa: BLE001 - the class is the observation
            self._add("raised", label=label, exc=type(e).__name__, errno=getattr(e, "errno", None))
            return None
        if isinstance(r, defer.Deferred):
            self.watch(r, label)
        else:
            self._add("returned", label=label, result=canon(r))
        return r

    def outcomes(self, label=None):
        return [e for e in self.events if e["kind"] in ("deferred", "raised") and (label is None or e["label"] == label)]

    def outcome(self, label):
        o = self.outcomes(label)
        return o[-1] if o else None

    # ---- processors
    def processor(self, name, behaviour="sync"):
        delay = None
        if isinstance(behaviour, tuple):
            behaviour, delay = behaviour

        def proc(consumer, msgs):
            prev = self._last.get(name)
            ev = self._add(
                "proc", name=name, topic=consumer.topic, partition=consumer.partition,
                offsets=[m.offset for m in msgs],
                keys=[m.message.key for m in msgs], values=[m.message.value for m in msgs],
                prev_pending=bool(prev is not None and not prev.called),
                member=getattr(consumer, "commit_consumer_id", None),
                generation=getattr(consumer, "commit_generation_id", None),
                consumer=self._consumer_no(consumer),
            )  # fmt: skip
            if callable(behaviour):
                r = behaviour(consumer, msgs, ev)
                self._last[name] = r if isinstance(r, defer.Deferred) else None
                return r
            if behaviour == "fail":
                self._last[name] = None
                raise RuntimeError("processor %s fails on purpose" % name)
            if behaviour == "sync":
                self._last[name] = None
                return None
            assert behaviour == "async", behaviour

            def cancelled(_d):
                self._add("proc-cancelled", name=name, offsets=ev["offsets"])

            d = defer.Deferred(cancelled)
            self._last[name] = d
            self._pending.setdefault(name, []).append((d, ev))
            d.addBoth(self._proc_done, name, ev)
            if delay is not None:
                self.cluster.clock.callLater(delay, lambda: d.called or d.callback(None))
            return d

        proc.__name__ = "proc_%s" % name
        return proc

    def _proc_done(self, result, name, ev):
        self._pending[name] = [(d, e) for d, e in self._pending.get(name, []) if e is not ev]
        self._add("proc-done", name=name, offsets=ev["offsets"], ok=not isinstance(result, Failure))
        return result

    def pending(self, name):
        return [d for d, _ in self._pending.get(name, []) if not d.called]

    def finish(self, name, result=None):
        p = self.pending(name)
        if p:
            p[0].callback(result)
        return bool(p)

    def fail(self, name, exc=None):
        p = self.pending(name)
        if p:
            p[0].errback(exc or RuntimeError("processor %s fails on purpose" % name))
        return bool(p)

    def delivered(self, name=None):
        out = []
        for e in self.events:
            if e["kind"] == "proc" and (name is None or e["name"] == name):
                out.extend((e["topic"], e["partition"], o, k, v) for o, k, v in zip(e["offsets"], e["keys"], e["values"]))
        return out


def timeline(cluster, rec):
    """Everything, in execution order (both logs draw `n` from one counter)."""
    return sorted(list(cluster.log) + list(rec.events), key=lambda e: e["n"])


# --------------------------------------------------------------------------- builders


def make_client(cluster, **kw):
    from afkak import KafkaClient

    from twisted.application.internet import backoffPolicy

    hosts = kw.pop("hosts", None) or cluster.hosts()
    kw.setdefault("reactor", cluster.clock)
    kw.setdefault("endpoint_factory", cluster.net)
    kw.setdefault("retry_policy", backoffPolicy(jitter=cluster.rng.random))
    return KafkaClient(hosts, **kw)


def make_producer(client, **kw):
    from afkak import Producer

    return Producer(client, **kw)


def make_consumer(client, topic, partition, rec, name=None, behaviour="sync", **kw):
    from afkak import Consumer

    name = name or "%s/%d" % (topic, partition)
    processor = kw.pop("processor", None) or rec.processor(name, behaviour)
    return Consumer(client, topic, partition, processor, **kw)


_RecordingGroup = None


def _recording_group_class():
    global _RecordingGroup
    if _RecordingGroup is None:
        from afkak import ConsumerGroup

        class RecordingGroup(ConsumerGroup):
            """ConsumerGroup whose three documented hooks also tell the Recorder."""

            _rec = None
            _rec_name = None

            def _hook(self, hook, **kw):
                self._rec._add(
                    "group-hook", name=self._rec_name, hook=hook, member=self.member_id, generation=self.generation_id,
                    running=sorted((t, c.partition) for t, cs in self.consumers.items() for c in cs), **kw
                )  # fmt: skip

            def on_join_prepare(self):
                self._hook("join_prepare")
                return ConsumerGroup.on_join_prepare(self)

            def on_join_complete(self, assignments):
                self._hook("join_complete", assignments={t: list(ps) for t, ps in assignments.items()})
                return ConsumerGroup.on_join_complete(self, assignments)

            def on_group_leave(self):
                self._hook("group_leave")
                return ConsumerGroup.on_group_leave(self)

        _RecordingGroup = RecordingGroup
    return _RecordingGroup


def make_group_member(client, group, topics, rec, name=None, behaviour="sync", **kw):
    cls = _recording_group_class()
    name = name or group
    processor = kw.pop("processor", None) or rec.processor(name, behaviour)
    g = cls(client, group, list(topics), processor, **kw)
    g._rec, g._rec_name = rec, name
    return g


# --------------------------------------------------------------------------- scripted scenarios


class Run(object):
    def __init__(self, cluster, rec):
        self.cluster, self.rec = cluster, rec
        self.clients, self.producers, self.consumers, self.members = {}, {}, {}, {}
        self.error = None
        self.script = None

    def timeline(self):
        return timeline(self.cluster, self.rec)


_OFFSETS = {"earliest": -2, "latest": -1, "committed": -101}
_CLUSTER_OPS = ("move_leader", "kill_broker", "start_broker", "restart_broker", "move_coordinator",
                "remove_from_metadata", "restore_to_metadata", "set_coordinator", "complete_join")  # fmt: skip


def build_cluster(spec, seed=0):
    spec = dict(spec or {})
    topics = spec.pop("topics", {})
    logs = spec.pop("logs", [])
    spec.setdefault("brokers", 3)
    spec.setdefault("rng", random.Random(seed))
    c = Cluster(**spec)
    if isinstance(topics, dict):
        topics = [dict(name=n, partitions=p) for n, p in topics.items()]
    for t in topics:
        t = dict(t)
        c.add_topic(t.pop("name"), **t)
    for lg in logs:
        lg = dict(lg)
        c.append(lg.pop("topic"), lg.pop("partition"), lg.pop("values"), **lg)
    return c


def _step(run, st):
    c, rec = run.cluster, run.rec
    st = dict(st)
    st.pop("at", None)
    do = st.pop("do")
    if do == "client":
        name = st.pop("name")
        run.clients[name] = make_client(c, **st)
    elif do == "producer":
        name = st.pop("name")
        run.producers[name] = make_producer(run.clients[st.pop("client", "c0")], **st)
    elif do == "send":
        p = run.producers[st.pop("producer", "p0")]
        label = st.pop("label", None) or "send#%d" % len(rec.events)
        d = p.send_messages(st["topic"], key=st.get("key"), msgs=st["msgs"])
        rec.watch(d, label, topic=st["topic"], key=st.get("key"), msgs=list(st["msgs"]))
    elif do == "stop_producer":
        rec.call(st.get("label", "stop_producer"), run.producers[st.get("producer", "p0")].stop)
    elif do == "consumer":
        name = st.pop("name")
        client = run.clients[st.pop("client", "c0")]
        run.consumers[name] = make_consumer(client, st.pop("topic"), st.pop("partition"), rec, name=name, **st)
    elif do == "start":
        name = st["consumer"]
        off = st.get("offset", "earliest")
        rec.call(st.get("label", "start:" + name), run.consumers[name].start, _OFFSETS.get(off, off))
    elif do in ("stop", "shutdown", "commit"):
        name = st["consumer"]
        rec.call(st.get("label", "%s:%s" % (do, name)), getattr(run.consumers[name], do))
    elif do == "member":
        name = st.pop("name")
        client = run.clients[st.pop("client", "c0")]
        run.members[name] = make_group_member(client, st.pop("group"), st.pop("topics"), rec, name=name, **st)
    elif do == "start_member":
        name = st["member"]
        rec.call(st.get("label", "start:" + name), run.members[name].start)
    elif do == "stop_member":
        name = st["member"]
        rec.call(st.get("label", "stop:" + name), run.members[name].stop)
    elif do == "finish_proc":
        rec.finish(st["name"], st.get("result"))
    elif do == "fail_proc":
        rec.fail(st["name"])
    elif do == "close":
        name = st.get("client", "c0")
        rec.call(st.get("label", "close:" + name), run.clients[name].close)
    elif do == "inject":
        c.inject(st.pop("action"), **st)
    elif do == "clear_faults":
        c.clear_faults()
    elif do == "append":
        c.append(st.pop("topic"), st.pop("partition"), st.pop("values"), **st)
    elif do in _CLUSTER_OPS:
        getattr(c, do)(**st)
    elif do == "set":
        setattr(c.brokers[st["broker"]], st["attr"], st["value"])
    elif do == "call":
        st["fn"](run)
    else:
        raise ValueError("unknown step %r" % do)


def run_scenario(script):
    seed = script.get("seed", 0)
    cluster = script.get("cluster_object") or build_cluster(script.get("cluster"), seed)
    rec = Recorder(cluster)
    run = Run(cluster, rec)
    run.script = script
    until = script.get("until", 60.0)
    steps, last = [], 0.0
    for i, st in enumerate(script.get("steps", [])):
        last = st.get("at", last)
        steps.append((last, i, st))
    steps.sort(key=lambda x: (x[0], x[1]))
    with Determinism(cluster, seed):
        try:
            if script.get("client") is not False:
                run.clients["c0"] = make_client(cluster, **(script.get("client") or {}))
            for at, _, st in steps:
                if at > cluster.clock.seconds():
                    cluster.advance(at - cluster.clock.seconds())
                _step(run, st)
                cluster.settle()
            if script.get("quiesce", True):
                cluster.run_until_idle(timeout=max(0.0, until - cluster.clock.seconds()))
            elif until > cluster.clock.seconds():
                cluster.advance(until - cluster.clock.seconds())
        except Livelock as e:
            run.error = e
            rec.note("livelock", error=str(e))
    return run
